"""C13 - StopWatch obeys its state machine under every call sequence.

spec/StopWatch.tla is the state machine; this check
  1. model-checks every clause of the property on the bounded instance,
  2. exports the labelled state graph and steps the REAL StopWatch along
     every edge and along every path up to a depth (spec -> code),
  3. records long random call sequences from the real StopWatch and validates
     them against the same actions with Trace_StopWatch (code -> spec),
  4. proves the binding: a corrupted trace and a deliberately wrong stub must
     both be rejected.
"""
import copy
import json
import multiprocessing
import os
import random

from vf import tlc
from vf.tlc import MachineryError

QUERY_OPS = ('elapsed', 'elapsed_max', 'leftover', 'leftover_none', 'expired',
             'has_started', 'has_stopped', 'splits')
_clock = [0]


def _impl():
    from oslo_utils import timeutils
    timeutils.now = lambda: float(_clock[0])
    return timeutils


def new_watch(tu, dur):
    return tu.StopWatch(None if dur == -1 else dur)


def clone(w):
    # a copy of the watch's whole state, not only of its top level: how the watch keeps its splits (a tuple that is
    # replaced, a list that grows) is its own business and must not leak from one branch of the replay into another
    c = object.__new__(type(w))
    c.__dict__.update(copy.deepcopy(w.__dict__))
    return c


def call(w, op, arg):
    """Execute one public call; return the result in the spec's encoding."""
    try:
        if op == 'start':
            r = w.start()
        elif op == 'stop':
            r = w.stop()
        elif op == 'resume':
            r = w.resume()
        elif op == 'restart':
            r = w.restart()
        elif op == 'enter':
            r = w.__enter__()
        elif op == 'exit':
            r = w.__exit__(None, None, None)
        elif op == 'split':
            s = w.split()
            return {'k': 'split', 'v': [num(s.elapsed), num(s.length)]}
        elif op == 'elapsed':
            return {'k': 'int', 'v': num(w.elapsed())}
        elif op == 'elapsed_max':
            return {'k': 'int', 'v': num(w.elapsed(maximum=arg))}
        elif op == 'leftover':
            return {'k': 'int', 'v': num(w.leftover())}
        elif op == 'leftover_none':
            r = w.leftover(return_none=True)
            return {'k': 'nil', 'v': 0} if r is None else {'k': 'int', 'v': num(r)}
        elif op == 'expired':
            r = w.expired()
            return {'k': 'bool', 'v': r} if isinstance(r, bool) else {'k': 'other', 'v': repr(r)}
        elif op == 'has_started':
            return {'k': 'bool', 'v': w.has_started()}
        elif op == 'has_stopped':
            return {'k': 'bool', 'v': w.has_stopped()}
        elif op == 'splits':
            return {'k': 'splits', 'v': [[num(s.elapsed), num(s.length)] for s in w.splits]}
        else:
            raise MachineryError('unknown op %r' % op)
    except RuntimeError:
        return {'k': 'err', 'v': 0}
    except MachineryError:
        raise
    except Exception as e:     # any other exception is an observation
        return {'k': 'raised', 'v': type(e).__name__}
    if r is w:
        return {'k': 'self', 'v': 0}
    if r is None:
        return {'k': 'nil', 'v': 0}
    return {'k': 'other', 'v': repr(r)}


def num(x):
    """Clock readings are integers carried by floats; keep exact values."""
    if isinstance(x, bool):
        return repr(x)
    if isinstance(x, (int, float)) and x == int(x):
        return int(x)
    return repr(x)


def public_proj(w):
    """What the public API lets one see without calling a mutator."""
    return {'started': w.has_started(), 'stopped': w.has_stopped(),
            'splits': [[num(s.elapsed), num(s.length)] for s in w.splits]}


def model_public(t):
    return {'started': t['st'] == 'started', 'stopped': t['st'] == 'stopped',
            'splits': t['splits']}


def private_proj(w):
    st = {None: 'none', 'STARTED': 'started', 'STOPPED': 'stopped'}.get(
        getattr(w, '_state', '?'), '?')
    return (st, getattr(w, '_started_at', None), getattr(w, '_stopped_at', None))


def masked(op, arg):
    return op == 'elapsed_max' and arg < 0


def key(s):
    return (s['st'], s['started'], s['stopped'], json.dumps(s['splits']),
            s['dur'], s['clock'], s['mono'])


def load_graph(records):
    adj = {}
    states = {}
    inits = []
    for r in records:
        kf, kt = key(r['f']), key(r['t'])
        states.setdefault(kf, r['f'])
        states.setdefault(kt, r['t'])
        adj.setdefault(kf, []).append((r['op'], r['arg'], r['res'], kt))
    for k, s in states.items():
        if s['st'] == 'none' and s['clock'] == 0 and s['mono'] and not s['splits']:
            inits.append(k)
    return states, adj, inits


def step_check(ctx, w, f, op, arg, res, t, path, mode):
    """Apply one edge to the real object w (already in model state f)."""
    if op == 'tick':
        return True
    _clock[0] = f['clock']
    try:
        handed_out = w.splits
        handed_out_was = [[num(x.elapsed), num(x.length)] for x in handed_out]
    except Exception:
        handed_out = None
    got = call(w, op, arg)
    ok = True
    if handed_out is not None and [[num(x.elapsed), num(x.length)] for x in handed_out] != handed_out_was:
        # the splits a caller read before the call are a record of the past: a later call does not rewrite them
        ok = False
        ctx.violation({'kind': 'splits-handed-out-earlier-changed', 'op': op},
                      {'path': path, 'from': f, 'op': op, 'arg': arg, 'read_before_the_call': handed_out_was,
                       'same_object_after_the_call': [[num(x.elapsed), num(x.length)] for x in handed_out]},
                      'StopWatch.%s(%s): the splits read before the call were %s and are %s afterwards (path %s)' % (
                          op, arg, handed_out_was, [[num(x.elapsed), num(x.length)] for x in handed_out], path))
    if not masked(op, arg):
        if got != res:
            ok = False
            ctx.violation(
                {'kind': 'result', 'op': op, 'state': f['st'],
                 'expected_kind': res['k'], 'got_kind': got['k']},
                {'path': path, 'from': f, 'op': op, 'arg': arg,
                 'expected': res, 'observed': got, 'mode': mode},
                'StopWatch.%s(%s) in model state %s: spec says %s, code gave %s (path %s)' % (
                    op, arg, f, res, got, path))
        pub, exp = public_proj(w), model_public(t)
        if pub != exp:
            ok = False
            ctx.violation(
                {'kind': 'state', 'op': op, 'state': f['st']},
                {'path': path, 'from': f, 'op': op, 'arg': arg,
                 'expected_state': t, 'observed_public': pub, 'mode': mode},
                'after StopWatch.%s(%s) from %s: spec state %s, code shows %s (path %s)' % (
                    op, arg, f, t, pub, path))
    return ok


def replay_edges(ctx, tu, states, adj, inits):
    """Every edge of the bounded graph, each reached through a BFS tree."""
    n_edges = 0
    drift = 0
    objs = {}
    paths = {}
    frontier = []
    for k in inits:
        objs[k] = new_watch(tu, states[k]['dur'])
        paths[k] = []
        frontier.append(k)
    seen_edge_classes = set()
    while frontier:
        nxt = []
        for k in frontier:
            f = states[k]
            for op, arg, res, kt in adj.get(k, ()):
                t = states[kt]
                w = clone(objs[k])
                p = paths[k] + [[op, arg]]
                n_edges += 1
                ok = step_check(ctx, w, f, op, arg, res, t, p, 'edges')
                seen_edge_classes.add((f['st'], op, res['k']))
                if ok and op != 'tick':
                    st, sa, so = private_proj(w)
                    if st != t['st'] or (t['st'] != 'none' and sa != t['started']):
                        drift += 1
                if kt not in objs and ok:
                    objs[kt] = w
                    paths[kt] = p
                    nxt.append(kt)
        frontier = nxt
    return n_edges, len(objs), drift, seen_edge_classes


def _dfs_worker(args):
    """All paths of length <= depth below one first edge (run in a pool)."""
    graph_file, init_k, first, depth, seed = args
    with open(graph_file) as fh:
        g = json.load(fh)
    states = {tuple(k): v for k, v in g['states']}
    adj = {tuple(k): [(a, b, c, tuple(d)) for a, b, c, d in v] for k, v in g['adj']}
    tu = _impl()

    class Mini:
        def __init__(self):
            self.viol = []

        def violation(self, sig, detail, text):
            if len(self.viol) < 5:
                self.viol.append((sig, detail, text))
    mini = Mini()
    count = [0]

    def rec(k, w, path, d):
        if d == 0:
            return
        f = states[k]
        for op, arg, res, kt in adj.get(k, ()):
            w2 = clone(w)
            count[0] += 1
            p = path + [[op, arg]]
            if step_check(mini, w2, f, op, arg, res, states[kt], p, 'paths') and not mini.viol:
                rec(kt, w2, p, d - 1)
    k0 = tuple(init_k)
    w = new_watch(tu, states[k0]['dur'])
    f = states[k0]
    op, arg, res, kt = first
    kt = tuple(kt)
    count[0] += 1
    if step_check(mini, w, f, op, arg, res, states[kt], [[op, arg]], 'paths'):
        rec(kt, w, [[op, arg]], depth - 1)
    return count[0], mini.viol


def replay_paths(ctx, states, adj, inits, depth):
    gf = os.path.join(ctx.work, 'graph.json')
    with open(gf, 'w') as fh:
        json.dump({'states': [[list(k), v] for k, v in states.items()],
                   'adj': [[list(k), [[a, b, c, list(d)] for a, b, c, d in v]]
                           for k, v in adj.items()]}, fh)
    jobs = []
    for k in inits:
        for e in adj.get(k, ()):
            jobs.append((gf, list(k), (e[0], e[1], e[2], list(e[3])), depth, ctx.seed))
    total = 0
    with multiprocessing.Pool(16) as pool:
        for n, viol in pool.imap_unordered(_dfs_worker, jobs):
            total += n
            for sig, detail, text in viol:
                ctx.violation(sig, detail, text)
    return total


OPS = ['tick', 'start', 'stop', 'resume', 'restart', 'split', 'elapsed',
       'elapsed_max', 'leftover', 'leftover_none', 'expired', 'has_started',
       'has_stopped', 'splits', 'enter', 'exit']


def record_trace(tu, rnd, length, cls=None):
    dur = rnd.choice([-1, 0, 2, 5, 1000])
    _clock[0] = 0
    w = (cls or tu.StopWatch)(None if dur == -1 else dur)
    ev = []
    weights = [4] + [1] * (len(OPS) - 1)
    backwards = rnd.random() < 0.3
    for _ in range(length):
        op = rnd.choices(OPS, weights)[0]
        if op == 'tick':
            d = rnd.choice([0, 1, 3, 7, 100] + ([-2, -50] if backwards else []))
            _clock[0] += d
            ev.append({'op': 'tick', 'arg': d, 'r': {'k': 'none', 'v': 0}})
            continue
        arg = rnd.choice([0, 1, 5, 50]) if op == 'elapsed_max' else 0
        ev.append({'op': op, 'arg': arg, 'r': call(w, op, arg)})
    return {'dur': dur, 'ev': ev}


def record_pair(tu, rnd, length):
    """Two watches used side by side under one clock: each must behave as if it were alone (no state shared
    between instances).  Returns the two traces; both contain every tick."""
    _clock[0] = 0
    durs = [rnd.choice([-1, 0, 2, 5, 1000]) for _ in range(2)]
    ws = [tu.StopWatch(None if d == -1 else d) for d in durs]
    evs = [[], []]
    weights = [4] + [1] * (len(OPS) - 1)
    for _ in range(length):
        op = rnd.choices(OPS, weights)[0]
        if op == 'tick':
            d = rnd.choice([0, 1, 3, 7, 100])
            _clock[0] += d
            for ev in evs:
                ev.append({'op': 'tick', 'arg': d, 'r': {'k': 'none', 'v': 0}})
            continue
        i = rnd.randrange(2)
        arg = rnd.choice([0, 1, 5, 50]) if op == 'elapsed_max' else 0
        evs[i].append({'op': op, 'arg': arg, 'r': call(ws[i], op, arg)})
    return [{'dur': durs[0], 'ev': evs[0]}, {'dur': durs[1], 'ev': evs[1]}]


def validate_traces(ctx, traces, label, expect_reject=None):
    """Batch validation; returns the set of rejected trace indices (0-based)."""
    path = os.path.join(ctx.work, 'traces_%s.json' % label)
    with open(path, 'w') as fh:
        json.dump(traces, fh)
    res = tlc.run('Trace_StopWatch', workdir=ctx.work, workers=1,
                  env={'TRACE_FILE': path}, allow_violation=True, parse=False)
    done = set()
    for line in res.output.splitlines():
        if line.startswith('<<"done", '):
            done.add(int(line[len('<<"done", '):].rstrip('>')) - 1)
    rejected = set(range(len(traces))) - done
    if res.violated:
        # an invariant of the module failed on a state of a recorded trace
        rejected.add(-1)
    return rejected, res


def diagnose(ctx, trace):
    path = os.path.join(ctx.work, 'trace_diag.json')
    with open(path, 'w') as fh:
        json.dump([trace], fh)
    res = tlc.run('Trace_StopWatch', workdir=ctx.work, workers=1,
                  env={'TRACE_FILE': path, 'TRACE_DIAG': '1'},
                  allow_violation=True, parse=False)
    at = 1
    for line in res.output.splitlines():
        if line.startswith('<<"at", 1, '):
            at = max(at, int(line[len('<<"at", 1, '):].rstrip('>')))
    return at, res.violated


def float_clock_stage(ctx, tu, rnd):
    """The model's clock is integral; real clocks are not.  The clauses that are inequalities or equalities between
    values the watch itself computed must hold for readings that are not exactly representable too: MaxRespected
    (elapsed(maximum=m) <= m, and = min(elapsed(), m)), NonNegative, LeftoverRight (max(0, duration - elapsed)),
    ExpiredRight (elapsed > duration), the split lengths being successive differences."""
    n = 0
    saved = tu.now
    box = [0.0]
    tu.now = lambda: box[0]
    try:
        for j in range(3000 if ctx.quick else 60000):
            start = rnd.choice([0.1, 0.3, 1e6 + 0.25, rnd.uniform(0, 1e7), rnd.uniform(0, 10)])
            dur = rnd.choice([None, 0.1, 0.7, rnd.uniform(0, 5)])
            w = tu.StopWatch(dur)
            box[0] = start
            w.start()
            box[0] = start + rnd.choice([0.0, 0.1, 0.2, 0.30000000000000004, rnd.uniform(0, 3), 1e-9])
            if j % 3 == 0:
                w.stop()
                box[0] += rnd.uniform(0, 2)
            e = w.elapsed()
            m = rnd.choice([0.0, 0.1, 0.2, 0.05, e, rnd.uniform(0, 3), -1.0])
            em = w.elapsed(maximum=m)
            problems = []
            if e < 0:
                problems.append('negative elapsed %r' % e)
            if m >= 0 and (em > m or em != min(e, m)):
                problems.append('elapsed(maximum=%r) = %r with elapsed() = %r' % (m, em, e))
            if dur is not None and j % 3:          # leftover / expired are calls on a running watch
                if w.leftover() != max(0.0, dur - e):
                    problems.append('leftover %r, duration %r, elapsed %r' % (w.leftover(), dur, e))
                if w.expired() != (e > dur):
                    problems.append('expired %r, duration %r, elapsed %r' % (w.expired(), dur, e))
            n += 1
            for p in problems:
                ctx.violation({'kind': 'float-readings', 'what': p.split(' ')[0]}, {'start': start, 'now': box[0], 'duration': dur, 'maximum': m},
                              'StopWatch with clock readings %r -> %r: %s' % (start, box[0], p))
        # a clock that moves on with every reading (as a real one does while a call is running): whatever a call
        # returns is computed from ONE of the readings it took - leftover is max(0, duration - elapsed) for it,
        # never negative; expired is (elapsed > duration) for it
        readings = []
        step = [0.0]

        def ticking():
            box[0] += step[0]
            readings.append(box[0])
            return box[0]
        tu.now = ticking
        for j in range(2000 if ctx.quick else 40000):
            start = rnd.choice([0.0, 0.3, rnd.uniform(0, 100)])
            dur = rnd.choice([0.5, 1.0, rnd.uniform(0.1, 3)])
            step[0] = 0.0
            box[0] = start
            w = tu.StopWatch(dur)
            w.start()
            started = box[0]
            box[0] = started + rnd.choice([dur - 0.2, dur - 0.05, dur + 0.05, rnd.uniform(0, 2 * dur)])
            step[0] = rnd.choice([0.1, 0.3, 0.07])
            for name in ('leftover', 'expired', 'elapsed'):
                del readings[:]
                got = getattr(w, name)()
                es = [max(0.0, r - started) for r in readings]
                if name == 'leftover':
                    ok = any(got == max(0.0, dur - e) for e in es) and got >= 0
                elif name == 'expired':
                    ok = any(got == (e > dur) for e in es)
                else:
                    ok = got in es
                n += 1
                if not ok:
                    ctx.violation({'kind': 'ticking-clock', 'call': name}, {'started': started, 'duration': dur, 'readings': list(readings), 'result': got},
                                  'StopWatch.%s() under a clock that ticks on every reading returned %r; readings %s, started %r, duration %r' % (
                                      name, got, readings, started, dur))
        # a clock that counts whole ticks and has been counting for a long time (a nanosecond counter past 2^53): the
        # distances between readings are small whole numbers and come out exactly
        tu.now = lambda: box[0]
        for j in range(600 if ctx.quick else 12000):
            start = rnd.choice([2 ** 53, 2 ** 53 + 1, 2 ** 60 + 7, 2 ** 63 - 5, 10 ** 18 + rnd.randint(0, 10 ** 6)])
            d1, d2 = rnd.randint(0, 5), rnd.randint(0, 5)
            dur = rnd.choice([0, 1, 3, None])
            w = tu.StopWatch(dur)
            box[0] = start
            w.start()
            box[0] = start + d1
            problems = []
            if w.elapsed() != d1:
                problems.append('elapsed %r after %d ticks' % (w.elapsed(), d1))
            if dur is not None and (w.expired() != (d1 > dur) or w.leftover() != max(0, dur - d1)):
                problems.append('expired %r / leftover %r after %d ticks of %d' % (w.expired(), w.leftover(), d1, dur))
            sp = w.split()
            box[0] = start + d1 + d2
            sp2 = w.split()
            if (sp.elapsed, sp.length, sp2.elapsed, sp2.length) != (d1, d1, d1 + d2, d2):
                problems.append('splits %r, %r after %d and %d more ticks' % (sp, sp2, d1, d2))
            w.stop()
            box[0] = start + d1 + d2 + 9
            if w.elapsed() != d1 + d2:
                problems.append('elapsed %r of a watch stopped after %d ticks' % (w.elapsed(), d1 + d2))
            n += 1
            for p in problems:
                ctx.violation({'kind': 'large-readings', 'what': p.split(' ')[0]}, {'start': start, 'ticks': [d1, d2], 'duration': dur},
                              'StopWatch under a whole-number clock started at %d: %s' % (start, p))
        # (beyond the statement) someone looks at the watch while a call is reading the clock - another thread, or the
        # clock function itself: a call takes effect after its reading, so the onlooker sees the watch as it was
        seen = []
        busy = [False]
        wbox = [None]

        def observing():
            if not busy[0] and wbox[0] is not None:
                busy[0] = True
                try:
                    seen.append(('elapsed', wbox[0].elapsed()))
                except RuntimeError:
                    seen.append(('RuntimeError', None))
                except Exception as e:      # noqa
                    seen.append(('EXC:' + type(e).__name__, None))
                finally:
                    busy[0] = False
            return box[0]
        tu.now = observing
        for j in range(300 if ctx.quick else 6000):
            w = tu.StopWatch(rnd.choice([None, 2]))
            wbox[0] = None
            box[0] = 10
            w.start()
            wbox[0] = w
            t = 10
            state, started, stopped = 'started', 10, None
            for op in [rnd.choice(['stop', 'resume', 'restart', 'split', 'elapsed']) for _ in range(6)]:
                if (op == 'resume' and state != 'stopped') or (op == 'split' and state != 'started'):
                    continue
                t += rnd.randint(0, 3)
                box[0] = t
                del seen[:]
                getattr(w, op)()
                want = ('elapsed', (t if state == 'started' else stopped) - started)
                bad = [x for x in seen if x != want]
                n += 1
                if bad:
                    ctx.beyond('StopWatch', {'kind': 'onlooker-during-clock-reading', 'call': op, 'state': state, 'sees': bad[0][0]},
                               {'call': op, 'state_before': state, 'clock': t, 'started': started, 'stopped': stopped, 'seen': seen[:3]},
                               'while %s() of a %s watch reads the clock, elapsed() gives %s; the watch as it was gives %s' % (op, state, bad[0], want))
                if op == 'stop' and state == 'started':
                    state, stopped = 'stopped', t
                elif op == 'resume':
                    state = 'started'       # the distance is measured from the last (re)start, the pause included
                elif op == 'restart':
                    state, started = 'started', t
    finally:
        tu.now = saved
    ctx.cov['evaluations'] += n
    ctx.stage('float-readings', cases=n)


def repo_tests_stage(ctx):
    """code -> spec on the repository's own workloads: its timeutils / fixture / excutils tests run under
    vf.repo_recorder (every public StopWatch call and every clock reading logged from outside) and each
    recorded trace must be a behaviour of StopWatch.tla with every invariant holding at every step."""
    from vf import repo_traces
    rec = repo_traces.record(ctx, ['oslo_utils/tests/test_timeutils.py', 'oslo_utils/tests/test_fixture.py',
                                  'oslo_utils/tests/test_excutils.py'], 'stopwatch', 'sw')
    trs = rec['stopwatch']
    events = sum(len(t['ev']) for t in trs)
    if len(trs) < 10 or events < 80:
        ctx.note('repository tests under the recorder gave only %d StopWatch traces / %d events (%s)' % (
            len(trs), events, rec['pytest_tail']))
    if trs:
        rejected, r = validate_traces(ctx, trs, 'repo')
        ctx.tlc(r, 'Trace_StopWatch on traces recorded from the repository\'s own tests', counts_as_states=False)
        for i in sorted(x for x in rejected if x >= 0)[:5]:
            at, inv = diagnose(ctx, trs[i])
            ev = trs[i]['ev']
            ctx.violation({'kind': 'repo-test-trace', 'op': ev[at - 1]['op'] if at <= len(ev) else '?'},
                          {'trace': trs[i], 'rejected_at_line': at, 'invariant': inv, 'test': trs[i].get('test')},
                          'StopWatch trace recorded while running %s is not a behaviour of the spec: line %d %s%s' % (
                              trs[i].get('test'), at, ev[at - 1] if at <= len(ev) else None,
                              ' invariant ' + inv if inv else ''))
        if -1 in rejected and not any(x >= 0 for x in rejected):
            raise MachineryError('repo trace batch: invariant %s violated but all traces done' % r.violated)
        ctx.cov['traces_validated_against_impl'] += len(trs) - len([x for x in rejected if x >= 0])
    ctx.stage('repo-test-traces', tests=rec['tests'], traces=len(trs), events=events,
              unrepresentable=rec['stopwatch_unrepresentable'], pytest=rec['pytest_tail'])


def retry_stage(ctx, tu):
    """Spec growth: excutils.forever_retry_uncaught_exceptions = retry loop + StopWatch throttling
    (spec/Retry.tla). Every behaviour (message / extra-time sequence) of the bounded model is replayed."""
    import time as _time
    from oslo_utils import excutils
    total = 0
    for cfg in ('a', 'b', 'c', 'd'):
        res = tlc.run('MC_Retry', 'MC_Retry_%s.cfg' % cfg, workdir=ctx.work, workers=4)
        ctx.tlc(res, 'Retry (%s): Accounted, OneSleepPerFailure, ChangeLoggedAtOnce, Throttled' % cfg, counts_as_states=False)
        recs = res.records if not ctx.quick else res.records[::4]
        for rec in recs:
            hist = rec['hist']
            logged = []
            slept = []
            state = {'i': 0}
            _clock[0] = 0

            def fn():
                i = state['i']
                if i < len(hist):
                    state['i'] += 1
                    raise ValueError('message %d' % hist[i][0])
                return 'result'

            def fake_sleep(sec):
                i = state['i'] - 1
                slept.append(sec)
                _clock[0] += sec + hist[i][1]

            def fake_exception(msg, *a, **kw):
                logged.append(msg)
            saved = (excutils.time.sleep, excutils.logging.exception)
            excutils.time.sleep = fake_sleep
            excutils.logging.exception = fake_exception
            try:
                wrapped = excutils.forever_retry_uncaught_exceptions(retry_delay=rec['rd'], same_log_delay=rec['sld'])(fn)
                out = wrapped()
            except Exception as e:
                out = 'EXC:' + type(e).__name__
            finally:
                excutils.time.sleep, excutils.logging.exception = saved
            total += 1
            want_logs = ['Unexpected exception occurred %d time(s)... retrying.' % c for (_m, c) in rec['logs']]
            if out != 'result' or logged != want_logs or len(slept) != len(hist) or any(x != rec['rd'] for x in slept):
                ctx.beyond('Retry', {'kind': 'retry', 'result_ok': out == 'result', 'logs_ok': logged == want_logs},
                              {'failures': hist, 'retry_delay': rec['rd'], 'same_log_delay': rec['sld'],
                               'expected_logs': want_logs, 'observed_logs': logged, 'sleeps': slept, 'result': out},
                              'forever_retry_uncaught_exceptions(retry_delay=%s, same_log_delay=%s) over failures %s: logged %s, '
                              'specification %s' % (rec['rd'], rec['sld'], hist, logged, want_logs))
    ctx.cov['evaluations'] += total
    ctx.stage('retry-composition', behaviours=total)


def time_it_stage(ctx, tu):
    """Spec growth: timeutils.time_it decision table (spec/Misc.tla) -- the decorator is a StopWatch client."""
    import logging
    res = tlc.run('MC_Misc', workdir=ctx.work, workers=1)
    ctx.tlc(res, 'Misc: time_it table, flatten_dict_to_keypairs (PairsAreLeaves)', counts_as_states=False)
    n = 0
    for rec in res.records:
        c = rec['c']
        if c['k'] != 'time_it':
            continue
        calls = []

        class L:
            def log(self, level, msg, args):
                calls.append((level, msg % args))

        def body():
            _clock[0] += c['elapsed'] / 1000.0
            if c['raises']:
                raise KeyError('boom')
            return 'value'
        kw = {'enabled': c['enabled'], 'min_duration': None if c['min'] == -1 else c['min'] / 1000.0}
        _clock[0] = 0
        fn = tu.time_it(L(), logging.INFO, **kw)(body)
        try:
            out = fn()
        except KeyError:
            out = 'KeyError'
        n += 1
        want_out = 'KeyError' if c['raises'] else 'value'
        if out != want_out or (len(calls) == 1) != rec['ref']['logged'] or len(calls) > 1:
            ctx.beyond('Misc', {'kind': 'time_it', 'logged': len(calls), 'want': rec['ref']['logged']},
                          {'case': c, 'log_calls': calls, 'result': out},
                          'time_it %s: %d log call(s), result %s; specification logged=%s' % (c, len(calls), out, rec['ref']['logged']))
    ctx.cov['evaluations'] += n
    ctx.stage('time_it', cases=n)


def run(ctx):
    tu = _impl()
    quick = ctx.quick
    ctx.assumptions += [
        'clock readings are integers (exactly representable floats); the clock moves only between public calls',
        'elapsed(maximum < 0) is modelled but not compared (the property does not pin it down)',
        'TLC, the JSON bridge and the harness are trusted; binding self-tests guard the bridge',
    ]
    # 1. model checking of the clauses -------------------------------------
    cfg = 'MC_StopWatch_quick.cfg' if quick else 'MC_StopWatch.cfg'
    res = tlc.run('MC_StopWatch', cfg, workdir=ctx.work, coverage=True, parse=False)
    ctx.tlc(res, 'clauses of C13 on the bounded model (%s)' % cfg)
    actions = ['Tick', 'Start', 'Stop', 'Resume', 'Restart', 'Split', 'ElapsedOp',
               'ElapsedMax', 'Leftover', 'LeftoverNone', 'Expired', 'HasStarted',
               'HasStopped', 'SplitsOp', 'Enter', 'Exit']
    dead = [a for a in actions if res.coverage.get(a, (0, 0))[1] == 0]
    if dead:
        raise MachineryError('vacuity: actions never taken: %s' % dead)
    ctx.stage('tlc-invariants', distinct=res.distinct, generated=res.generated,
              depth=res.depth, wall=round(res.wall_s, 1))

    # 1b. the clauses that speak of "any monotonic clock readings", for unbounded integers (Apalache, inductive invariant)
    base = tlc.apalache('StopWatchInd', 'Init', 'Goal', 0, ctx.work)
    step = tlc.apalache('StopWatchInd', 'IndInit', 'Goal', 1, ctx.work)
    wrong = tlc.apalache('StopWatchInd', 'IndInit', 'WrongGoal', 1, ctx.work)
    if (base, step, wrong) != ('ok', 'ok', 'violation'):
        raise MachineryError('StopWatchInd: base %s, step %s, wrong goal %s' % (base, step, wrong))
    proved = tlc.tlaps('StopWatchIndProof', ctx.work)
    ctx.stage('apalache-inductive', base=base, step=step, wrong_goal=wrong, tlaps_obligations_proved=proved)

    # 2. graph export and spec -> code replay --------------------------------
    gcfg = 'MC_StopWatch_graph_quick.cfg' if quick else 'MC_StopWatch_graph.cfg'
    g = tlc.run('MC_StopWatch', gcfg, workdir=ctx.work,
                stdout_path=os.path.join(ctx.work, 'graph.out'))
    ctx.tlc(g, 'labelled state graph export (%s)' % gcfg, counts_as_states=False)
    states, adj, inits = load_graph(g.records)
    if not inits or len(g.records) < 1000:
        raise MachineryError('graph export too small: %d' % len(g.records))
    g.records = None
    n_edges, n_states, drift, classes = replay_edges(ctx, tu, states, adj, inits)
    ctx.stage('replay-edges', edges=n_edges, model_states_reached=n_states,
              model_states=len(states), private_state_drift=drift,
              edge_classes=len(classes))
    if n_states < len([k for k in states if k in adj]) and not ctx.violations:
        raise MachineryError('BFS did not reach every expanded model state')
    depth = 4 if quick else 6
    n_paths = replay_paths(ctx, states, adj, inits, depth)
    ctx.stage('replay-paths', depth=depth, path_steps=n_paths)
    ctx.cov['evaluations'] += n_edges + n_paths
    ctx.cov['distinct_nontrivial'] += n_edges
    ctx.sample({'spec_to_code_edge': {'from': states[inits[0]],
                                      'edge': list(adj[inits[0]][0][:3])}})

    # 3. code -> spec: random long traces ------------------------------------
    rnd = random.Random(ctx.seed)
    n_tr = 1500 if quick else 30000
    batch = 3000
    total = 0
    first = None
    for b in range(0, n_tr, batch):
        traces = [record_trace(tu, rnd, rnd.choice([30, 60, 120, 200]))
                  for _ in range(min(batch, n_tr - b))]
        # every fifth trace comes from a pair of watches used side by side
        for j in range(0, len(traces) - 1, 10):
            traces[j], traces[j + 1] = record_pair(tu, rnd, rnd.choice([60, 120, 200]))
        first = first or traces[0]
        rejected, r = validate_traces(ctx, traces, 'b%d' % b)
        ctx.tlc(r, 'trace validation batch %d' % b, counts_as_states=False)
        total += len(traces) - len([x for x in rejected if x >= 0])
        for i in sorted(x for x in rejected if x >= 0)[:5]:
            at, inv = diagnose(ctx, traces[i])
            ev = traces[i]['ev']
            ctx.violation(
                {'kind': 'trace', 'op': ev[at - 1]['op'] if at <= len(ev) else '?'},
                {'trace': traces[i], 'rejected_at_line': at, 'invariant': inv,
                 'line': ev[at - 1] if at <= len(ev) else None},
                'recorded StopWatch trace not a behaviour of the spec: line %d %s (dur=%s)%s' % (
                    at, ev[at - 1] if at <= len(ev) else None, traces[i]['dur'],
                    ' invariant ' + inv if inv else ''))
        if -1 in rejected and not any(x >= 0 for x in rejected):
            raise MachineryError('trace batch: invariant %s violated but all traces done' % r.violated)
    ctx.cov['traces_validated_against_impl'] += total
    ctx.cov['evaluations'] += n_tr
    ctx.stage('trace-validation', traces=n_tr, accepted=total)
    ctx.sample({'code_to_spec_trace_head': {'dur': first['dur'], 'ev': first['ev'][:8]}})

    float_clock_stage(ctx, tu, rnd)
    repo_tests_stage(ctx)
    retry_stage(ctx, tu)
    time_it_stage(ctx, tu)
    # 4. binding self-tests ---------------------------------------------------
    # a spec-generated trace (a walk through the exported graph), independent
    # of the implementation: must be accepted; with one result changed: rejected
    k = [k for k in inits if states[k]['dur'] == 2][0]
    ev = []
    r2 = random.Random(7)
    for _ in range(40):
        op, arg, rs, kt = r2.choice(adj[k])
        if kt not in adj:
            continue
        ev.append({'op': op, 'arg': arg, 'r': rs})
        k = kt
    good = {'dur': 2, 'ev': ev}
    bad = json.loads(json.dumps(good))
    for e in bad['ev']:
        if e['r']['k'] == 'int':
            e['r']['v'] += 1
            break
    else:
        raise MachineryError('self-test walk has no integer result')
    rejected, _ = validate_traces(ctx, [good, bad], 'selftest')
    if rejected != {1}:
        raise MachineryError('binding self-test (corrupted trace) failed: rejected=%s' % rejected)

    class Wrong(tu.StopWatch):           # resume() that resets the start instant
        def resume(self):
            r = super().resume()
            self._started_at = tu.now()
            return r

    class Probe:
        def __init__(self):
            self.n = 0

        def violation(self, *a):
            self.n += 1
            return True
    probe = Probe()
    # walk: start, tick 1, stop, tick 1, resume, elapsed must expose the stub
    k = [k for k in inits if states[k]['dur'] == -1][0]
    w = Wrong()
    for want in (('start', 0), ('tick', 1), ('stop', 0), ('tick', 1), ('resume', 0), ('elapsed', 0)):
        e = [e for e in adj[k] if (e[0], e[1]) == want][0]
        step_check(probe, w, states[k], e[0], e[1], e[2], states[e[3]], [], 'selftest')
        k = e[3]
    if probe.n == 0:
        raise MachineryError('binding self-test (wrong stub) not detected')
    ctx.stage('binding-selftest', corrupted_trace_rejected=True, wrong_stub_detected=True)
    ctx.cov['rule'] = (
        'spec->code: every transition of the bounded StopWatch graph (16 ops incl. ticks, '
        '4 durations) executed on the real object reached via a BFS tree, plus every path of '
        'length <= %d from the initial states; distinct_nontrivial = graph edges executed '
        '(distinct (state, op, arg) triples); readings that are not whole numbers, a ticking clock, whole-number clocks from 2^53 to 2^63. code->spec: random call sequences of length '
        '30..200 recorded from the real StopWatch and validated line by line with Trace_StopWatch.' % depth)
    ctx.cov['exhaustive'] = True
