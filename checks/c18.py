"""C18 - the spec matcher implements its documented operator table."""
import multiprocessing
import operator
import os
from decimal import Decimal

from vf import tlc
from vf.tlc import MachineryError

ORDER = ['!', '-', '.', '0', '1', '2', '5', '9', '<', '=', '>', 'B', '_', 'a', 'b', 'o', 'r', 's']   # SpecsMatcher!Order
NUM_OPS = ('=', '==', '!=', '<', '<=', '>', '>=')
STR_OPS = ('s==', 's!=', 's<', 's<=', 's>', 's>=')
ALL_OPS = NUM_OPS + STR_OPS + ('<in>', '<all-in>', '<or>', '<range-in>', '')


def word(w):
    """a word of the model (sequence of one-character strings; TLC exports the
    empty sequence as [] or {}) -> str"""
    if not w:
        return ''
    if not isinstance(w, list) or any(not isinstance(ch, str) or len(ch) != 1 for ch in w):
        raise MachineryError('not a word: %r' % (w,))
    return PREFIX + ''.join(w)


PREFIX = ''     # set by the long-operand stage: one common prefix on every word keeps equality, order and membership


def tokens(c):
    op = c['op']
    a = [word(x) for x in c['a']]
    if op == '':
        return [a[0]], set()
    if op == '<or>':
        out = []
        for x in a:
            out += ['<or>', x]
        return out, set(range(0, len(out), 2))
    if op == '<range-in>':
        return [op, c['lb'], a[0], a[1], c['rb']], {0}
    return [op] + a, {0}


def layout(name, toks, ops_at):
    """gamma for the whitespace layouts named in SpecsMatcher!Layouts"""
    if name == 'single':
        return ' '.join(toks)
    if name == 'double':
        return '  '.join(toks)
    if name == 'tab':
        return '\t'.join(toks)
    if name == 'newline':
        return '\n'.join(toks)
    if name == 'lead':
        return '   ' + ' '.join(toks)
    if name == 'trail':
        return ' '.join(toks) + '  '
    if name == 'padded':
        return '  ' + '  '.join(toks) + ' \t'
    if name == 'glued':
        out = ''
        for i, t in enumerate(toks):
            out += t
            if i + 1 < len(toks) and i not in ops_at:
                out += ' '
        return out
    raise MachineryError('unknown layout %r' % name)


def values(c, thorough):
    """concrete cmp_value arguments for a case (all are str: the DSL compares text)"""
    if c['op'] == '<all-in>':
        items = [word(x) for x in c['vl']]
        out = [str(items)]                       # the spelling used by the library's callers and tests
        if thorough:
            out.append('[' + ','.join('"%s"' % i for i in items) + ']')
        return out
    return [word(c['v'])]


def oracle(c):
    """the same table evaluated with Python's own text and decimal semantics;
    validates the model's abstractions (character ranks, hundredths)"""
    op = c['op']
    a = [word(x) for x in c['a']]
    v = word(c['v'])
    if op in NUM_OPS:
        x, y = Decimal(v), Decimal(a[0])
        f = {'=': operator.ge, '==': operator.eq, '!=': operator.ne, '<': operator.lt, '<=': operator.le,
             '>': operator.gt, '>=': operator.ge}[op]
        return f(x, y)
    if op in STR_OPS:
        f = {'s==': operator.eq, 's!=': operator.ne, 's<': operator.lt, 's<=': operator.le,
             's>': operator.gt, 's>=': operator.ge}[op]
        return f(v, a[0])
    if op == '':
        return v == a[0]
    if op == '<in>':
        return v.find(a[0]) >= 0
    if op == '<or>':
        return v in set(a)
    if op == '<all-in>':
        return set(a) <= set(word(x) for x in c['vl'])
    if op == '<range-in>':
        x, lo, hi = Decimal(v), Decimal(a[0]), Decimal(a[1])
        if lo > hi:
            return 'TypeError'
        return (x >= lo if c['lb'] == '[' else x > lo) and (x <= hi if c['rb'] == ']' else x < hi)
    raise MachineryError('oracle: unknown operator %r' % op)


def observe(match, value, spec):
    try:
        r = match(value, spec)
    except Exception as e:
        return type(e).__name__
    if r is True:
        return 'true'
    if r is False:
        return 'false'
    return 'non-bool:' + repr(r)[:40]


def renderings(c, layouts, thorough):
    toks, ops_at = tokens(c)
    return [(value, name, layout(name, toks, ops_at)) for value in values(c, thorough) for name in layouts]


def judge(ctx, c, want, value, name, spec, got, stats=None):
    if stats is not None:
        stats[(c['op'], got)] = stats.get((c['op'], got), 0) + 1
    if got != want:
        kind = 'verdict' if got in ('true', 'false') and want in ('true', 'false') else 'outcome-class'
        ctx.violation({'kind': kind, 'family': c['k'], 'op': c['op'], 'want': want, 'got': got,
                       'layout': name if name != 'single' else 'any'},
                      {'value': value, 'spec': spec, 'layout': name, 'case': c, 'expected': want, 'observed': got},
                      'match(%r, %r): specification %s, code %s' % (value, spec, want, got))


def compare(ctx, match, c, want, layouts, thorough, stats=None):
    """in-process replay of one case (used by the binding self-test)"""
    n = 0
    for value, name, spec in renderings(c, layouts, thorough):
        judge(ctx, c, want, value, name, spec, observe(match, value, spec), stats)
        n += 1
    return n


def _job(batch):
    """worker: the real match() on a batch of (value, spec) pairs (make_grammar() is rebuilt on every call, ~1 ms)"""
    from oslo_utils import specs_matcher
    return [observe(specs_matcher.match, value, spec) for value, spec in batch]


def run(ctx):
    from oslo_utils import specs_matcher
    quick = ctx.quick
    ctx.assumptions += [
        'values are str (the DSL compares text; an int value makes <range-in> raise ValueError from ast.literal_eval while '
        '>= accepts it; <all-in> needs the text of a list literal of strings)',
        'operands and bare specs never start with an operator, contain no blanks, and there is exactly one bare word when '
        'there is no operator (the code compares only the first word of "a b"); brackets of <range-in> are separate tokens',
        'numerals are plain decimals (optional minus, digits, optional point with 1-2 digits, no leading zeros); exponent, hex, '
        'underscore, plus-sign, inf/nan spellings and non-numeric operands of numeric operators (ValueError) are outside the grammar',
        '<range-in> with lower end above upper end is expected to raise TypeError (documented by the library\'s message); '
        'other malformed <range-in> / <all-in> uses are not generated',
        'layouts: blanks, tabs (thorough: newlines) before, between and after tokens, and no blank between an operator and its operand',
    ]
    if ORDER != sorted(ORDER) or len(set(ORDER)) != len(ORDER):
        raise MachineryError('SpecsMatcher!Order is not the code-point order')
    cfg = 'MC_SpecsMatcher_q.cfg' if quick else 'MC_SpecsMatcher_t.cfg'
    res = tlc.run('MC_SpecsMatcher', cfg, workdir=ctx.work, workers=1, timeout=1500,
                  stdout_path=os.path.join(ctx.work, 'specs.out'))
    ctx.tlc(res, 'SpecsMatcher: operator table cases; NumLaws StrLaws OrLaws AllInLaws RangeLaws RangeOrderError InGrammar '
                 '(+ ASSUME Tables Decimals LexOrder OperatorPrefixes)')
    if not res.records:
        raise MachineryError('no case exported')
    stats = {}
    fam = {}
    arity = {}
    brackets = set()
    n = 0
    nontrivial = 0
    layouts_seen = set()
    work = []
    for rec in res.records:
        c = rec['c']
        want = rec['ref']
        if c['op'] not in ALL_OPS or want not in ('true', 'false', 'TypeError'):
            raise MachineryError('unexpected case %r' % (rec,))
        o = oracle(c)
        o = o if isinstance(o, str) else ('true' if o else 'false')
        if o != want:
            raise MachineryError('the TLA+ reference and the Python rendering of the table disagree on %r: %s vs %s' % (c, want, o))
        layouts = rec['layouts']
        layouts_seen.update(layouts)
        for value, name, spec in renderings(c, layouts, not quick):
            work.append((c, want, value, name, spec))
        fam[c['k']] = fam.get(c['k'], 0) + 1
        if c['op'] in ('<or>', '<all-in>'):
            arity[(c['op'], len(c['a']))] = arity.get((c['op'], len(c['a'])), 0) + 1
        if c['op'] == '<range-in>':
            brackets.add((c['lb'], c['rb'], want))
        if want == 'true':
            nontrivial += 1
    step = 400
    batches = [[(w[2], w[4]) for w in work[i:i + step]] for i in range(0, len(work), step)]
    with multiprocessing.Pool(16) as pool:
        for bi, out in enumerate(pool.imap(_job, batches, chunksize=1)):
            if len(out) != len(batches[bi]):
                raise MachineryError('worker returned %d answers for %d calls' % (len(out), len(batches[bi])))
            for (c, want, value, name, spec), got in zip(work[bi * step:(bi + 1) * step], out):
                judge(ctx, c, want, value, name, spec, got, stats)
                n += 1
    if n != len(work):
        raise MachineryError('replayed %d of %d calls' % (n, len(work)))
    # in this process, under the order-independence recorder: a sample of the same calls, and the text operators once
    # more with every word 300 characters longer (one common prefix keeps equality, order and set membership)
    global PREFIX
    from oslo_utils import specs_matcher
    from vf import purity
    _rec = purity.Recorder(specs_matcher, ['match'], every=1)
    _rec.__enter__()
    m = 0
    for c, want, value, name, spec in work[::max(1, len(work) // 1500)]:
        judge(ctx, c, want, value, name, spec, observe(specs_matcher.match, value, spec))
        m += 1
    longs = 0
    try:
        for rec in res.records[::max(1, len(res.records) // 4000)]:
            c = rec['c']
            if c['op'] not in STR_OPS + ('', '<or>', '<all-in>') or not all(c['a']) or not (c.get('v') or c.get('vl')) \
                    or (c['op'] == '<all-in>' and not all(c['vl'])):
                continue
            PREFIX = 'k' * (255 + longs % 3) + 'q' * 45
            o = oracle(c)
            if ('true' if o else 'false') != rec['ref']:
                raise MachineryError('a common prefix changed the reference answer for %r' % (c,))
            for value, name, spec in renderings(c, ['single', 'padded'], False):
                judge(ctx, dict(c, long_words=len(PREFIX)), rec['ref'], value, name, spec, observe(specs_matcher.match, value, spec))
                m += 1
            longs += 1
    finally:
        PREFIX = ''
    if longs < 200:
        raise MachineryError('vacuity: %d long-operand cases' % longs)
    _rec.__exit__()
    _rec.replay(ctx, 'c18')
    ctx.cov['evaluations'] += m
    ctx.stage('long-operands', cases=longs, calls=m)
    work = None
    ncases = len(res.records)
    first = res.records[ncases // 2]
    ctx.sample({'case': first})
    ctx.sample({'case': res.records[0]})
    res.records = None
    # vacuity: every operator answered both ways by the specification *and* by the code
    for op in ALL_OPS:
        for outcome in ('true', 'false'):
            if not stats.get((op, outcome)):
                raise MachineryError('vacuity: operator %r never observed %s' % (op, outcome))
    if not stats.get(('<range-in>', 'TypeError')):
        raise MachineryError('vacuity: the reversed-range outcome class is never exercised')
    for op in ('<or>', '<all-in>'):
        for k in range(1, 6):
            if not arity.get((op, k)):
                raise MachineryError('vacuity: %s with %d operands never generated' % (op, k))
    if len(brackets) != 12:
        raise MachineryError('vacuity: bracket combinations x outcomes incomplete: %s' % sorted(brackets))
    if set(fam) != {'str', 'in', 'num', 'range', 'or', 'allin'}:
        raise MachineryError('vacuity: families %s' % sorted(fam))
    if not {'single', 'padded', 'glued'} <= layouts_seen:
        raise MachineryError('vacuity: layouts %s' % sorted(layouts_seen))
    ctx.cov['evaluations'] += n
    ctx.cov['distinct_nontrivial'] += nontrivial
    ctx.stage('operator-table', cases=ncases, calls=n, families=fam, layouts=sorted(layouts_seen),
              matching_by_spec=nontrivial,
              outcomes={'%s %s' % (k[0] or '(none)', k[1]): v for k, v in sorted(stats.items()) if k[1] != 'false'})
    # binding self-test: subtly wrong tables must be exposed by the same comparison
    class Probe:
        n = 0

        def violation(self, *a):
            Probe.n += 1

    def case(k, op, v, a, vl=(), lb='', rb=''):
        return {'k': k, 'op': op, 'v': list(v), 'vl': [list(x) for x in vl], 'a': [list(x) for x in a], 'lb': lb, 'rb': rb}
    probes = [
        ('s<=', operator.lt, case('str', 's<=', 'a1', ['a1']), 'true'),
        ('=', lambda x, y: float(x) == float(y), case('num', '=', '11', ['10']), 'true'),
        ('<or>', lambda x, *y: x == y[0], case('or', '<or>', 'ab', ['a', 'ab']), 'true'),
        ('<in>', lambda x, y: x.startswith(y), case('in', '<in>', 'ab1', ['b']), 'true'),
    ]
    for op, wrong, c, want in probes:
        saved = specs_matcher.op_methods[op]
        before = Probe.n
        try:
            if compare(Probe(), specs_matcher.match, c, want, ['single'], False) and Probe.n != before:
                raise MachineryError('binding self-test: the shipped table already fails the probe for %r' % op)
            specs_matcher.op_methods[op] = wrong
            compare(Probe(), specs_matcher.match, c, want, ['single', 'padded'], False)
        finally:
            specs_matcher.op_methods[op] = saved
        if Probe.n != before + 2:
            raise MachineryError('binding self-test: wrong %r entry not exposed' % op)
    saved_entry = specs_matcher.op_methods['<range-in>']
    before = Probe.n
    try:
        specs_matcher.op_methods['<range-in>'] = lambda x, *y: saved_entry(x, '[', y[1], y[2], y[3])
        compare(Probe(), specs_matcher.match, case('range', '<range-in>', '10', ['10', '20'], lb='(', rb=']'), 'false',
                ['single'], False)
    finally:
        specs_matcher.op_methods['<range-in>'] = saved_entry
    if Probe.n != before + 1:
        raise MachineryError('binding self-test: a range that ignores its open lower end is not exposed')
    ctx.stage('binding-selftest', ok=True, probes=len(probes) + 1)
    ctx.cov['rule'] = ('TLC enumerates the documented table: 7 numeric operators x all pairs of 18/26 numerals (integers, decimals, '
                       'negatives, equal values spelt differently, adjacent values); 6 string operators, <in> and the bare form x all '
                       'values up to length 2/3 x all operands up to length 2 over a 5/6-symbol alphabet (letters, digits, =, <) that do '
                       'not start with an operator; <in> over all values up to length 3/4; <or> and <all-in> with every sequence of 1..5 '
                       'operands over a pool of 3/4 words; <range-in> x 4 bracket combinations x all triples of 9/15 numerals (on, next to, '
                       'inside, outside both ends, equal ends, reversed ends); each case replayed under 3/8 whitespace layouts; '
                       'the text operators once more with every word 300 characters longer; distinct_nontrivial = cases the specification says match')
    ctx.cov['exhaustive'] = True
