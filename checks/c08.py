"""C08 - mask_dict_password masks recursively and never modifies its argument."""
import copy
import os
import random

from vf import gamma_masking as gm
from vf import tlc
from vf.tlc import MachineryError


def snapshot(v, memo):
    """Deep structural snapshot that also records object identities of
    containers (to detect in-place edits and replaced sub-objects)."""
    if isinstance(v, (dict, gm.ROMapping)):
        items = v.items() if isinstance(v, dict) else v._d.items()
        return ('map', type(v).__name__, id(v), [(repr(k), snapshot(x, memo)) for k, x in items])
    if isinstance(v, list):
        return ('list', id(v), [snapshot(x, memo) for x in v])
    return ('leaf', type(v).__name__, repr(v))


def same_keys(a, b):
    if isinstance(a, (dict, gm.ROMapping)):
        if not isinstance(b, dict):
            return False
        ka = list(a.keys())
        if ka != list(b.keys()):
            return False
        return all(same_keys(a[k], b[k]) for k in ka)
    return True


def mapping_ids(v, acc):
    if isinstance(v, (dict, gm.ROMapping)):
        acc.add(id(v))
        for x in v.values():
            mapping_ids(x, acc)
    return acc


def all_dicts(v):
    if isinstance(v, dict):
        return type(v) is dict and all(all_dicts(x) for x in v.values())
    if isinstance(v, gm.ROMapping):
        return False
    return True


def run(ctx):
    from oslo_utils import strutils
    from vf import purity
    _rec = purity.Recorder(strutils, ['mask_dict_password'], every=1)
    _rec.__enter__()
    quick = ctx.quick
    res = tlc.run('MC_Masking', 'MC_Masking_tree.cfg', workdir=ctx.work, workers=1,
                  stdout_path=os.path.join(ctx.work, 'tree.out'), timeout=600)
    ctx.tlc(res, 'Masking: MaskTree on every tree of depth <= 2 (TreeSameKeys, TreeMasksUnderKey, TreeResultIsDict)')
    recs = res.records
    if len(recs) < 50000 or not any(r['tree']['ents'] == [] for r in recs[:100000]):
        raise MachineryError('tree export too small: %d' % len(recs))
    rnd = random.Random(ctx.seed)
    if quick:
        rnd.shuffle(recs)
        recs = recs[:25000]
    n = 0
    sanitize_keys_used = set()
    for rec in recs:
        mask = '***' if n % 5 else rnd.choice(['XXX', '', 'a\\b'])
        r2 = random.Random(ctx.seed * 4099 + n)
        arg, want = gm.build_pair(rec['tree'], rec['masked'], r2, mask)
        before = snapshot(arg, {})
        backup = copy.deepcopy(arg)
        n += 1
        try:
            got = strutils.mask_dict_password(arg, mask)
        except Exception as e:
            got = 'EXC:' + type(e).__name__
        problems = []
        if got != want:
            problems.append('result')
        elif type(got) is not dict or not all_dicts(got):
            problems.append('not-a-dict')
        elif not same_keys(arg, got):
            problems.append('keys-differ')
        if snapshot(arg, {}) != before or arg != backup:
            problems.append('argument-modified')
        if isinstance(got, dict) and (mapping_ids(got, set()) & mapping_ids(arg, set())):
            problems.append('shares-a-mapping-object-with-the-argument')
        if not problems and n % 3 == 0:
            # the same argument again under another mask: nothing is remembered from the first call
            mask2 = 'other-mask' if mask != 'other-mask' else '***'
            arg2, want2 = gm.build_pair(rec['tree'], rec['masked'], random.Random(ctx.seed * 4099 + n - 1), mask2)
            try:
                got2 = strutils.mask_dict_password(arg, mask2)
            except Exception as e:
                got2 = 'EXC:' + type(e).__name__
            if arg2 != backup:
                raise MachineryError('gamma is not reproducible')
            if got2 != want2:
                problems.append('second-call-under-another-mask')
                got, want, mask = got2, want2, mask2
        if problems:
            ctx.violation({'kind': problems[0], 'kinds': problems},
                          {'tree': rec['tree'], 'argument': repr(backup)[:800], 'mask': mask,
                           'expected': repr(want)[:800], 'observed': repr(got)[:800]},
                          'mask_dict_password(%s, %r) -> %s, specification: %s (%s)' % (
                              repr(backup)[:300], mask, repr(got)[:300], repr(want)[:300], problems))
    ctx.cov['evaluations'] += n
    ctx.cov['distinct_nontrivial'] += n
    ctx.stage('tree-replay', trees=n)
    ctx.sample({'tree': recs[0]})
    # every sanitize key x spelling x position under a key, values of every kind
    m = 0
    for key in gm.SANITIZE:
        for form in (key, key.upper(), key.capitalize(), 'x_' + key, key + '9', 'A' + key.upper() + 'z'):
            for val in ('s3cr3t', b'bytes', 17, None, ['a'], 2.5):
                # the value under a sanitize key becomes the mask as given - also a mask that happens to look like a
                # credential assignment itself (it is not text to be searched for secrets)
                for mask in ('***', 'password=<hidden>', "token: 't'"):
                    arg = {form: val, 'keep': val}
                    bk = copy.deepcopy(arg)
                    got = strutils.mask_dict_password(arg, mask)
                    m += 1
                    want = {form: mask, 'keep': val}
                    if got != want or arg != bk:
                        ctx.violation({'kind': 'key-table', 'key': key, 'mask': mask},
                                      {'argument': repr(bk), 'observed': repr(got), 'expected': repr(want)},
                                      'mask_dict_password(%r, %r) -> %r, specification %r' % (bk, mask, got, want))
    ctx.cov['evaluations'] += m
    ctx.stage('key-table', cases=m)
    # non-mappings raise TypeError
    # (each kind of non-mapping twice, and once more after the others: the answer does not wear off)
    class Pairs:
        """has items() but is no Mapping"""
        def items(self):
            return [('password', 'x')]
    for bad in (Pairs(), [1, 2], [3], 'text', 'more text', None, None, 5, 6, ('a', 'b'), ('c',), {1, 2}, {3}, b'x', b'y', [1, 2], 'text', None):
        try:
            strutils.mask_dict_password(bad)
            out = 'returned'
        except TypeError:
            out = 'TypeError'
        except Exception as e:
            out = 'EXC:' + type(e).__name__
        if out != 'TypeError':
            ctx.violation({'kind': 'type-contract', 'got': out}, {'argument': repr(bad)},
                          'mask_dict_password(%r): %s instead of TypeError' % (bad, out))
    # deeper random trees (depth <= 4, width <= 5) generated from the same token sets: the
    # expectation is computed by applying the spec's per-entry rule, which TLC has checked on
    # all depth-2 trees; deeper trees are compositions of the same rule
    def rand_tree(d):
        if d < 4 and rnd.random() < 0.08:
            return {'t': 'map', 'kind': rnd.choice(['dict', 'mapping']), 'ents': []}
        if d == 0 or rnd.random() < 0.3:
            return {'t': 'leaf', 'v': rnd.choice(['v_secret_str', 'v_plain_str', 'v_bytes', 'v_int', 'v_none', 'v_list', 'v_float'])}
        ents = []
        for _ in range(rnd.randint(1, 5)):
            ents.append([rnd.choice(['k_sanitize', 'k_plain', 'k_nearmiss', 'k_int', 'k_tuple', 'k_bytes']), rand_tree(d - 1)])
        return {'t': 'map', 'kind': rnd.choice(['dict', 'mapping']), 'ents': ents}

    def mask_tree(nod):
        if nod['t'] == 'leaf':
            return nod
        out = []
        for k, v in nod['ents']:
            if v['t'] == 'map':
                out.append([k, mask_tree(v)])
            elif k == 'k_sanitize':
                out.append([k, {'t': 'leaf', 'v': 'MASK'}])
            elif v['v'] == 'v_secret_str':
                out.append([k, {'t': 'leaf', 'v': 'v_secret_str_masked'}])
            else:
                out.append([k, v])
        return {'t': 'map', 'kind': 'dict', 'ents': out}
    d = 0
    for j in range(1500 if quick else 30000):
        t = rand_tree(4)
        if t['t'] != 'map':
            continue
        try:
            arg, want = gm.build_pair(t, mask_tree(t), random.Random(ctx.seed + j), '***')
        except RuntimeError:
            continue
        bk = copy.deepcopy(arg)
        before = snapshot(arg, {})
        got = strutils.mask_dict_password(arg)
        d += 1
        shares = isinstance(got, dict) and bool(mapping_ids(got, set()) & mapping_ids(arg, set()))
        if got != want or snapshot(arg, {}) != before or arg != bk or shares or not all_dicts(got):
            ctx.violation({'kind': 'deep-tree', 'modified': arg != bk, 'shares': shares},
                          {'argument': repr(bk)[:1000], 'observed': repr(got)[:1000], 'expected': repr(want)[:1000]},
                          'mask_dict_password on a depth-4 tree: %s -> %s, specification %s' % (
                              repr(bk)[:200], repr(got)[:200], repr(want)[:200]))
    ctx.cov['evaluations'] += d
    ctx.stage('deep-trees', cases=d)
    # spec growth: dictutils.flatten_dict_to_keypairs against Misc!Flatten
    from oslo_utils import dictutils
    res3 = tlc.run('MC_Misc', workdir=ctx.work, workers=1)
    ctx.tlc(res3, 'Misc: flatten_dict_to_keypairs reference (PairsAreLeaves)', counts_as_states=False)

    def to_py(nd):
        if nd['t'] == 'leaf':
            return nd['v']
        return {k: to_py(v) for k, v in nd['ents']}
    f = 0
    for rec in res3.records:
        if rec['c']['k'] != 'flatten':
            continue
        for sep in (':', '/', ''):
            arg = to_py(rec['c']['tree'])
            want = [(sep.join(path), v) for path, v in rec['ref']['pairs']]
            try:
                got = list(dictutils.flatten_dict_to_keypairs(arg, sep))
            except Exception as e:
                got = 'EXC:' + type(e).__name__
            f += 1
            if got != want:
                ctx.beyond('Misc', {'kind': 'flatten_dict'}, {'argument': repr(arg), 'separator': sep, 'expected': want, 'observed': repr(got)},
                              'flatten_dict_to_keypairs(%r, %r) -> %r, specification %r' % (arg, sep, got, want))
    ctx.cov['evaluations'] += f
    ctx.stage('flatten_dict', cases=f)
    _rec.__exit__()
    _rec.replay(ctx, 'c08')
    # binding self-test: an in-place implementation must be exposed
    def inplace(dictionary, secret='***'):
        for k, v in dictionary.items():
            if isinstance(k, str) and 'password' in k.lower():
                dictionary[k] = secret
        return dictionary
    arg = {'password': 'x'}
    before = snapshot(arg, {})
    got = inplace(arg)
    if snapshot(arg, {}) == before and got is not arg:
        raise MachineryError('binding self-test: in-place stub not exposed')
    ctx.stage('binding-selftest', ok=True)
    ctx.cov['rule'] = ('every tree of depth <= 2 over 6 key classes x 7 leaf classes x {dict, dict subclasses, non-dict Mapping} enumerated by TLC '
                       '(92k), each built with seeded concrete keys/values; all 35 keys x 6 spellings/positions x 6 value kinds; '
                       'random trees of depth <= 4 and width <= 5; result, key sets, result types and non-mutation (deep + identity)')
