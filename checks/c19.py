"""C19 - split_path and split_by_commas honour their contracts for every input."""
import os
from concurrent.futures import ThreadPoolExecutor

from vf import tlc
from vf.tlc import MachineryError

# ---- concrete members of the abstract classes ------------------------------------
PATH_MEMBERS = (
    # variant 0: shortest members, all segments alike
    {'p': lambda i: 'a', 'd': lambda i: '.', 's': lambda i: ' ', 'e': lambda i: ''},
    # variant 1: position-dependent members, so that order / loss / duplication shows
    {'p': lambda i: 'acdfghjk'[i % 8] + str(i),
     'd': lambda i: ('..', 'v1.0', 'a.b.c', '.hidden')[i % 4],
     's': lambda i: ('x y', ' lead', 'trail ', 'a  b')[i % 4],
     'e': lambda i: ''},
)
CHAR_MEMBERS = {
    'L': 'abnrtfxZuUvw',          # n r t f: letters that name whitespace escapes after a backslash
    'D': '0123456789',
    'P': '!#$%&()*+-./:;<=>?@[]^_`{|}~',
    'A': "'",
    'C': ',', 'Q': '"', 'B': '\\', 'S': ' ',
}
ORDINARY = ('L', 'D', 'P', 'A')


def seq(x):
    """ToJson prints an empty sequence as [] but be lenient about {} / null."""
    return [] if x in ({}, None) else x


def call1(fn, *a, **kw):
    try:
        return ('ok', fn(*a, **kw))
    except ValueError:
        return ('ValueError', None)
    except Exception as e:
        return ('EXC:' + type(e).__name__, None)


def call(fn, *a, **kw):
    """The answer is a function of the arguments: the caller owns the list it gets.  Ask, edit the answer in place,
    ask again - the second answer must be what the first one was."""
    r1 = call1(fn, *a, **kw)
    if r1[0] != 'ok' or not isinstance(r1[1], list):
        return r1
    first = list(r1[1])
    r1[1].append('<appended by the caller>')
    if len(r1[1]) > 1:
        r1[1][0] = '<edited by the caller>'
    r2 = call1(fn, *a, **kw)
    if r2 != ('ok', first):
        return ('ok', r2[1]) if r2[0] == 'ok' else r2
    return ('ok', first)


# ---- split_path ---------------------------------------------------------------------
def path_text(rec, variant):
    mem = PATH_MEMBERS[variant]
    segs = seq(rec['s'])
    # the "/"-separated fields of the text; field i + 1 is segment i (a first empty segment without the
    # leading-slash flag spells a leading slash too), so members are indexed by segment position
    fields = (['e'] if rec['l'] else []) + (segs or ['e']) + (['e'] if rec['t'] else [])
    text = '/'.join(mem[k](i - 1) for i, k in enumerate(fields))
    flat = ('/' if rec['l'] else '') + '/'.join('x' if k != 'e' else '' for k in segs) + ('/' if rec['t'] else '')
    if text.count('/') != flat.count('/'):
        raise MachineryError('path rendering: %r' % rec)
    return text


def path_expected(rec, variant):
    """Render the reference result: the entries consume the segments in order."""
    ref = rec['ref']
    if ref['err'] != 'none':
        return (ref['err'], None)
    mem = PATH_MEMBERS[variant]
    out = []
    pos = 0
    for e in seq(ref['out']):
        if e['none']:
            out.append(None)
            continue
        s = ''
        for tok in seq(e['toks']):
            if tok == '/':
                s += '/'
            else:
                s += mem[tok](pos)
                pos += 1
        out.append(s)
    return ('ok', out)


def compare_path(ctx, rec, strutils, variant):
    p = rec['p']
    text = path_text(rec, variant)
    want = path_expected(rec, variant)
    if p['maxk'] == 'none':
        if variant == 0:
            got = call(strutils.split_path, text, p['min'], None, p['rest'])
            shown = 'split_path(%r, %d, None, %r)' % (text, p['min'], p['rest'])
        else:
            got = call(strutils.split_path, text, minsegs=p['min'], rest_with_last=p['rest'])
            shown = 'split_path(%r, minsegs=%d, rest_with_last=%r)' % (text, p['min'], p['rest'])
    else:
        got = call(strutils.split_path, text, p['min'], p['max'], p['rest'])
        shown = 'split_path(%r, %d, %d, %r)' % (text, p['min'], p['max'], p['rest'])
    sig = None
    if want[0] != got[0]:
        sig = {'fn': 'split_path', 'kind': 'error-class', 'want': want[0], 'got': got[0], 'rest': p['rest'],
               'clause': ','.join(sorted(c for c in path_classes(rec) if c.startswith('rejected'))),
               'min_eq_max': p['min'] == (p['max'] if p['maxk'] == 'num' and p['max'] else p['min'])}
    elif want[0] == 'ok':
        g = got[1]
        if not isinstance(g, list) or any(not (x is None or isinstance(x, str)) for x in g):
            sig = {'fn': 'split_path', 'kind': 'result-type', 'rest': p['rest']}
        elif len(g) != len(want[1]):
            sig = {'fn': 'split_path', 'kind': 'length', 'rest': p['rest']}
        elif g != want[1]:
            sig = {'fn': 'split_path', 'kind': 'value', 'rest': p['rest'],
                   'none_mismatch': [x is None for x in g] != [x is None for x in want[1]]}
    if sig:
        ctx.violation(sig, {'call': shown, 'path': text, 'minsegs': p['min'],
                            'maxsegs': None if p['maxk'] == 'none' else p['max'], 'rest_with_last': p['rest'],
                            'case': rec, 'expected': want, 'observed': [got[0], repr(got[1])]},
                      '%s: specification %s, code %s' % (shown, want, got))
    return got[0] == 'ok'


def path_classes(rec):
    """Which clauses of the statement a case exercises (vacuity bookkeeping)."""
    p = rec['p']
    ref = rec['ref']
    out = set()
    unset = p['maxk'] == 'none' or p['max'] == 0
    out.add('max-none' if p['maxk'] == 'none' else 'max-zero' if p['max'] == 0 else 'max-given')
    segs = seq(rec['s'])
    fields = (['e'] if rec['l'] else []) + (segs or ['e']) + (['e'] if rec['t'] else [])
    lead = len(fields) >= 2 and fields[0] == 'e'
    after = fields[1:]
    if ref['err'] == 'none':
        ents = seq(ref['out'])
        out.add('accepted-rest' if p['rest'] else 'accepted')
        if any(e['none'] for e in ents):
            out.add('none-padding')
        if any('/' in seq(e['toks']) for e in ents):
            out.add('remainder-in-last')
        if not p['rest'] and rec['t'] and segs and segs[-1] != 'e' and len(segs) == len(ents):
            out.add('trailing-slash-tolerated')
        if any(seq(e['toks']) == ['e'] for e in ents if not e['none']):
            out.add('empty-optional-segment')
    else:
        if not unset and p['min'] > p['max']:
            out.add('rejected-min-above-max')
        elif not lead:
            out.add('rejected-no-leading-slash')
        elif len(after) < p['min']:
            out.add('rejected-too-few')
        elif 'e' in after[:p['min']]:
            out.add('rejected-empty-required-segment')
        else:
            out.add('rejected-trailing-data')
    return out


# ---- split_by_commas ----------------------------------------------------------------
def render_chars(tokens, seed):
    """Ordinary characters are numbered left to right; writer and reader keep their
    order, so text and expected items rendered with the same seed agree."""
    k = 0
    out = []
    for tok in tokens:
        m = CHAR_MEMBERS[tok]
        if tok in ORDINARY:
            out.append(m[(seed + k * 5) % len(m)])
            k += 1
        else:
            out.append(m)
    return ''.join(out)


def render_items(items, seed):
    flat = []
    for it in items:
        flat += list(seq(it))
        flat.append(None)
    k = 0
    out = []
    cur = ''
    for tok in flat:
        if tok is None:
            out.append(cur)
            cur = ''
            continue
        m = CHAR_MEMBERS[tok]
        if tok in ORDINARY:
            cur += m[(seed + k * 5) % len(m)]
            k += 1
        else:
            cur += m
    return out


def compare_commas(ctx, tokens, ref, strutils, seed, family, extra=None):
    text = render_chars(seq(tokens), seed)
    if ref['err'] == 'unspecified':
        return None
    want = ('ok', render_items(seq(ref['items']), seed)) if ref['err'] == 'none' else (ref['err'], None)
    got = call(strutils.split_by_commas, text)
    sig = None
    if want[0] != got[0]:
        sig = {'fn': 'split_by_commas', 'kind': 'error-class', 'want': want[0], 'got': got[0], 'family': family}
        if extra and 'pat' in extra:
            sig['pat'] = extra['pat']
    elif want[0] == 'ok':
        g = got[1]
        if not isinstance(g, list) or any(not isinstance(x, str) for x in g):
            sig = {'fn': 'split_by_commas', 'kind': 'result-type', 'family': family}
        elif g != want[1]:
            sig = {'fn': 'split_by_commas', 'kind': 'value', 'family': family, 'same_count': len(g) == len(want[1])}
    if sig:
        ctx.violation(sig, {'text': text, 'tokens': tokens, 'reference': ref, 'expected': want,
                            'observed': [got[0], repr(got[1])], 'family': family, 'case': extra},
                      'split_by_commas(%r): specification %s, code %s' % (text, want, got))
    return got[0] == 'ok'


class Probe:
    def __init__(self):
        self.n = 0

    def violation(self, *a):
        self.n += 1


def run(ctx):
    from oslo_utils import strutils
    from vf import purity
    _rec = purity.Recorder(strutils, ['split_path', 'split_by_commas'], every=7)
    _rec.__enter__()
    quick = ctx.quick
    sfx = 'q' if quick else 't'
    ctx.assumptions += [
        "maxsegs = 0 is read like None (not given, maxsegs := minsegs): the statement lists 0 next to None and the "
        "function tests 'not maxsegs'; under the literal reading 'minsegs > maxsegs raises' split_path('/a', 1, 0) "
        "would have to raise, it returns ['a']",
        'split_by_commas: texts with a space outside quotes, and backslash + ordinary character inside quotes, are '
        'outside the stated grammar (the tokenizer skips blanks / converts \\n \\t escapes); they are enumerated but '
        'not compared (verdict "unspecified"); a bare backslash is an ordinary character; the empty item is written ""',
        'paths of more than LFull segments are enumerated over {plain, empty} only (the reference distinguishes only '
        'empty from non-empty segments; dotted / spaced members are exercised at every position up to LFull)',
        'minsegs >= 1, str paths, printable ASCII',
    ]
    jobs = [('path', 'MC_Split_path_%s.cfg' % sfx), ('items', 'MC_Split_items_%s.cfg' % sfx),
            ('chars', 'MC_Split_chars_%s.cfg' % sfx), ('mal', 'MC_Split_mal_%s.cfg' % sfx)]

    def go(job):
        name, cfg = job
        return tlc.run('MC_Split', cfg, workdir=ctx.work, workers=4,
                       stdout_path=os.path.join(ctx.work, 'split_%s.out' % name))
    with ThreadPoolExecutor(max_workers=4) as ex:
        results = dict(zip([j[0] for j in jobs], ex.map(go, jobs)))

    # 1. split_path ------------------------------------------------------------------
    res = results['path']
    ctx.tlc(res, 'Split: paths x minsegs x maxsegs x rest_with_last; LengthIsMax, NonePadsTheEnd, MinAboveMaxRaises, '
                 'NeedsLeadingSlash, NothingLost, RestOnlyWidens, NoSlashWithoutRest')
    n = 0
    accepted = 0
    classes = {}
    seglens = set()
    kinds = set()
    for rec in res.records:
        for cl in path_classes(rec):
            classes[cl] = classes.get(cl, 0) + 1
        seglens.add(len(seq(rec['s'])))
        kinds.update(seq(rec['s']))
        for variant in (0, 1):
            n += 1
            accepted += compare_path(ctx, rec, strutils, variant)
    ctx.stage('split_path', cases=len(res.records), comparisons=n, accepted_by_code=accepted, classes=classes)
    needed = ['max-none', 'max-zero', 'max-given', 'accepted', 'accepted-rest', 'none-padding', 'remainder-in-last',
              'trailing-slash-tolerated', 'empty-optional-segment', 'rejected-min-above-max',
              'rejected-no-leading-slash', 'rejected-too-few', 'rejected-empty-required-segment',
              'rejected-trailing-data']
    missing = [c for c in needed if not classes.get(c)]
    if missing:
        raise MachineryError('vacuity: split_path outcome classes never exercised: %s' % missing)
    if seglens != set(range(0, 8)) or kinds != {'p', 'e', 'd', 's'}:
        raise MachineryError('vacuity: segment counts %s / classes %s' % (sorted(seglens), sorted(kinds)))
    if accepted < 1000:
        raise MachineryError('vacuity: hardly any accepted path')
    ctx.cov['evaluations'] += n
    ctx.cov['distinct_nontrivial'] += accepted
    ctx.sample({'path_case': next(r for r in res.records if r['ref']['err'] == 'none' and r['p']['rest'] and
                                  any('/' in seq(e['toks']) for e in seq(r['ref']['out'])))})
    probe_path = next(r for r in res.records if r['ref']['err'] == 'none' and
                      any(e['none'] for e in seq(r['ref']['out'])))
    probe_trail = next(r for r in res.records if 'trailing-slash-tolerated' in path_classes(r))
    res.records = None

    # 2. split_by_commas: written item lists are read back --------------------------------
    res = results['items']
    ctx.tlc(res, 'Split: item lists of length 1..5, quoted where needed / always; ReadInvertsWrite')
    m = 0
    okc = 0
    seen_chars = set()
    lens = set()
    quoted = bare = 0
    for i, rec in enumerate(res.records):
        if rec['ref']['err'] != 'none' or seq(rec['ref']['items']) != [seq(x) for x in seq(rec['items'])]:
            raise MachineryError('model: written list not read back by the reference: %r' % rec)
        for it in seq(rec['items']):
            seen_chars.update(seq(it))
        lens.add(len(seq(rec['items'])))
        toks = seq(rec['text'])
        if 'Q' in toks[:1]:
            quoted += 1
        else:
            bare += 1
        m += 1
        okc += bool(compare_commas(ctx, toks, rec['ref'], strutils, i, 'items', {'force': rec['force']}))
    # long lists: 150 of the written lists one after the other, joined with commas, are one written list of some 450 items
    longs = 0
    recs = res.records
    for g in range(0, len(recs) - 150, max(150, len(recs) // (12 if ctx.quick else 120))):
        group = recs[g:g + 150]
        if len(group) < 150:
            break
        text = ','.join(render_chars(seq(seq(r['text'])), g + j) for j, r in enumerate(group))
        want = []
        for j, r in enumerate(group):
            want += render_items(seq(r['ref']['items']), g + j)
        got = call(strutils.split_by_commas, text)
        longs += 1
        if got != ('ok', want):
            ctx.violation({'fn': 'split_by_commas', 'kind': 'long-list', 'got': got[0]},
                          {'items': len(want), 'text_head': text[:200], 'observed': [got[0], repr(got[1])[:300]]},
                          'split_by_commas of a written list of %d items (%d characters): %s, specification: the %d items' % (
                              len(want), len(text), (got[0], repr(got[1])[:120]), len(want)))
    if longs < 5:
        raise MachineryError('vacuity: %d long lists' % longs)
    ctx.stage('split_by_commas-inverse', lists=m, accepted_by_code=okc, first_item_quoted=quoted, first_item_bare=bare, long_lists=longs)
    if seen_chars != set(CHAR_MEMBERS) or lens != {1, 2, 3, 4, 5} or not quoted or not bare:
        raise MachineryError('vacuity: item characters %s lengths %s' % (sorted(seen_chars), sorted(lens)))
    ctx.cov['evaluations'] += m
    ctx.cov['distinct_nontrivial'] += okc
    ctx.sample({'items_case': res.records[len(res.records) // 3]})
    probe_items = next(r for r in res.records if len(seq(r['items'])) == 2 and 'C' in seq(r['items'][0]))
    res.records = None

    # 3. every character sequence up to a length ---------------------------------------------
    res = results['chars']
    ctx.tlc(res, 'Split: every text up to length %d over {letter , " \\ space}; WriteInvertsRead, NoEmptyBareItem, '
                 'QuotesBalanced, CommasCount' % (6 if quick else 7))
    q = 0
    outcome = {'none': 0, 'ValueError': 0, 'unspecified': 0}
    for i, rec in enumerate(res.records):
        outcome[rec['ref']['err']] += 1
        r = compare_commas(ctx, rec['text'], rec['ref'], strutils, i, 'chars')
        if r is not None:
            q += 1
    ctx.stage('split_by_commas-chars', texts=len(res.records), compared=q, reference=outcome)
    if min(outcome.values()) == 0 or outcome['none'] < 100:
        raise MachineryError('vacuity: character-level outcomes %s' % outcome)
    ctx.cov['evaluations'] += q
    ctx.cov['distinct_nontrivial'] += outcome['none']
    ctx.sample({'chars_case': next(r for r in res.records if r['ref']['err'] == 'none' and 'B' in seq(r['text']))})
    res.records = None

    # 4. malformed quoting patterns ---------------------------------------------------------------
    res = results['mal']
    ctx.tlc(res, 'Split: well-formed lists with one item spoilt (8 patterns); MalformedRejected')
    pats = {}
    for i, rec in enumerate(res.records):
        if rec['ref']['err'] != 'ValueError':
            raise MachineryError('model: spoilt text not rejected by the reference: %r' % rec)
        pats[rec['pat']] = pats.get(rec['pat'], 0) + 1
        compare_commas(ctx, rec['text'], rec['ref'], strutils, i, 'malformed', {'pat': rec['pat'], 'at': rec['at']})
    ctx.stage('split_by_commas-malformed', cases=len(res.records), patterns=pats)
    if len(pats) != 8:
        raise MachineryError('vacuity: malformed patterns %s' % sorted(pats))
    ctx.cov['evaluations'] += len(res.records)
    ctx.sample({'malformed_case': res.records[len(res.records) // 2]})
    res.records = None

    _rec.__exit__()
    _rec.replay(ctx, 'c19')
    # 5. binding self-tests: subtly wrong functions must be exposed -----------------------------------
    orig_path, orig_commas = strutils.split_path, strutils.split_by_commas

    def no_padding(path, minsegs=1, maxsegs=None, rest_with_last=False):
        return [x for x in orig_path(path, minsegs, maxsegs, rest_with_last) if x is not None]

    def strict_trailing(path, minsegs=1, maxsegs=None, rest_with_last=False):
        if path.endswith('/') and not rest_with_last:
            raise ValueError(path)
        return orig_path(path, minsegs, maxsegs, rest_with_last)

    def naive_commas(value):
        return [x.strip('"') for x in value.split(',')]
    p1, p2, p3 = Probe(), Probe(), Probe()
    try:
        strutils.split_path = no_padding
        compare_path(p1, probe_path, strutils, 1)
        strutils.split_path = strict_trailing
        compare_path(p2, probe_trail, strutils, 1)
        strutils.split_by_commas = naive_commas
        compare_commas(p3, probe_items['text'], probe_items['ref'], strutils, 0, 'selftest')
    finally:
        strutils.split_path, strutils.split_by_commas = orig_path, orig_commas
    if not (p1.n and p2.n and p3.n):
        raise MachineryError('binding self-test: wrong function not exposed (%d %d %d)' % (p1.n, p2.n, p3.n))
    p0 = Probe()
    compare_path(p0, probe_path, strutils, 1)
    compare_commas(p0, probe_items['text'], probe_items['ref'], strutils, 0, 'selftest')
    if p0.n:
        ctx.note('self-test cases disagree with the unpatched code as well (see violations)')
    ctx.stage('binding-selftest', ok=True)
    ctx.cov['rule'] = (
        'split_path: every path of 0..%d segments over {plain, empty, dotted, spaced} and %d..7 segments over '
        '{plain, empty}, with / without leading and trailing slash x minsegs 1..4 x maxsegs {None, 0, min-1..min+2} x '
        'rest_with_last, two concrete renderings each; split_by_commas: item lists of length 1..5 (all items up to '
        'length 3 over 8 character classes alone, up to length 2 in pairs, pools of 8 / 5 / 4 items in triples to '
        'quintuples) written quoted-where-needed and always-quoted, twelve (thorough: 120) joined lists of 150..700 items, every text up to length %d over '
        '{letter , " \\ space}, and 8 malformed-quoting patterns at every position of lists of 1..3 items; '
        'distinct_nontrivial = inputs accepted' % ((4, 5, 6) if quick else (5, 6, 7)))
    ctx.cov['exhaustive'] = True
