"""G04 (specification growth, no listed property) - eventletutils.EventletEvent against spec/GreenEvent.tla.

TLC explores every interleaving of the main script with the waiters and exports, per scenario, the set of outcomes
at quiescence; the real object is driven through the same scenario under eventlet (cooperative, hence one
deterministic outcome) and that outcome must be one the model allows."""
import os

from vf import tlc
from vf.tlc import MachineryError


def run_scenario(eventlet, ev_cls, script, tmo2):
    e = ev_cls()
    results = {}
    threads = []

    def waiter(i, timeout):
        try:
            results[i] = e.wait(timeout)
        except BaseException as exc:           # GreenletExit when killed while blocked
            if type(exc).__name__ != 'GreenletExit':
                results[i] = 'EXC:' + type(exc).__name__
            raise
    for step in script:
        if step == 'set':
            e.set()
        elif step == 'clear':
            e.clear()
        elif step == 'yield':
            eventlet.sleep(0)
        else:
            i = len(threads) + 1
            threads.append(eventlet.spawn(waiter, i, 0 if (i == 2 and tmo2) else None))
    for _ in range(6):
        eventlet.sleep(0)          # let everything that can run, run (a zero timeout fires on the next hub turn)
    out = []
    for i in (1, 2):
        if i > len(threads):
            out.append('unborn')
        elif i in results:
            r = results[i]
            out.append('true' if r is True else 'false' if r is False else str(r))
        else:
            out.append('waiting')
    flag = e.is_set()
    for t in threads:
        t.kill()
    return out, flag


def run(ctx):
    import eventlet
    from oslo_utils import eventletutils
    ctx.assumptions += ['green threads are cooperative; which runnable waiter runs next is left open in the model, the real '
                        'outcome must be one of the model\'s outcomes for the scenario',
                        'timeouts: none, and zero for the second waiter',
                        'growth check: mismatches are beyond-property reports, no listed property is decided here']
    n = 5 if ctx.quick else 6
    res = tlc.run('MC_GreenEvent', 'MC_GreenEvent_%d.cfg' % n, workdir=ctx.work, workers=8, coverage=True,
                  stdout_path=os.path.join(ctx.work, 'ge.out'))
    ctx.tlc(res, 'GreenEvent: UntimedNeverFalse, NoLostWakeup, TrueNeedsSet, BlockedOnUnsent over every interleaving')
    live = tlc.run('MC_GreenEvent', 'MC_GreenEvent_live.cfg' if ctx.quick else 'MC_GreenEvent_live5.cfg', workdir=ctx.work, workers=8, parse=False)
    ctx.tlc(live, 'GreenEvent under fairness: EventuallyReleased, EventuallyQuiescent (liveness)', counts_as_states=False)
    allowed = {}
    for rec in res.records:
        key = (tuple(rec['script']), rec['tmo2'])
        allowed.setdefault(key, set()).add((tuple(rec['out']), rec['flag']))
    if len(allowed) < 500:
        raise MachineryError('too few scenarios: %d' % len(allowed))
    m = 0
    seen = {}
    multi = 0
    for (script, tmo2), outs in sorted(allowed.items()):
        if len(outs) > 1:
            multi += 1
        got, flag = run_scenario(eventlet, eventletutils.EventletEvent, script, tmo2)
        m += 1
        for o in got:
            seen[o] = seen.get(o, 0) + 1
        if (tuple(got), flag) not in outs:
            ctx.beyond('GreenEvent', {'kind': 'outcome', 'got': got, 'tmo2': tmo2}, {'script': script, 'tmo2': tmo2, 'observed': [got, flag],
                                                                                     'allowed': sorted(outs)},
                       'EventletEvent under script %s (second waiter timeout 0: %s): waiters %s flag %s; the model allows %s' % (
                           list(script), tmo2, got, flag, sorted(outs)))
        if got[0] == 'false':
            ctx.beyond('GreenEvent', {'kind': 'untimed-false'}, {'script': script}, 'wait() without timeout returned False under %s' % (list(script),))
    ctx.cov['evaluations'] += m
    ctx.cov['distinct_nontrivial'] += m
    if not all(k in seen for k in ('true', 'false', 'waiting')):
        raise MachineryError('vacuity: waiter outcomes seen %s' % seen)
    ctx.stage('green-event-replay', scenarios=m, waiter_outcomes=seen, scenarios_with_several_model_outcomes=multi)
    # binding self-test: an event whose set() forgets to wake the waiters must fall outside the model
    class Forgetful(eventletutils.EventletEvent):
        def set(self):
            self._set = True
    bad = 0
    for (script, tmo2), outs in sorted(allowed.items())[:400]:
        got, flag = run_scenario(eventlet, Forgetful, script, tmo2)
        if (tuple(got), flag) not in outs:
            bad += 1
    if bad == 0:
        raise MachineryError('binding self-test: an Event that never wakes its waiters was accepted')
    ctx.stage('binding-selftest', forgetful_event_rejected_on=bad)
    ctx.cov['rule'] = 'every main script of up to %d steps over set / clear / yield / spawn with 1-2 waiters x zero timeout for the second' % n
    ctx.cov['exhaustive'] = True
