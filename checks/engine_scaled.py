"""Scaled capture-engine stage shared by C01 / C05 / C07.

TLC checks CaptureEngine exhaustively (every stream of length N over a tiny
alphabet x every chunking incl. empty chunks); the same exhaustive set is then
executed on the REAL engine classes carrying the scaled format program, each
run compared with the reference verdict exported by TLC, and a sample of runs
is recorded and validated step by step by Trace_CaptureEngine.
"""
import itertools
import multiprocessing
import os
import random

from vf import tlc, traces
from vf.tlc import MachineryError

INVARIANTS = ['Faithful', 'EndFaithful', 'ChunkIndependent', 'ErrIsRejected',
              'MemoryBound', 'ZeroWhileUnknown']
PROPS = ['NoDataAfterFinish', 'QueriesArePure', 'PosMonotone']


def model_check(ctx, fmt, n, alpha, dev=(), expect=None, label=''):
    cfg = tlc.write_cfg(
        os.path.join(ctx.work, 'MC_CE_%s_%d_%s.cfg' % (fmt, n, '_'.join(dev) or 'intended')),
        constants={'N': n, 'Alpha': set(alpha), 'Fmt': fmt, 'Dev': set(dev)},
        invariants=INVARIANTS, properties=PROPS)
    res = tlc.run('MC_CaptureEngine', cfg, workdir=ctx.work, coverage=not dev,
                  parse=False, allow_violation=bool(expect))
    if expect:
        if res.violated not in expect:
            raise MachineryError('deviation %s should violate %s, TLC says %s' % (
                dev, expect, res.violated))
    return res


def export_refs(ctx, fmt, n, alpha):
    cfg = tlc.write_cfg(
        os.path.join(ctx.work, 'MC_CE_ref_%s_%d.cfg' % (fmt, n)),
        constants={'N': n, 'Alpha': set(alpha), 'Fmt': fmt, 'Dev': set()},
        init='Init', next_='NoStep', constraints=['EmitRef'])
    res = tlc.run('MC_CaptureEngine', cfg, workdir=ctx.work, workers=1)
    refs = {}
    for r in res.records:
        refs[tuple(r['s'])] = r['ref']
    if len(refs) != len(alpha) ** n:
        raise MachineryError('reference export incomplete: %d of %d' % (
            len(refs), len(alpha) ** n))
    return refs, res


def norm_ref(ref):
    return (ref[0], ref[1], ref[2], ref[3], sorted(ref[4]))


def _worker(args):
    fmt, items, seed = args
    from vf import insp, scaled
    cls = scaled.PROGRAMS[fmt]
    rnd = random.Random(seed)
    out = {'runs': 0, 'bad': [], 'retained_max': 0, 'nontrivial': 0, 'nonzero_size': 0}
    for stream, ref in items:
        data = bytes(stream)
        n = len(data)
        want = norm_ref(ref)
        if want[0] != 'rejected' or want[1]:
            out['nontrivial'] += 1
        comps = list(insp.compositions(n))
        for ci, parts in enumerate(comps):
            variants = [parts]
            if ci % 7 == 0:
                # empty chunks interleaved: before, between and after
                pos = set(rnd.sample(range(len(parts) + 1), min(2, len(parts) + 1)))
                variants.append(insp.with_empties(parts, pos))
            for chunks in variants:
                q = range(len(chunks)) if ci % 2 else ()
                r = insp.run(cls, data, chunks, query_at=q)
                out['runs'] += 1
                out['retained_max'] = max(out['retained_max'], r['retained_max'])
                got = (r['verdict'][0], r['verdict'][1], r['verdict'][2],
                       r['verdict'][3], list(r['verdict'][4]))
                if got[3] not in (0,) and got[0] != 'rejected':
                    out['nonzero_size'] += 1
                if r['unfaithful'] and len(out['bad']) < 20:
                    out['bad'].append(('unfaithful', list(stream), chunks, r['unfaithful'][:2], None))
                elif got != want and len(out['bad']) < 20:
                    out['bad'].append(('verdict', list(stream), chunks, got, want))
    return out


def replay_all(ctx, fmt, refs, label):
    items = sorted(refs.items())
    per = max(1, len(items) // 64)
    jobs = [(fmt, items[i:i + per], ctx.seed + i) for i in range(0, len(items), per)]
    tot = {'runs': 0, 'retained_max': 0, 'nontrivial': 0, 'nonzero_size': 0}
    with multiprocessing.Pool(16) as pool:
        for out in pool.imap_unordered(_worker, jobs):
            for k in tot:
                tot[k] = max(tot[k], out[k]) if k == 'retained_max' else tot[k] + out[k]
            for kind, stream, chunks, got, want in out['bad']:
                if kind == 'unfaithful':
                    ctx.violation(
                        {'kind': 'unfaithful', 'program': fmt, 'region': got[0][1]},
                        {'program': fmt, 'stream': stream, 'chunks': chunks, 'observed': got},
                        'scaled %s program on the real engine: region %r holds bytes that are not the '
                        "stream's bytes at its offset (stream %s, chunks %s: %s)" % (
                            fmt, got[0][1], stream, chunks, got))
                else:
                    ctx.violation(
                        {'kind': 'verdict', 'program': fmt,
                         'differs': [i for i in range(5) if got[i] != want[i]]},
                        {'program': fmt, 'stream': stream, 'chunks': chunks,
                         'observed': got, 'reference': want},
                        'scaled %s program on the real engine: verdict %s for stream %s cut as %s, '
                        'reference (function of the bytes) is %s' % (fmt, got, stream, chunks, want))
    return tot


def record(cls, fmt, names, stream, chunks, query_every=False):
    from vf import insp
    ev = []

    def observe(i, k, pos, inspector, obs, err):
        regs = {}
        for nm in names:
            if nm in obs:
                o = obs[nm]
                regs[nm] = {'ex': True, 'off': o[0], 'len': o[1], 'n': o[2]}
            else:
                regs[nm] = {'ex': False, 'off': 0, 'len': 0, 'n': 0}
        ev.append({'op': 'eat', 'k': k, 'err': err is not None, 'regs': regs})
        if query_every:
            ev.append({'op': 'query'})
    r = insp.run(cls, bytes(stream), chunks, observe=observe,
                 query_at=range(len(chunks)) if query_every else ())
    if r['err'] is None or r['err_at'] != 'finish':
        ev.append({'op': 'finish'})
        v = r['verdict']
        ev.append({'op': 'verdict', 'v': [v[0], v[1], v[2], v[3]], 'fails': list(v[4])})
    return {'s': list(stream), 'ev': ev}, r


NAMES = {'chain': ['ident', 'header', 'meta', 'vds'], 'fixed': ['header', 'opt', 'tail'],
         'reloc': ['header', 'desc', 'footer']}


def trace_stage(ctx, fmt, refs, count, label):
    from vf import insp, scaled
    cls = scaled.PROGRAMS[fmt]
    rnd = random.Random(ctx.seed + 17)
    streams = sorted(refs)
    interesting = [s for s in streams if refs[s][0] != 'rejected' or refs[s][2]] or streams
    batch = []
    for i in range(count):
        s = rnd.choice(interesting if i % 3 else streams)
        n = len(s)
        parts = []
        left = n
        while left:
            k = rnd.randint(0 if rnd.random() < 0.2 else 1, left)
            parts.append(k)
            left -= k
        if rnd.random() < 0.2:
            parts.append(0)
        tr, r = record(cls, fmt, NAMES[fmt], s, parts, query_every=(i % 4 == 0))
        batch.append((tr, r, parts))
    rejected, inv, res = traces.validate(ctx, 'Trace_CaptureEngine', [b[0] for b in batch],
                                         label, env={'TRACE_FMT': fmt})
    ctx.tlc(res, 'Trace_CaptureEngine %s' % label, counts_as_states=False)
    drift = 0
    for i in sorted(rejected)[:8]:
        tr, r, parts = batch[i]
        at, inv1 = traces.diagnose(ctx, 'Trace_CaptureEngine', tr, env={'TRACE_FMT': fmt})
        want = norm_ref(refs[tuple(tr['s'])])
        got = (r['verdict'][0], r['verdict'][1], r['verdict'][2], r['verdict'][3], list(r['verdict'][4]))
        if r['unfaithful'] or got != want or inv1:
            ctx.violation(
                {'kind': 'trace', 'program': fmt, 'invariant': inv1},
                {'program': fmt, 'trace': tr, 'rejected_at_line': at, 'chunks': parts,
                 'line': tr['ev'][at - 1] if at <= len(tr['ev']) else None,
                 'observed': got, 'reference': want},
                'recorded engine trace (%s, stream %s, chunks %s) is not a behaviour of CaptureEngine: '
                'line %d %s%s' % (fmt, tr['s'], parts, at,
                                   tr['ev'][at - 1] if at <= len(tr['ev']) else None,
                                   ' invariant ' + inv1 if inv1 else ''))
        else:
            drift += 1
            ctx.note('spec drift (not a violation): engine trace for %s stream %s chunks %s diverges from '
                     'CaptureEngine at line %d while data stays faithful and the verdict equals the reference'
                     % (fmt, tr['s'], parts, at))
    if inv and not rejected:
        raise MachineryError('trace batch violates %s although every trace was consumed' % inv)
    accepted = len(batch) - len(rejected)
    ctx.cov['traces_validated_against_impl'] += accepted
    ctx.cov.setdefault('drift_cases', 0)
    ctx.cov['drift_cases'] += drift
    return accepted, len(rejected), batch[0][0]


def selftest(ctx, fmt, refs):
    """Binding: (1) a corrupted trace must be rejected, (2) a deliberately
    wrong CaptureRegion (strict comparison) must be exposed by the replay."""
    from vf import insp, scaled
    from oslo_utils.imageutils import format_inspector as fi
    cls = scaled.PROGRAMS[fmt]
    streams = sorted(s for s in refs if refs[s][0] == 'ok')
    if not streams:
        raise MachineryError('no accepted stream in the scaled family %s' % fmt)
    s = streams[0]
    good, r = record(cls, fmt, NAMES[fmt], s, [1] * len(s))
    import json
    bad = json.loads(json.dumps(good))
    for e in bad['ev']:
        if e['op'] == 'eat':
            nm = NAMES[fmt][0]
            e['regs'][nm]['n'] += 1
            break
    # a spec-side good trace cannot be built without the code here, so the
    # acceptance of `good` is only required when the direct checks passed
    rejected, inv, _ = traces.validate(ctx, 'Trace_CaptureEngine', [good, bad], 'selftest_' + fmt,
                                       env={'TRACE_FMT': fmt})
    direct_ok = not r['unfaithful'] and list(r['verdict'][:4]) == list(norm_ref(refs[s])[:4])
    if 1 not in rejected:
        raise MachineryError('binding self-test: corrupted engine trace accepted')
    if 0 in rejected and direct_ok and not ctx.violations:
        ctx.note('self-test trace of %s rejected although direct checks pass (spec drift)' % fmt)

    class StrictRegion(fi.CaptureRegion):
        def capture(self, chunk, current_position):
            read_start = current_position - len(chunk)
            wanted = self.offset + len(self.data)
            if read_start < wanted < current_position:     # wrong: strict
                self.data += chunk[wanted - read_start:]
                self.data = self.data[:self.length]

    class Wrong(cls):
        def _initialize(self):
            super()._initialize()
            for nm, reg in list(self._capture_regions.items()):
                if type(reg) is fi.CaptureRegion:
                    w = StrictRegion(reg.offset, reg.length, reg.min_length)
                    self._capture_regions[nm] = w
    exposed = 0
    for parts in insp.compositions(len(s)):
        r = insp.run(Wrong, bytes(s), parts)
        got = (r['verdict'][0], r['verdict'][1], r['verdict'][2], r['verdict'][3], list(r['verdict'][4]))
        if got != norm_ref(refs[s]):
            exposed += 1
    if not exposed:
        raise MachineryError('binding self-test: wrong CaptureRegion stub not exposed by the replay')
    return exposed


def run_scaled(ctx, fmt, n, alpha, trace_count, deviations=True):
    res = model_check(ctx, fmt, n, alpha)
    ctx.tlc(res, 'CaptureEngine %s N=%d |Alpha|=%d, intended design' % (fmt, n, len(alpha)))
    if res.coverage.get('EatChunk', (0, 0))[1] == 0 or res.coverage.get('Finish', (0, 0))[1] == 0:
        raise MachineryError('vacuity: EatChunk/Finish never taken')
    ctx.stage('tlc-engine-%s' % fmt, distinct=res.distinct, generated=res.generated,
              wall=round(res.wall_s, 1))
    refs, r2 = export_refs(ctx, fmt, n, alpha)
    classes = {}
    for s, ref in refs.items():
        classes[(ref[0], ref[1], ref[2], ref[3] != 0)] = classes.get((ref[0], ref[1], ref[2], ref[3] != 0), 0) + 1
    if fmt == 'chain' and not any(k[0] == 'ok' and k[3] for k in classes):
        raise MachineryError('vacuity: scaled chain family has no accepted stream with a size')
    tot = replay_all(ctx, fmt, refs, fmt)
    ctx.stage('replay-engine-%s' % fmt, streams=len(refs), runs=tot['runs'],
              reference_classes={str(k): v for k, v in classes.items()},
              retained_max=tot['retained_max'])
    ctx.cov['evaluations'] += tot['runs']
    ctx.cov['distinct_nontrivial'] += tot['nontrivial']
    acc, rej, first = trace_stage(ctx, fmt, refs, trace_count, fmt)
    ctx.stage('traces-engine-%s' % fmt, accepted=acc, rejected=rej)
    ctx.sample({'engine_trace_' + fmt: {'s': first['s'], 'ev': first['ev'][:3]}})
    exposed = selftest(ctx, fmt, refs)
    ctx.stage('selftest-engine-%s' % fmt, wrong_stub_exposed_on_chunkings=exposed)
    return refs, tot


def apalache_stage(ctx):
    """Unbounded window arithmetic: IndInv of CaptureRegionInd is inductive (Apalache)."""
    import os
    r1 = tlc.apalache('CaptureRegionInd', 'Init', 'IndInv', 0, ctx.work)
    r2 = tlc.apalache('CaptureRegionInd', 'IndInit', 'IndInv', 1, ctx.work)
    if (r1, r2) != ('ok', 'ok'):
        raise MachineryError('CaptureRegionInd: IndInv is not inductive (%s, %s)' % (r1, r2))
    # binding self-test of the proof step: a wrong append rule must break inductiveness
    src = open(os.path.join(tlc.SPEC_DIR, 'CaptureRegionInd.tla')).read()
    bad = src.replace("n' = Min(len, n + (p - wanted))", "n' = Min(len, n + k)").replace(
        'MODULE CaptureRegionInd', 'MODULE CaptureRegionBad')
    if bad == src:
        raise MachineryError('could not derive the negative Apalache module')
    path = os.path.join(ctx.work, 'CaptureRegionBad.tla')
    with open(path, 'w') as fh:
        fh.write(bad)
    r3 = tlc.apalache('CaptureRegionBad', 'IndInit', 'IndInv', 1, ctx.work, source=path)
    if r3 != 'violation':
        raise MachineryError('Apalache accepted a wrong append rule (%s)' % r3)
    ctx.cov['obligations'] = ctx.cov.get('obligations', 0) + 2
    ctx.cov['discharged'] = ctx.cov.get('discharged', 0) + 2
    proved = tlc.tlaps('CaptureRegionIndProof', ctx.work)
    ctx.stage('apalache-inductive', base=r1, step=r2, wrong_rule=r3, tlaps_obligations_proved=proved)
