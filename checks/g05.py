"""G05 (specification growth, no listed property) - constant tables: oslo_utils.units and secretutils (spec/Consts.tla)."""
import hashlib
import re
import warnings

from vf import tlc
from vf.tlc import MachineryError


def run(ctx):
    from oslo_utils import secretutils, strutils, units
    ctx.assumptions += ['growth check: mismatches are beyond-property reports, no listed property is decided here']
    res = tlc.run('MC_Consts', workdir=ctx.work, workers=1)
    ctx.tlc(res, 'Consts: unit constants and salt table')
    n = 0
    kinds = {}
    for rec in res.records:
        c, ref = rec['c'], rec['ref']
        n += 1
        kinds[c['t']] = kinds.get(c['t'], 0) + 1
        if c['t'] == 'unit':
            u = c['u']
            want = u['base'] ** u['exp']
            got = getattr(units, u['name'], 'missing')
            if got != want:
                ctx.beyond('Consts', {'kind': 'unit', 'name': u['name']}, {'expected': want, 'observed': got},
                           'units.%s = %s, specification %d ** %d' % (u['name'], got, u['base'], u['exp']))
            # the same prefix means the same factor to string_to_bytes (IEC for ..i, SI otherwise)
            # (only where the power is a binary64 value: string_to_bytes computes in floating point, see C10's assumptions)
            if u['name'] not in ('k',) and int(float(want)) == want:
                text = '1' + u['name'] + 'B'
                try:
                    sb = strutils.string_to_bytes(text, unit_system='IEC' if u['base'] == 1024 else 'SI', return_int=True)
                except Exception as e:
                    sb = 'EXC:' + type(e).__name__
                if sb != want:
                    ctx.beyond('Consts', {'kind': 'unit-vs-string_to_bytes', 'name': u['name']}, {'expected': want, 'observed': sb},
                               'string_to_bytes(%r) = %s but units.%s = %d' % (text, sb, u['name'], want))
        else:
            for _ in range(50):
                try:
                    s = secretutils.crypt_mksalt(c['m'])
                    got = {'k': 'salt', 'prefix': s[:3], 'n': len(s) - 3,
                           'alphabet': bool(re.fullmatch(r'[A-Za-z0-9./]*', s[3:]))}
                except ValueError:
                    got = {'k': 'ValueError', 'prefix': '', 'n': 0, 'alphabet': True}
                except Exception as e:
                    got = {'k': 'EXC:' + type(e).__name__, 'prefix': '', 'n': 0, 'alphabet': True}
                if (got['k'], got['prefix'], got['n']) != (ref['k'], ref['prefix'], ref['n']) or not got['alphabet']:
                    ctx.beyond('Consts', {'kind': 'salt', 'method': c['m']}, {'expected': ref, 'observed': got},
                               'crypt_mksalt(%r) -> %s, specification %s' % (c['m'], got, ref))
                    break
    salts = {secretutils.crypt_mksalt('SHA-512') for _ in range(200)}
    if len(salts) < 200:
        ctx.beyond('Consts', {'kind': 'salt-repeats'}, {'distinct': len(salts)}, 'crypt_mksalt repeats itself: %d distinct of 200' % len(salts))
    with warnings.catch_warnings():
        warnings.simplefilter('ignore')
        for data in (b'', b'abc', bytes(range(256))):
            for flag in (True, False):
                if secretutils.md5(data, usedforsecurity=flag).hexdigest() != hashlib.md5(data).hexdigest():
                    ctx.beyond('Consts', {'kind': 'md5'}, {'data': repr(data)}, 'secretutils.md5 differs from hashlib.md5')
    ctx.cov['evaluations'] += n
    if len(kinds) < 2:
        raise MachineryError('vacuity: %s' % kinds)
    ctx.stage('constant-tables', cases=kinds)
    ctx.sample({'case': res.records[0]})
    ctx.cov['rule'] = 'all 20 unit constants (also through string_to_bytes), 7 salt methods x 50 draws, md5 on 3 inputs'
    ctx.cov['exhaustive'] = True
