"""C02 - the safety check is fail-closed."""
import multiprocessing
import os
import random
import subprocess
import sys

from checks import real_images as ri
from vf import tlc
from vf.tlc import MachineryError

EXC_TYPES = [ValueError, KeyError, IndexError, TypeError, RuntimeError, ZeroDivisionError,
             AttributeError, OSError]


def aggregator_stage(ctx):
    """Every terminal state of SafetyCheck.tla replayed on a real FileInspector
    whose checks follow the script."""
    from oslo_utils.imageutils import format_inspector as fi
    total = 0
    for cfg in ('MC_SafetyCheck_3.cfg', 'MC_SafetyCheck_0.cfg'):
        res = tlc.run('MC_SafetyCheck', cfg, workdir=ctx.work, workers=4, coverage=True)
        ctx.tlc(res, 'SafetyCheck aggregator (%s)' % cfg)
        if cfg.endswith('_3.cfg'):
            for a in ('Construct', 'Begin', 'Gate', 'RunCheck', 'Conclude'):
                if res.coverage.get(a, (0, 0))[1] == 0:
                    raise MachineryError('vacuity: %s never taken' % a)
        for rec in res.records:
            script = rec['script'] if isinstance(rec['script'], dict) else {}
            for variant, exc in enumerate(EXC_TYPES if any(v == 'error' for v in script.values()) else [None]):
                total += 1

                class Scripted(fi.FileInspector):
                    NAME = 'scripted'

                    def _initialize(self):
                        self.new_region('r', fi.CaptureRegion(0, 4))
                        for name, outcome in sorted(script.items()):
                            self.add_safety_check(fi.SafetyCheck(name, self._fn(outcome)))

                    def _fn(self, outcome):
                        def pass_():
                            return None

                        def violation():
                            raise fi.SafetyViolation('scripted violation')

                        def error():
                            raise exc('scripted error')

                        def value():
                            return 'a reason string'
                        return {'pass': pass_, 'violation': violation, 'error': error, 'value': value}[outcome]

                    @property
                    def format_match(self):
                        return rec['match']
                try:
                    insp = Scripted()
                except RuntimeError:
                    got = ('RuntimeError', [])
                else:
                    insp.eat_chunk(b'abcd' if rec['complete'] else b'ab')
                    insp.finish()
                    try:
                        r = insp.safety_check()
                        got = ('returns', []) if r is None else ('returned-value', [])
                    except fi.SafetyCheckFailed as e:
                        got = ('SafetyCheckFailed', sorted(e.failures))
                    except fi.ImageFormatError:
                        got = ('ImageFormatError', [])
                    except Exception as e:
                        got = ('EXC:' + type(e).__name__, [])
                want = (rec['result'], sorted(rec['failures']))
                if got != want:
                    ctx.violation({'kind': 'aggregator', 'want': want[0], 'got': got[0]},
                                  {'case': rec, 'exception_type': exc.__name__ if exc else None,
                                   'observed': got, 'expected': want},
                                  'safety_check aggregator: complete=%s match=%s script=%s (%s): spec %s, code %s' % (
                                      rec['complete'], rec['match'], script, exc.__name__ if exc else '-', want, got))
    ctx.cov['evaluations'] += total
    ctx.stage('aggregator-replay', cases=total)
    ctx.sample({'aggregator_case': res.records[0] if res.records else None})


def _job(args):
    items, seed = args[:2]
    deep = len(args) > 2 and args[2]
    import logging
    logging.disable(logging.CRITICAL)
    from vf import images, insp
    from oslo_utils.imageutils import format_inspector as fi
    out = []
    for idx, rec in items:
        rnd = random.Random(seed * 1000003 + idx)
        fmt, B = ri.gamma(rec['L'])
        data, bounds = images.build(fmt, B, rnd)
        n = len(data)
        ref = rec['ref']
        scheds = [[n] if n else [], ]
        if n > 1:
            q, r = divmod(n, 4096)
            scheds.append([4096] * q + ([r] if r else []))
            cuts = sorted({b for b in bounds if 0 < b < n})
            if cuts:
                prev, parts = 0, []
                for c in cuts:
                    parts.append(c - prev)
                    prev = c
                parts.append(n - prev)
                scheds.append(parts)
            # "all chunkings from C01": a single cut just before / after every structure boundary, and small reads
            for b in cuts[:10]:
                for c in (b - 1, b + 1):
                    if 0 < c < n:
                        scheds.append([c, n - c])
            if n <= 40000:
                q, r = divmod(n, 17)
                scheds.append([17] * q + ([r] if r else []))
            if deep:
                have = {tuple(x) for x in scheds}
                scheds += [x for x in ri.schedules(n, bounds, rnd, True) if tuple(x) not in have]
        raised_ref = (ref['safety'] == 'rejected' and not ref['match'] and not ref['complete']
                      and ref['size']['k'] == 'zero')
        want = (ref['safety'], sorted(ref['fails']))
        probs = []
        for si, sched in enumerate(scheds + [scheds[min(1, len(scheds) - 1)]]):
            as_view = si == len(scheds)          # once more, as memoryviews of one reused buffer (a readinto() loop)
            r = insp.run(fi.ALL_FORMATS[fmt], data, sched, as_view=as_view)
            if as_view:
                sched = {'memoryview_chunks_of': ri.describe(sched)}
            v = r['verdict']
            got = (v[0], sorted(v[4]))
            if got != want:
                probs.append((ri.describe(sched), got, want, r['err']))
            if got[0] == 'ok' and (rec['unsafe'] or not ref['complete'] or not ref['match']):
                probs.append((ri.describe(sched), 'ACCEPTED-UNSAFE', want, r['err']))
        out.append((idx, probs, len(scheds), n, raised_ref))
    return out


def traits_stage(ctx, records):
    quick = ctx.quick
    rnd = random.Random(ctx.seed)
    caps = {'*': 100000}
    chosen = ri.select(records, caps, rnd)
    jobs = [(chosen[i:i + 40], ctx.seed, not quick) for i in range(0, len(chosen), 40)]
    byidx = dict(chosen)
    runs = 0
    classes = {}
    with multiprocessing.Pool(16) as pool:
        for out in pool.imap_unordered(_job, jobs):
            for idx, probs, nsched, n, raised_ref in out:
                runs += nsched
                rec = byidx[idx]
                key = (rec['L']['fmt'], rec['ref']['safety'], bool(rec['unsafe']))
                classes[key] = classes.get(key, 0) + 1
                for sched, got, want, err in probs:
                    accepted_unsafe = got == 'ACCEPTED-UNSAFE'
                    ctx.violation(
                        {'kind': 'accepted-unsafe' if accepted_unsafe else 'safety-outcome',
                         'fmt': rec['L']['fmt'], 'want': want[0],
                         'got': 'ok' if accepted_unsafe else got[0]},
                        {'layout': rec['L'], 'schedule': sched, 'observed': got, 'expected': want, 'raised': err},
                        '%s image %s: safety outcome %s under chunking %s, specification says %s' % (
                            rec['L']['fmt'], rec['L'], got, sched, want))
    ctx.cov['evaluations'] += runs
    ctx.cov['distinct_nontrivial'] += len(chosen)
    unsafe_cases = sum(v for k, v in classes.items() if k[2])
    if unsafe_cases < 1000:
        raise MachineryError('vacuity: too few unsafe layouts exercised: %d' % unsafe_cases)
    ctx.stage('trait-replay', layouts=len(chosen), runs=runs,
              classes={'%s/%s/%s' % k: v for k, v in sorted(classes.items())})
    return chosen


def isolation_stage(ctx, chosen):
    """The verdict is a function of the inspector's own stream: inspectors of one format working side by side
    (two uploads in one process; "detect all, then check all") must each reach the verdict they reach alone."""
    from vf import images, insp
    from oslo_utils.imageutils import format_inspector as fi
    rnd = random.Random(ctx.seed + 11)
    by = {}
    for idx, rec in chosen:
        ref = rec['ref']
        if ref['safety'] == 'rejected':
            continue
        by.setdefault((rec['L']['fmt'], ref['safety']), []).append((idx, rec))
    pairs = []
    for fmt in sorted({k[0] for k in by}):
        oks, fails = by.get((fmt, 'ok'), []), by.get((fmt, 'fail'), [])
        rnd.shuffle(oks)
        rnd.shuffle(fails)
        k = 6 if ctx.quick else 40
        pairs += list(zip(oks[:k], fails[:k])) + list(zip(fails[:k], fails[k:2 * k])) + list(zip(oks[:k], oks[k:2 * k]))
    n = 0
    for (ia, ra), (ib, rb) in pairs:
        built = []
        for idx, rec in ((ia, ra), (ib, rb)):
            r2 = random.Random(ctx.seed * 1000003 + idx)
            fmt, B = ri.gamma(rec['L'])
            data, bounds = images.build(fmt, B, r2)
            built.append((fmt, data, rec))
        for mode in ('interleaved', 'a-then-b-then-check-a'):
            objs = [fi.ALL_FORMATS[f]() for f, _, _ in built]
            errs = [None, None]
            if mode == 'interleaved':
                size = 4096
                pos = 0
                longest = max(len(d) for _, d, _ in built)
                while pos < longest:
                    for j, (f, d, _) in enumerate(built):
                        if pos < len(d) and errs[j] is None:
                            try:
                                objs[j].eat_chunk(d[pos:pos + size])
                            except Exception as e:
                                errs[j] = e
                    pos += size
            else:
                for j, (f, d, _) in enumerate(built):
                    try:
                        objs[j].eat_chunk(d)
                    except Exception as e:
                        errs[j] = e
            for j in (0, 1):
                if errs[j] is None:
                    try:
                        objs[j].finish()
                    except Exception as e:
                        errs[j] = e
            for j, (f, d, rec) in enumerate(built):
                n += 1
                v = insp.verdict(objs[j], errs[j])
                got = (v[0], sorted(v[4]))
                want = (rec['ref']['safety'], sorted(rec['ref']['fails']))
                if got != want:
                    other = built[1 - j][2]['L']
                    ctx.violation({'kind': 'isolation', 'fmt': f, 'mode': mode, 'want': want[0], 'got': got[0]},
                                  {'layout': rec['L'], 'other_layout': other, 'mode': mode, 'observed': got, 'expected': want},
                                  '%s image %s inspected next to %s (%s): safety outcome %s, alone %s' % (
                                      f, rec['L'], other, mode, got, want))
    ctx.cov['evaluations'] += n
    ctx.stage('instance-isolation', pairs=len(pairs), verdicts=n)


def cli_run(path, verbose=False):
    env = dict(os.environ)
    p = subprocess.run([sys.executable, '-m', 'oslo_utils.imageutils', '-i', path] + (['-v'] if verbose else []),
                       stdout=subprocess.PIPE, stderr=subprocess.PIPE, env=env, timeout=120)
    return p.returncode, p.stdout.decode('utf-8', 'replace')


def _cli_job(args):
    items, seed, workdir = args
    from vf import images
    out = []
    for idx, rec in items:
        rnd = random.Random(seed * 1000003 + idx)
        fmt, B = ri.gamma(rec['L'])
        data, bounds = images.build(fmt, B, rnd)
        path = os.path.join(workdir, 'img_%d.bin' % idx)
        with open(path, 'wb') as fh:
            fh.write(data)
        rc, so = cli_run(path, verbose=(idx % 3 == 0))
        os.unlink(path)
        out.append((idx, rc, so))
    return out


def cli_stage(ctx, chosen):
    """exit status 0 <=> detection returned an inspector and its safety check passed."""
    quick = ctx.quick
    rnd = random.Random(ctx.seed + 5)
    usable = []
    for idx, rec in chosen:
        ref = rec['ref']
        raised_ref = (ref['safety'] == 'rejected' and not ref['match'] and not ref['complete']
                      and ref['size']['k'] == 'zero')
        L = rec['L']
        if raised_ref and L.get('total', 1) != 0 and not (L['fmt'] == 'vmdk' and L.get('sig')):
            continue        # what an errored inspector reports afterwards is finding F4 / observation O6
        # a VMDK (signature present) whose inspector refuses the header - misplaced descriptor, unsupported
        # version - is named by the property: the stream still says vmdk, so the checker must not exit 0
        usable.append((idx, rec))
    by = {}
    for it in usable:
        by.setdefault((it[1]['L']['fmt'], it[1]['ref']['safety'], it[1]['ref']['match']), []).append(it)
    sel = []
    per = 10 if quick else 80
    for k, lst in sorted(by.items()):
        rnd.shuffle(lst)
        sel += lst[:per]
    jobs = [(sel[i:i + 6], ctx.seed, ctx.work) for i in range(0, len(sel), 6)]
    byidx = dict(sel)
    n = 0
    zero = 0
    with multiprocessing.Pool(16) as pool:
        for out in pool.imap_unordered(_cli_job, jobs):
            for idx, rc, so in out:
                n += 1
                rec = byidx[idx]
                ref = rec['ref']
                # own format matches -> decided by its safety outcome; otherwise the content is
                # detected as raw, whose (null) check passes
                want_zero = (ref['safety'] == 'ok') if ref['match'] else True
                if rec['L']['fmt'] == 'vmdk' and rec['L'].get('sig') and ref['safety'] == 'rejected':
                    want_zero = False
                zero += rc == 0
                if (rc == 0) != want_zero:
                    ctx.violation({'kind': 'cli-exit', 'fmt': rec['L']['fmt'], 'rc': rc, 'want_zero': want_zero},
                                  {'layout': rec['L'], 'exit_status': rc, 'stdout': so[:400], 'reference': ref},
                                  'python -m oslo_utils.imageutils on %s image %s exits %d, expected %s' % (
                                      rec['L']['fmt'], rec['L'], rc, 'zero' if want_zero else 'non-zero'))
                if rc == 0 and 'SAFETY_CHECK_PASSED=False' in so:
                    ctx.violation({'kind': 'cli-inconsistent'}, {'layout': rec['L'], 'stdout': so[:400]},
                                  'CLI exits 0 but reports SAFETY_CHECK_PASSED=False')
    ctx.cov['evaluations'] += n
    ctx.stage('cli', runs=n, exit_zero=zero)
    if zero == 0 or zero == n:
        raise MachineryError('vacuity: CLI exit statuses all alike')


def _ff_job(args):
    items, seed, workdir = args
    import logging
    logging.disable(logging.CRITICAL)
    from vf import images
    from oslo_utils.imageutils import format_inspector as fi
    out = []
    for idx, rec in items:
        rnd = random.Random(seed * 1000003 + idx)
        fmt, B = ri.gamma(rec['L'])
        data, bounds = images.build(fmt, B, rnd)
        path = os.path.join(workdir, 'ff_%d.bin' % idx)
        with open(path, 'wb') as fh:
            fh.write(data)
        try:
            insp = fi.ALL_FORMATS[fmt].from_file(path)
            got = ('inspector', insp.actual_size, str(insp))
        except fi.ImageFormatError:
            got = ('ImageFormatError', None, None)
        except Exception as e:
            got = ('EXC:' + type(e).__name__, None, None)
        os.unlink(path)
        out.append((idx, got, len(data)))
    return out


def from_file_stage(ctx, chosen):
    """FileInspector.from_file reads the minimum and is fail-closed (spec growth beyond C02's text)."""
    rnd = random.Random(ctx.seed + 9)
    by = {}
    for it in chosen:
        by.setdefault((it[1]['L']['fmt'], it[1]['fromfile'], it[1]['clean']), []).append(it)
    sel = []
    for k, lst in sorted(by.items()):
        rnd.shuffle(lst)
        sel += lst[:(25 if ctx.quick else 200)]
    jobs = [(sel[i:i + 12], ctx.seed, ctx.work) for i in range(0, len(sel), 12)]
    byidx = dict(sel)
    n = 0
    for out in multiprocessing.Pool(16).imap_unordered(_ff_job, jobs):
        for idx, got, total in out:
            rec = byidx[idx]
            n += 1
            want = rec['fromfile']
            bad = got[0] != want
            if not bad and want == 'inspector' and rec['clean']:
                up = rec['readupto']
                exp = total if up == -1 else min(total, -(-up // 512) * 512)
                bad = got[1] != exp
            if bad:
                ctx.violation({'kind': 'from_file', 'fmt': rec['L']['fmt'], 'want': want, 'got': got[0]},
                              {'layout': rec['L'], 'observed': got, 'expected': want, 'read_up_to': rec['readupto'], 'size': total},
                              '%s.from_file on %s: %s (actual_size %s), specification %s (complete at %s of %d bytes)' % (
                                  rec['L']['fmt'], rec['L'], got[0], got[1], want, rec['readupto'], total))
    ctx.cov['evaluations'] += n
    ctx.stage('from_file', cases=n)


def injection_stage(ctx):
    """An error inside a shipped check counts as a failure of that check."""
    from vf import images, insp
    from oslo_utils.imageutils import format_inspector as fi
    rnd = random.Random(ctx.seed)
    n = 0
    for fmt in ('qcow2', 'vmdk', 'gpt', 'luks', 'vhd', 'vhdx', 'iso', 'vdi', 'raw'):
        data, _ = images.build(fmt, {'footer': {}} if fmt == 'vmdk' else {}, rnd)
        base = insp.run(fi.ALL_FORMATS[fmt], data, [len(data)])
        if base['verdict'][0] != 'ok':
            # "a clean image of every format other than QED is accepted" is a clause of the property
            ctx.violation({'kind': 'clean-image-not-accepted', 'fmt': fmt, 'got': base['verdict'][0]},
                          {'format': fmt, 'verdict': list(base['verdict'])},
                          'a clean %s image is not accepted: %s' % (fmt, base['verdict']))
            continue
        names = list(base['insp']._safety_checks)
        for name in names:
            for exc in EXC_TYPES:
                r = insp.run(fi.ALL_FORMATS[fmt], data, [len(data)])
                i2 = r['insp']

                def boom(exc=exc):
                    raise exc('injected')
                i2._safety_checks[name].target_fn = boom
                sc, fails = insp.safety_outcome(i2)
                n += 1
                if sc != 'fail' or name not in fails:
                    ctx.violation({'kind': 'error-not-failure', 'fmt': fmt, 'check': name, 'exc': exc.__name__},
                                  {'fmt': fmt, 'check': name, 'exception': exc.__name__, 'outcome': [sc, fails]},
                                  '%s: %s raised inside check %r gives %s %s instead of a failure of that check' % (
                                      fmt, exc.__name__, name, sc, fails))
    ctx.cov['evaluations'] += n
    ctx.stage('error-injection', cases=n)


def run(ctx):
    ctx.assumptions += [
        "a check that RETURNS a reason string instead of raising is treated as passed by SafetyCheck.__call__ "
        "(modelled as the code does; no shipped check does it)",
        "'known' qcow2 incompatible feature bits are 0..3 as shipped",
        'CLI expectation is not asserted for layouts on which the inspector raises while streaming '
        '(what an errored inspector reports afterwards is finding F4 / observation O6)',
        'text-descriptor VMDK (no KDMV header) is outside the trait families (finding F1)',
    ]
    aggregator_stage(ctx)
    records = ri.export_layouts(ctx)
    chosen = traits_stage(ctx, records)
    ctx.sample({'trait_case': {'L': chosen[0][1]['L'], 'ref': chosen[0][1]['ref'], 'unsafe': chosen[0][1]['unsafe']}})
    isolation_stage(ctx, chosen)
    cli_stage(ctx, chosen)
    from_file_stage(ctx, chosen)
    injection_stage(ctx)
    # binding self-test: an inspector whose gate is removed must be exposed by the aggregator replay
    from oslo_utils.imageutils import format_inspector as fi

    class NoGate(fi.QcowInspector):
        def safety_check(self):
            failures = {}
            for check in self._safety_checks.values():
                try:
                    check()
                except fi.SafetyViolation as exc:
                    failures[check.name] = exc
            if failures:
                raise fi.SafetyCheckFailed(failures)
    from vf import images, insp
    data, _ = images.build('qcow2', {'total': 104}, random.Random(1))
    r = insp.run(NoGate, data, [len(data)])
    if r['verdict'][0] == 'rejected':
        raise MachineryError('binding self-test: gate-less stub still refuses a truncated stream')
    ctx.stage('binding-selftest', gateless_stub_outcome=r['verdict'][0])
    ctx.cov['rule'] = ('every layout of the trait families of ImageRef.tla (qcow2 versions x backing-file classes x feature-bit '
                       'sets incl. each of the 64 bits; VMDK header fields, every ordered pair of descriptor line classes, every '
                       'footer perturbation; all boot-flag x type MBR tables; LUKS versions; truncations) built and streamed under '
                       '3 chunkings; every terminal state of the aggregator model x 8 exception types; CLI on a stratified sample')
    ctx.cov['exhaustive'] = True
