"""G03 (specification growth, no listed property) - netutils helpers that consult the environment:
is_ipv6_enabled (spec/Ipv6Flag.tla, a state machine), get_my_ipv4 / get_my_ipv6 and set_tcp_keepalive
(spec/NetEnv.tla).  The environment (proc entries, sockets, psutil) is replaced by gamma of the model's."""
import collections
import io
import os
import socket as real_socket
import types

from vf import tlc
from vf.tlc import MachineryError

CONTENT = {'0': '0', '0nl': '0\n', '1': '1\n', 'garbage': 'yes\n', 'empty': ''}
PROC6 = '/proc/sys/net/ipv6/conf/default/disable_ipv6'
ADDR = {'4a': '192.0.2.10', '4b': '192.0.2.11', '6a': '2001:db8::a', '6b': '2001:db8::b', 'other': '02:00:00:00:00:01'}
Snic = collections.namedtuple('Snic', 'family address')


def ipv6_flag_stage(ctx, nu):
    res = tlc.run('MC_Ipv6Flag', workdir=ctx.work, workers=4, stdout_path=os.path.join(ctx.work, 'ip6.out'))
    ctx.tlc(res, 'Ipv6Flag: AnswerStable, ReadAtMostOnce')
    env = {'file': 'absent', 'reads': 0}

    def fake_open(path, *a, **kw):
        if path != PROC6:
            raise MachineryError('unexpected open(%r)' % path)
        if env['file'] == 'absent':
            raise FileNotFoundError(path)
        env['reads'] += 1
        return io.StringIO(CONTENT[env['file']])
    saved_os = nu.os
    nu.os = types.SimpleNamespace(path=types.SimpleNamespace(exists=lambda p: p == PROC6 and env['file'] != 'absent'))
    nu.open = fake_open
    n = 0
    try:
        for rec in res.records:
            nu._IS_IPV6_ENABLED = None
            env['reads'] = 0
            obs = []
            for h in rec['hist']:
                if h['a'] == 'file':
                    env['file'] = h['v']
                elif h['a'] == 'new':
                    nu._IS_IPV6_ENABLED = None
                    env['reads'] = 0
                else:
                    n += 1
                    try:
                        r = nu.is_ipv6_enabled()
                    except Exception as e:
                        r = 'EXC:' + type(e).__name__
                    obs.append(r)
                    want = h['v'] == 'true'
                    if r is not want:
                        ctx.beyond('Ipv6Flag', {'kind': 'answer', 'want': want, 'got': repr(r)}, {'history': rec['hist'], 'observed': repr(obs)},
                                   'is_ipv6_enabled() after %s -> %r, specification %s' % ([(x['a'], x['v']) for x in rec['hist']], r, want))
                        break
            else:
                if env['reads'] != rec['reads']:
                    ctx.beyond('Ipv6Flag', {'kind': 'reads'}, {'history': rec['hist'], 'reads': env['reads'], 'expected': rec['reads']},
                               'is_ipv6_enabled read the proc entry %d time(s), specification %d' % (env['reads'], rec['reads']))
    finally:
        nu.os = saved_os
        del nu.open
        nu._IS_IPV6_ENABLED = None
    ctx.cov['evaluations'] += n
    ctx.stage('ipv6-flag', behaviours=len(res.records), calls=n)


def route_text(fam, table):
    if fam == 4:
        lines = ['Iface\tDestination\tGateway \tFlags\tRefCnt\tUse\tMetric\tMask\t\tMTU\tWindow\tIRTT']
        for r in table:
            dest, iface = r.split(':')
            lines.append('%s\t%s\t0102000A\t0003\t0\t0\t0\t00000000\t0\t0\t0' % (iface, '00000000' if dest == 'default' else '0002000A'))
    else:
        lines = []
        zero = '0' * 32
        for r in table:
            dest, iface = r.split(':')
            d = (zero, '00') if dest == 'default' else ('20010db8' + '0' * 24, '40')
            lines.append('%s %s %s 00 %s 00000400 00000001 00000000 00000003 %8s' % (d[0], d[1], zero, zero, iface))
    return ''.join(x + '\n' for x in lines)      # an empty table is an empty file, not a blank line


def env_stage(ctx, nu):
    res = tlc.run('MC_NetEnv', workdir=ctx.work, workers=4, stdout_path=os.path.join(ctx.work, 'ne.out'))
    ctx.tlc(res, 'NetEnv: RightFamily, OffSetsNothingElse; reference tables')
    saved_socket, saved_psutil = nu.socket, nu.psutil
    n = 0
    kinds = {}
    try:
        for rec in res.records:
            c, ref = rec['c'], rec['ref']['r']
            n += 1
            if c['t'] == 'addr':
                fam = c['fam']

                class FakeSock:
                    def __init__(self, *a):
                        pass

                    def __enter__(self):
                        return self

                    def __exit__(self, *a):
                        return False

                    def connect(self, addr):
                        if c['connect'] != 'ok':
                            raise OSError('network unreachable')

                    def getsockname(self):
                        return ('SOCK', 0)
                nu.socket = types.SimpleNamespace(socket=FakeSock, AF_INET=real_socket.AF_INET, AF_INET6=real_socket.AF_INET6,
                                                  SOCK_DGRAM=real_socket.SOCK_DGRAM)

                def fake_open(path, *a, **kw):
                    if path != ('/proc/net/route' if fam == 4 else '/proc/net/ipv6_route'):
                        raise MachineryError('unexpected open(%r)' % path)
                    if c['table'] == ['missing']:
                        raise FileNotFoundError(path)
                    return io.StringIO(route_text(fam, c['table']))

                def fake_ifaddrs():
                    if c['psutil'] == 'raises':
                        raise RuntimeError('psutil failed')
                    out = {}
                    for name in ('eth0', 'eth1'):
                        out[name] = [Snic(real_socket.AF_INET if a.startswith('4') else real_socket.AF_INET6 if a.startswith('6')
                                          else real_socket.AF_PACKET, ADDR[a]) for a in c[name]]
                    return out
                nu.open = fake_open
                nu.psutil = types.SimpleNamespace(net_if_addrs=fake_ifaddrs)
                try:
                    got = nu.get_my_ipv4() if fam == 4 else nu.get_my_ipv6()
                except Exception as e:
                    got = 'EXC:' + type(e).__name__
                want = 'SOCK' if ref == ['sock'] else (('127.0.0.1' if fam == 4 else '::1') if ref == ['lo'] else ADDR[ref[1]])
                kinds[ref[0]] = kinds.get(ref[0], 0) + 1
                if got != want:
                    ctx.beyond('NetEnv', {'kind': 'my-address', 'fam': fam, 'want': ref[0]}, {'case': c, 'expected': want, 'observed': got},
                               'get_my_ipv%d() in environment %s -> %r, specification %r' % (fam, {k: v for k, v in c.items() if k != 't'}, got, want))
            else:
                ns = {'SOL_SOCKET': 's', 'SO_KEEPALIVE': 'keepalive', 'IPPROTO_TCP': 't'}
                for o, attr in (('idle', 'TCP_KEEPIDLE'), ('intvl', 'TCP_KEEPINTVL'), ('cnt', 'TCP_KEEPCNT')):
                    if o in c['has']:
                        ns[attr] = o
                nu.socket = types.SimpleNamespace(**ns)
                calls = []

                class Sock:
                    def setsockopt(self, level, opt, value):
                        calls.append((level, opt, value))
                on = {'true': True, 'false': False, 'one': 1, 'none': None}[c['on']]
                try:
                    nu.set_tcp_keepalive(Sock(), on, tcp_keepidle=7 if c['idle'] else None,
                                         tcp_keepalive_interval=8 if c['intvl'] else None, tcp_keepalive_count=9 if c['cnt'] else None)
                    err = 'none'
                except TypeError:
                    err = 'TypeError'
                except Exception as e:
                    err = 'EXC:' + type(e).__name__
                want_calls = []
                for x in ref['calls']:
                    if x.startswith('keepalive='):
                        want_calls.append(('s', 'keepalive', x.endswith('true')))
                    else:
                        want_calls.append(('t', x, {'idle': 7, 'intvl': 8, 'cnt': 9}[x]))
                kinds['keepalive'] = kinds.get('keepalive', 0) + 1
                if err != ref['err'] or calls != want_calls:
                    ctx.beyond('NetEnv', {'kind': 'keepalive', 'on': c['on']}, {'case': c, 'expected': ref, 'observed': [err, calls]},
                               'set_tcp_keepalive %s -> %s %s, specification %s' % (c, err, calls, ref))
    finally:
        nu.socket, nu.psutil = saved_socket, saved_psutil
        if 'open' in nu.__dict__:
            del nu.open
    ctx.cov['evaluations'] += n
    if len(kinds) < 4:
        raise MachineryError('vacuity: %s' % kinds)
    ctx.stage('environment-tables', cases=n, outcomes=kinds)
    ctx.sample({'case': res.records[len(res.records) // 2]})


def run(ctx):
    from oslo_utils import netutils as nu
    ctx.assumptions += ['sockets, proc entries and psutil are replaced by gamma of the model\'s environment',
                        'growth check: mismatches are beyond-property reports, no listed property is decided here']
    ipv6_flag_stage(ctx, nu)
    env_stage(ctx, nu)
    ctx.cov['rule'] = ('every history of 4 environment changes / calls / process restarts for is_ipv6_enabled; every environment of the '
                       'address fallback (connect x route table up to 2 routes x interface address lists x psutil) for both families; '
                       'every keepalive argument combination x platform capability set')
    ctx.cov['exhaustive'] = True
