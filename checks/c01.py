"""C01 - image inspection verdict depends on the bytes only, never on the chunking."""
from checks import engine_scaled
from vf.tlc import MachineryError


def run(ctx):
    quick = ctx.quick
    ctx.assumptions += [
        'scaled format programs (lib/vf/scaled.py) have the same shape as the real subclasses; '
        'the real subclasses are checked at real scale by the agreement and reference oracles',
        "'eat_chunk raised' and 'safety_check refused' are one verdict class (rejected)",
    ]
    import os
    if os.environ.get('VERIF_ONLY') == 'real':
        real_stage(ctx)
        fuzz_stage(ctx)
        return wrapper_stage(ctx)
    # A. the engine, exhaustively in the small scope --------------------------
    engine_scaled.run_scaled(ctx, 'chain', 7 if quick else 8, [0, 1, 3, 4], 1500 if quick else 10000)
    engine_scaled.run_scaled(ctx, 'fixed', 5 if quick else 6, [0, 1, 3] if quick else [0, 1, 2, 3],
                             800 if quick else 5000)
    engine_scaled.run_scaled(ctx, 'reloc', 6 if quick else 7, [0, 1, 2, 4], 800 if quick else 5000)
    if not quick:
        engine_scaled.apalache_stage(ctx)
    # the pinned-code deviations must be refuted by TLC at design level
    devs = [(['D1_NoSettleLoop'], ['ChunkIndependent']),
            (['D7_MisalignedAppend', 'F2_BackwardPointers'], ['Faithful', 'ChunkIndependent'])]
    if not quick:
        devs.append((['F2_BackwardPointers'], ['ChunkIndependent', 'Faithful']))
    for dev, expect in devs:
        r = engine_scaled.model_check(ctx, 'chain', 7, [0, 1, 3, 4], dev=dev, expect=expect)
        ctx.stage('tlc-deviation', dev=dev, violated=r.violated)
    real_stage(ctx)
    fuzz_stage(ctx)
    wrapper_stage(ctx)
    ctx.cov['rule'] = ('every stream of length N over the alphabet x every composition of N into chunk sizes '
                       '(plus empty-chunk and query-interleaved variants) executed on the real engine and compared '
                       'with the TLC-exported reference verdict; real-scale layouts and fuzzed images under agreement / reference oracles; InspectWrapper conclusions across read sizes up to 8 MiB; 40 streams inspected alone and by four threads at once; non-trivial = streams whose reference is not a '
                       'plain non-matching rejection')
    ctx.cov['exhaustive'] = True


def real_stage(ctx):
    import random
    from checks import real_images as ri
    quick = ctx.quick
    records = ri.export_layouts(ctx)
    rnd = random.Random(ctx.seed)
    caps = {'*': 150, 'vhdx': 220, 'vmdk': 260, 'gpt': 200, 'qcow2': 250} if quick else \
           {'*': 400, 'vhdx': 900, 'vmdk': 900, 'gpt': 600, 'qcow2': 800}
    chosen = ri.select(records, caps, rnd, always=lambda rec: rec['L']['fmt'] == 'vhdx' and (
        rec['L']['rpad'] >= 2045 or rec['L']['mpad'] >= 2045 or rec['L']['rcount'] > 2000 or rec['L']['mcount'] > 2000
        or 192 * 1024 <= rec['L']['meta_off'] < 256 * 1024))      # pointers back into the region-table window
    stats = {'layouts': 0, 'accepted': 0, 'classes': {}}

    def handler(item, r, size):
        rec = item
        L = rec['L']
        fmt = L['fmt']
        stats['layouts'] += 1
        key = '%s/%s' % (fmt, rec['ref']['safety'])
        stats['classes'][key] = stats['classes'].get(key, 0) + 1
        for kind, sched, a, b in r['problems']:
            if kind == 'reference':
                differs = [i for i in range(5) if a[i] != b[i]]
                ctx.violation(
                    {'kind': 'reference', 'fmt': fmt, 'differs': differs, 'ref_class': b[0], 'got_class': a[0]},
                    {'layout': L, 'schedule': sched, 'observed': a, 'reference': b, 'size': size},
                    '%s image %s: verdict %s under chunking %s, reference (function of the layout) %s' % (
                        fmt, L, a, sched, b))
            elif kind == 'agreement':
                ctx.violation(
                    {'kind': 'agreement', 'fmt': fmt},
                    {'layout': L, 'verdicts': a, 'size': size},
                    '%s image %s: verdict depends on the chunking: %s' % (fmt, L, a))
            elif kind == 'unfaithful':
                ctx.violation(
                    {'kind': 'unfaithful', 'fmt': fmt, 'region': a[0][1]},
                    {'layout': L, 'schedule': sched, 'observed': a},
                    "%s image %s: region %r holds bytes that are not the stream's bytes at its offset (%s)" % (
                        fmt, L, a[0][1], sched))
            elif kind == 'exception':
                ctx.violation(
                    {'kind': 'exception', 'fmt': fmt, 'exc': a.split(':')[0]},
                    {'layout': L, 'schedule': sched, 'exception': a},
                    '%s image %s: eat_chunk raised %s under chunking %s' % (fmt, L, a, sched))
            else:
                raise MachineryError('builder produced %s for %s' % (a, L))
    runs = ri.run_layouts(ctx, chosen, not quick, handler)
    ctx.cov['evaluations'] += runs
    ctx.cov['distinct_nontrivial'] += stats['layouts']
    ctx.stage('real-scale-layouts', layouts=stats['layouts'], runs=runs, classes=stats['classes'])
    ctx.sample({'real_scale_layout': chosen[0][1]})


def fuzz_stage(ctx):
    from checks import real_images as ri
    quick = ctx.quick
    count = 1200 if quick else 12000
    stats = {'images': 0, 'kinds': {}, 'multi_class_known': 0}

    def handler(i, label, fmt, size, r, extra):
        stats['images'] += 1
        stats['kinds'][label['kind']] = stats['kinds'].get(label['kind'], 0) + 1
        for kind, sched, a, b in r['problems']:
            sig = {'kind': kind, 'fmt': fmt}
            sig.update(extra)
            if kind == 'agreement':
                ctx.violation(sig, {'case': label, 'case_index': i, 'inspector': fmt, 'verdicts': a, 'size': size},
                              '%s inspector on %s (%d bytes): verdict depends on the chunking: %s' % (
                                  fmt, label, size, a))
            elif kind == 'unfaithful':
                sig['region'] = a[0][1]
                ctx.violation(sig, {'case': label, 'case_index': i, 'schedule': sched, 'observed': a},
                              "%s inspector on %s: region %r holds bytes that are not the stream's (%s)" % (
                                  fmt, label, a[0][1], sched))
            elif kind == 'exception':
                sig['exc'] = a.split(':')[0]
                ctx.violation(sig, {'case': label, 'case_index': i, 'schedule': sched, 'exception': a},
                              '%s inspector on %s: eat_chunk raised %s (%s)' % (fmt, label, a, sched))
    runs = ri.run_fuzz(ctx, count, not quick, handler)
    ctx.cov['evaluations'] += runs
    ctx.stage('real-scale-agreement', cases=count, inspector_runs=stats['images'], runs=runs, kinds=stats['kinds'])


def wrapper_stage(ctx):
    from checks import real_images as ri
    count = 800 if ctx.quick else 8000
    st = {'multi': 0}

    def handler(i, label, size, seen, errored, nclasses, vmode):
        if nclasses > 1:
            st['multi'] += 1
            involved = set()
            for out, _sz in seen:
                names, one = out
                if isinstance(names, (list, tuple)):
                    involved |= set(str(x).split(':')[0] for x in names)
                if isinstance(one, (list, tuple)) and one and one[0] == 'expected':
                    involved.add(one[1])
                    one = one[2]
                if isinstance(one, (list, tuple)) and one:
                    involved.add(one[0])
            sig = {'kind': 'wrapper-agreement',
                   'errored_involved': bool(involved & set(errored)),
                   'vmdk_text_involved': 'vmdk' in involved and vmode[0] == 'text',
                   'vmdk_short_footer_involved': 'vmdk' in involved and vmode[1]}
            ctx.violation(
                sig,
                {'case': label, 'case_index': i, 'outcomes_by_read_size': seen, 'errored': errored, 'size': size},
                'InspectWrapper on %s (%d bytes): conclusion depends on the read size: %s (inspectors that raised: %s)' % (
                    label, size, seen, errored))
    n = ri.run_wrapper_fuzz(ctx, count, handler)
    ctx.cov['evaluations'] += n
    ctx.stage('wrapper-agreement', cases=n, chunk_dependent=st['multi'])
    concurrent_stage(ctx)


def concurrent_stage(ctx):
    """The bytes only - not who else is inspecting at the same time: streams inspected one after the other, then the
    same streams in four threads at once (wrappers, bare inspectors and detect_file_format on files)."""
    import os
    import random
    import sys
    import threading
    import logging
    from checks import real_images as ri
    from vf import insp
    from oslo_utils.imageutils import format_inspector as fi
    logging.disable(logging.CRITICAL)
    rnd = random.Random(ctx.seed + 77)
    cases = []
    j = 0
    while len(cases) < (40 if ctx.quick else 200):
        label, fmts, data, _ = ri.fuzz_case(j * 13 + 5, random.Random(ctx.seed * 31 + j))
        j += 1
        if 600 <= len(data) <= 400000:
            cases.append((label, data))
    paths = []
    for k, (label, data) in enumerate(cases):
        p = os.path.join(ctx.work, 'conc_%d.img' % k)
        with open(p, 'wb') as fh:
            fh.write(data)
        paths.append(p)

    def one(k):
        label, data = cases[k]
        rs = (512, 4096, 1000, 65536)[k % 4]
        out = [ri.wrapper_outcome(data, rs)[0]]
        try:
            out.append(str(fi.detect_file_format(paths[k])))
        except Exception as e:      # noqa
            out.append('EXC:' + type(e).__name__)
        for name in sorted(fi.ALL_FORMATS)[k % 4::4]:
            try:
                i = fi.ALL_FORMATS[name].from_file(paths[k])
                out.append((name, 'from_file', insp.safe(lambda: bool(i.format_match)), insp.safe(lambda: i.virtual_size),
                            insp.safety_outcome(i)))
            except Exception as e:  # noqa
                out.append((name, 'from_file', 'EXC:' + type(e).__name__))
        for name in sorted(fi.ALL_FORMATS)[k % 3::3]:
            i = fi.ALL_FORMATS[name]()
            try:
                for off in range(0, len(data), rs):
                    i.eat_chunk(data[off:off + rs])
                i.finish() if hasattr(i, 'finish') else None
                out.append((name, insp.safe(lambda: bool(i.format_match)), insp.safe(lambda: i.virtual_size),
                            insp.safety_outcome(i)))
            except Exception as e:  # noqa
                out.append((name, 'EXC:' + type(e).__name__))
        return repr(out)
    alone = [one(k) for k in range(len(cases))]
    again = [one(k) for k in range(len(cases))]
    if alone != again:
        raise MachineryError('the sequential reference of the concurrent stage is not reproducible')
    results = {}
    old_si = sys.getswitchinterval()
    sys.setswitchinterval(1e-5)

    def worker(t):
        order = list(range(len(cases)))
        random.Random(t).shuffle(order)
        for k in order:
            results[(t, k)] = one(k)
    # ... and the short streams once more with every thread giving way after each line it executes inside oslo_utils
    # (lib/vf/purity.py): line-level interleavings whatever the load of the machine
    from vf import purity
    small = [k for k in range(len(cases)) if len(cases[k][1]) <= 20000][:16]

    def yielding_worker(t):
        order = list(small)
        random.Random(100 + t).shuffle(order)
        sys.settrace(purity._yield_in_library)
        try:
            for k in order:
                results[(10 + t, k)] = small_one(k)
        finally:
            sys.settrace(None)

    def small_one(k):
        out = [ri.wrapper_outcome(cases[k][1], 4096)[0]]
        for name in sorted(fi.ALL_FORMATS)[k % 5::5]:
            try:
                i = fi.ALL_FORMATS[name].from_file(paths[k])
                out.append((name, 'from_file', insp.safe(lambda: bool(i.format_match)), insp.safe(lambda: i.virtual_size),
                            insp.safety_outcome(i)))
            except Exception as e:  # noqa
                out.append((name, 'from_file', 'EXC:' + type(e).__name__))
        return repr(out)
    alone_small = {k: small_one(k) for k in small}
    try:
        ths = [threading.Thread(target=worker, args=(t,)) for t in range(4)]
        [t.start() for t in ths]
        [t.join() for t in ths]
        ths = [threading.Thread(target=yielding_worker, args=(t,)) for t in range(4)]
        [t.start() for t in ths]
        [t.join() for t in ths]
    finally:
        sys.setswitchinterval(old_si)
    for (t, k), got in sorted(results.items()):
        if t >= 10 and got != alone_small[k]:
            ctx.violation({'kind': 'conclusion-depends-on-concurrent-inspections', 'line_level': True},
                          {'case': cases[k][0], 'size': len(cases[k][1]), 'alone': alone_small[k][:1500], 'with_three_other_threads': got[:1500]},
                          'InspectWrapper on %s (%d bytes) concludes %s alone and %s while three other threads inspect other streams '
                          '(threads giving way after every line)' % (cases[k][0], len(cases[k][1]), alone_small[k][:300], got[:300]))
    results = {key: v for key, v in results.items() if key[0] < 10}
    bad = 0
    for (t, k), got in sorted(results.items()):
        if got != alone[k]:
            bad += 1
            ctx.violation({'kind': 'conclusion-depends-on-concurrent-inspections'},
                          {'case': cases[k][0], 'size': len(cases[k][1]), 'alone': alone[k][:1500], 'with_three_other_threads': got[:1500]},
                          'inspection of %s (%d bytes) concludes %s alone and %s while three other threads inspect other streams' % (
                              cases[k][0], len(cases[k][1]), alone[k][:300], got[:300]))
    for p in paths:
        os.unlink(p)
    ctx.cov['evaluations'] += 6 * len(cases)
    ctx.stage('concurrent-inspections', streams=len(cases), threads=4, differing=bad, line_level_streams=len(small))
