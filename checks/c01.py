"""C01 - image inspection verdict depends on the bytes only, never on the chunking."""
from checks import engine_scaled
from vf.tlc import MachineryError


def run(ctx):
    quick = ctx.quick
    ctx.assumptions += [
        'scaled format programs (lib/vf/scaled.py) have the same shape as the real subclasses; '
        'the real subclasses are checked at real scale by the agreement and reference oracles',
        "'eat_chunk raised' and 'safety_check refused' are one verdict class (rejected)",
    ]
    # A. the engine, exhaustively in the small scope --------------------------
    engine_scaled.run_scaled(ctx, 'chain', 7 if quick else 8, [0, 1, 3, 4], 1500 if quick else 10000)
    engine_scaled.run_scaled(ctx, 'fixed', 5 if quick else 6, [0, 1, 3] if quick else [0, 1, 2, 3],
                             800 if quick else 5000)
    # the pinned-code deviations must be refuted by TLC at design level
    devs = [(['D1_NoSettleLoop'], ['ChunkIndependent']),
            (['D7_MisalignedAppend', 'F2_BackwardPointers'], ['Faithful', 'ChunkIndependent'])]
    if not quick:
        devs.append((['F2_BackwardPointers'], ['ChunkIndependent', 'Faithful']))
    for dev, expect in devs:
        r = engine_scaled.model_check(ctx, 'chain', 7, [0, 1, 3, 4], dev=dev, expect=expect)
        ctx.stage('tlc-deviation', dev=dev, violated=r.violated)
    ctx.cov['rule'] = ('every stream of length N over the alphabet x every composition of N into chunk sizes '
                       '(plus empty-chunk and query-interleaved variants) executed on the real engine and compared '
                       'with the TLC-exported reference verdict; non-trivial = streams whose reference is not a '
                       'plain non-matching rejection')
    ctx.cov['exhaustive'] = True
