"""C04 - mask_password hides every supported secret and changes nothing else."""
import os
import random

from vf import gamma_masking as gm
from vf import tlc
from vf.tlc import MachineryError

MASKS = ['***', 'XXXX', '<hidden>', 'a\\b', '\\1', '\\g<2>$']


def run(ctx):
    from oslo_utils import strutils
    from vf import purity
    _rec = purity.Recorder(strutils, ['mask_password'], every=1)
    _rec.__enter__()
    quick = ctx.quick
    ctx.assumptions += [
        'secrets never contain a quote character and never start or end with white space (the renderings cannot carry that)',
        "'--key value' does not carry '=' and XML does not carry '<' (Carries table of the spec)",
    ]
    res = tlc.run('MC_Masking', 'MC_Masking_msg.cfg', workdir=ctx.work, workers=1,
                  stdout_path=os.path.join(ctx.work, 'mask.out'))
    ctx.tlc(res, 'Masking: SecretGone / RestUnchanged / NoKeyIdentity / Idempotent / CarriedOnly on every message')
    recs = res.records
    if len(recs) < 5000:
        raise MachineryError('message export too small: %d' % len(recs))
    rnd = random.Random(ctx.seed)
    calls = 0
    keys_seen = set()
    rend_seen = set()
    per_samples = 3 if quick else 12
    PAD = ''.join('neutral line of log text number %05d with nothing to hide\n' % i for i in range(80))
    long_msgs = [0]
    for rec in recs:
        msg, masked = rec['msg'], rec['masked']
        fields = [i for i, sg in enumerate(msg) if sg['t'] == 'field']
        for i in fields:
            keys_seen.add(msg[i]['key'])
            rend_seen.add(msg[i]['rend'])
        # concrete secrets: all members for a single-class single field, samples otherwise
        if len(fields) == 1:
            choices = [{fields[0]: s} for s in gm.expansions(msg[fields[0]]['secret'], rnd, per_samples)]
        elif fields:
            choices = []
            for _ in range(per_samples):
                choices.append({i: gm.expansions(msg[i]['secret'], rnd, 1)[0] for i in fields})
        else:
            choices = [{}]
        masks = MASKS if (calls % 7 == 0 or not quick) else MASKS[:2]
        for secrets in choices:
            spelled = {i: gm.spell(msg[i]['key'], msg[i]['spell'], rnd) for i in fields}
            for mask in masks:
                text = gm.render(msg, secrets, mask, spelled)
                want = gm.render(masked, secrets, mask, spelled)
                calls += 1
                if calls % 23 == 0:
                    # the same message in the middle of a long one (a log of some 9 kB): the answer is the same there
                    text, want = PAD + text + '\n' + PAD, PAD + want + '\n' + PAD
                    long_msgs[0] += 1
                try:
                    got = strutils.mask_password(text, mask)
                except Exception as e:
                    got = 'EXC:%s' % type(e).__name__
                problems = []
                if got != want:
                    problems.append('result')
                elif got != 'EXC' and strutils.mask_password(got, mask) != got:
                    problems.append('not-idempotent')
                leaked = [s for s in secrets.values() if len(s) >= 3 and s in str(got) and s not in want]
                if leaked:
                    problems.append('leak')
                if problems:
                    f = msg[fields[0]] if fields else {}
                    kind = 'leak' if 'leak' in problems else problems[0]
                    if rec['f5'] and kind == 'result':
                        sig = {'kind': 'result', 'f5_quote_after_dict_field': True}
                    else:
                        sig = {'kind': kind, 'f5_quote_after_dict_field': rec['f5'], 'rend': f.get('rend'),
                               'mask_has_backslash': '\\' in mask,
                               'classes': sorted(set(c for i in fields for c in msg[i]['secret'])),
                               'key': f.get('key') if len(fields) == 1 else None}
                    ctx.violation(
                        sig,
                        {'message': msg, 'text': text, 'mask': mask, 'expected': want, 'observed': got,
                         'secrets': list(secrets.values())},
                        'mask_password(%r, %r) -> %r, specification: %r' % (text, mask, got, want))
    ctx.cov['evaluations'] += calls
    ctx.cov['distinct_nontrivial'] += len(recs)
    if len(keys_seen) != 35 or len(rend_seen) != 18:
        raise MachineryError('vacuity: %d keys, %d renderings exercised' % (len(keys_seen), len(rend_seen)))
    ctx.stage('mask-replay', messages=len(recs), calls=calls, inside_9kB_messages=long_msgs[0], keys=len(keys_seen), renderings=len(rend_seen))
    ctx.sample({'message': recs[0]})
    # the repository's own literal payloads keep the grammar honest: every payload the
    # upstream tests consider supported must be explained by a rendering of the spec
    # (checked as: masking is idempotent and leaves key-free text alone)
    n2 = 0
    for j in range(400 if quick else 4000):
        words = [rnd.choice(['alpha', 'beta=1', 'x:y', '(z)', '42', 'user', "'q'", '"r"', '<a>b</a>', '--flag v'])
                 for _ in range(rnd.randint(1, 8))]
        text = ' '.join(words)
        n2 += 1
        if strutils.mask_password(text) != text:
            ctx.violation({'kind': 'no-key-changed'}, {'text': text, 'observed': strutils.mask_password(text)},
                          'message without any sanitize key changed: %r -> %r' % (text, strutils.mask_password(text)))
    ctx.cov['evaluations'] += n2
    ctx.stage('no-key-identity', messages=n2)
    # the message need not be a str: whatever is passed is masked as the text str() makes of it (a dict prints in the
    # dict_sq rendering, also inside a list or a tuple)
    n3 = 0
    for key in gm.SANITIZE:
        for spelled in (key, key.upper(), 'x_' + key):
            secret = 's%d3cr3t' % n3
            for shape in ('dict', 'list_of_dict', 'tuple_of_text', 'dict_in_list_in_dict', 'exception'):
                def build(v):
                    if shape == 'dict':
                        return {spelled: v}
                    if shape == 'list_of_dict':
                        return [{spelled: v}]
                    if shape == 'tuple_of_text':
                        return ('request failed', '%s=%s' % (spelled, v))
                    if shape == 'dict_in_list_in_dict':
                        return {'nodes': [{spelled: v}]}
                    return ValueError('bad credentials: %s=%s' % (spelled, v))
                obj = build(secret)
                want = str(build('***'))
                n3 += 1
                try:
                    got = strutils.mask_password(obj)
                except Exception as e:
                    got = 'EXC:%s' % type(e).__name__
                if got != want:
                    ctx.violation({'kind': 'non-str-message', 'shape': shape, 'leak': secret in str(got)},
                                  {'message': repr(obj), 'expected': want, 'observed': got},
                                  'mask_password(%r) -> %r, specification %r' % (obj, got, want))
    class EmptyLooking(list):
        """an object that is false in a boolean context and whose text carries a secret"""
        def __str__(self):
            return 'retrying with password=hunter2'
    for obj, want in ((None, 'None'), (0, '0'), (b'', "b''"), ([], '[]'), ({}, '{}'), (False, 'False'), ('', ''),
                      (EmptyLooking(), 'retrying with password=***')):
        n3 += 1
        try:
            got = strutils.mask_password(obj)
        except Exception as e:
            got = 'EXC:%s' % type(e).__name__
        if got != want or type(got) is not str:
            ctx.violation({'kind': 'non-str-message', 'shape': 'falsy', 'leak': False},
                          {'message': repr(obj), 'expected': want, 'observed': repr(got)},
                          'mask_password(%r) -> %r, specification %r (a str)' % (obj, got, want))
    ctx.cov['evaluations'] += n3
    ctx.stage('non-str-messages', messages=n3)
    _rec.__exit__()
    _rec.replay(ctx, 'c04')
    # binding self-test: a key dropped from the list must be exposed
    leaked = False
    keys = getattr(strutils, '_SANITIZE_KEYS', None)
    if isinstance(keys, list):
        saved = list(keys)
        try:
            if 'cephmonkey' in keys:
                keys.remove('cephmonkey')
            leaked = strutils.mask_password('cephmonkey=abc123') == 'cephmonkey=abc123'
        finally:
            keys[:] = saved
    ctx.selftest_internal(leaked, 'removing a key from strutils._SANITIZE_KEYS does not change mask_password')
    ctx.cov['rule'] = ('35 keys x 4 spellings x 18 renderings; per rendering every secret shape over the character classes the '
                       'rendering can carry (each regex metacharacter its own class, every member of a single-class secret); '
                       'fields between neutral text and pairs of fields; 6 masks incl. backslashes; every 23rd message inside a 9 kB log; falsy and non-str messages; distinct_nontrivial = messages')
    ctx.cov['exhaustive'] = True
