"""C05 - inspector memory is bounded by a constant, whatever the stream claims."""
import multiprocessing
import os
import random

from checks import engine_scaled
from checks import real_images as ri
from vf import tlc, traces
from vf.tlc import MachineryError

MiB = 1 << 20


def big_schedules(n, bounds, rnd, deep):
    if n < 2:
        return [[n], [0, n, 0]]
    out = [[n]]
    for sz in (MiB, 65536, 4096, 512):       # 512 is what FileInspector.from_file reads
        if sz < n:
            q, r = divmod(n, sz)
            out.append([sz] * q + ([r] if r else []))
    cuts = sorted({b + d for b in bounds for d in (-1, 0, 1) if 0 < b + d < n})
    if cuts:
        prev = 0
        parts = []
        for c in cuts:
            parts.append(c - prev)
            prev = c
        parts.append(n - prev)
        out.append(parts)
    k = rnd.randint(2, 9)
    cs = sorted({rnd.randint(1, n - 1) for _ in range(k)})
    prev = 0
    parts = []
    for c in cs:
        parts.append(c - prev)
        prev = c
    parts.append(n - prev)
    out.append([0] + parts + [0])
    # one cut only, inside or right at a structure, the whole rest of the stream as the next chunk
    for b in sorted(set(bounds))[:14]:
        for c in (b + 40, b - 1):
            if 0 < c < n:
                out.append([c, n - c])
    return out


def observe_image(fmt, data, bounds, rnd, deep, cls=None):
    """-> list of (trace, retained_max, schedule description)"""
    from vf import insp
    from oslo_utils.imageutils import format_inspector as fi
    cls = cls or fi.ALL_FORMATS[fmt]
    out = []
    scheds = big_schedules(len(data), bounds, rnd, deep)
    for si, sched in enumerate(scheds + scheds[:1]):
        ev = []

        def cb(i, k, pos, inspector, obs, err):
            ev.append({'k': k, 'info': [{'r': nm, 'n': o[2]} for nm, o in sorted(obs.items())]})
        # the bound is about what is held, whoever holds it and whatever happened before: the stream keeps coming
        # after an inspector has refused it (a caller may go on feeding), and tracing changes nothing
        factory = cls if si < len(scheds) else (lambda: cls(tracing=True))
        r = insp.run(factory, data, sched, observe=cb, keep_feeding=True)
        out.append(({'fmt': fmt, 'ev': ev}, r['retained_max'], ri.describe(sched), r['err']))
    return out


def _job(args):
    items, seed, deep = args
    import logging
    logging.disable(logging.CRITICAL)
    from vf import images
    res = []
    for idx, kind, payload in items:
        rnd = random.Random(seed * 9176 + idx)
        if kind == 'layout':
            fmt, B = ri.gamma(payload)
            data, bounds = images.build(fmt, B, rnd)
            fmts = [fmt]
            label = payload
        else:
            label, fmts, data, bounds = ri.fuzz_case(idx, rnd)
            if len(data) < 2 * MiB and rnd.random() < 0.5:
                # several MiB of tail so that "announces larger structures" has room
                data = data + images.rnd_bytes(rnd, rnd.choice([1, 2]) * MiB)
        for fmt in fmts:
            for tr, rmax, sched, err in observe_image(fmt, data, bounds, rnd, deep):
                res.append((idx, label, fmt, len(data), tr, rmax, sched))
    return res


BOUND = {'vmdk': 1536 * 1024}


def run(ctx):
    quick = ctx.quick
    ctx.assumptions += ['memory = sum(context_info.values()), as the property says',
                        'the per-region cap n <= len (and the end-region window) is additionally discharged for unbounded integers by Apalache (CaptureRegionInd)',
                        'streams up to a few MiB; chunkings: giant, 1 MiB, 64 KiB, 4 KiB, boundary cuts, random']
    # A. engine part: MemoryBound is an invariant of CaptureEngine (every stream x chunking)
    for fmt, n, alpha in (('chain', 7, [0, 1, 3, 4]), ('fixed', 5, [0, 1, 3])):
        res = engine_scaled.model_check(ctx, fmt, n, alpha)
        ctx.tlc(res, 'CaptureEngine %s: MemoryBound at every state' % fmt)
    engine_scaled.apalache_stage(ctx)
    # B. caps: ASSUME CapsWithinBound is evaluated by TLC; hostile layouts exported
    res = tlc.run('MC_ImageRef', 'MC_ImageRef_hostile.cfg', workdir=ctx.work, workers=1)
    ctx.tlc(res, 'ImageRef: caps sum within the bound (ASSUME), hostile layout family')
    hostile = [r['L'] for r in res.records]
    if len(hostile) < 50:
        raise MachineryError('hostile family too small')
    rnd = random.Random(ctx.seed)
    if quick:
        keep = [L for L in hostile if L['fmt'] != 'vhdx']
        vh = [L for L in hostile if L['fmt'] == 'vhdx']
        rnd.shuffle(vh)
        # one of every combination of the announced-length family, a sample of the rest
        special = [L for L in vh if ((L.get('meta_len') != '1048576' or L.get('item_flags', '0') != '0' or L['item_off'] < 65536)
                                     and L['item_len'] == '2^32-1') or L.get('rpost_len', '1048576') != '1048576']
        hostile = keep + special + [L for L in vh if L not in special][:24]
    items = [(i, 'layout', L) for i, L in enumerate(hostile)]
    nfuzz = 250 if quick else 3000
    items += [(1000 + i, 'fuzz', None) for i in range(nfuzz)]
    jobs = [(items[i:i + 6], ctx.seed, not quick) for i in range(0, len(items), 6)]
    all_traces = []
    worst = {}
    runs = 0
    with multiprocessing.Pool(16) as pool:
        for out in pool.imap_unordered(_job, jobs):
            for idx, label, fmt, size, tr, rmax, sched in out:
                runs += 1
                bound = BOUND.get(fmt, 512 * 1024)
                worst[fmt] = max(worst.get(fmt, 0), rmax)
                if rmax > bound:
                    ctx.violation({'kind': 'bound', 'fmt': fmt},
                                  {'case': label, 'schedule': sched, 'retained_max': rmax, 'bound': bound, 'size': size},
                                  '%s inspector retains %d bytes (> %d) on %s under chunking %s' % (
                                      fmt, rmax, bound, label, sched))
                if len(tr['ev']) <= 400 and fmt != 'raw':
                    all_traces.append((tr, label, sched, rmax))
    ctx.cov['evaluations'] += runs
    ctx.cov['distinct_nontrivial'] += len(items)
    ctx.stage('retention-runs', cases=len(items), inspector_runs=runs, worst_retained=worst)
    if worst.get('vmdk', 0) < 1000000 or worst.get('vhdx', 0) < 190000:
        raise MachineryError('vacuity: hostile streams did not drive retention near the caps: %s' % worst)
    # C. traces validated against the caps / growth rule / bound
    rnd.shuffle(all_traces)
    sel = all_traces[:(1500 if quick else 12000)]
    for b in range(0, len(sel), 3000):
        part = sel[b:b + 3000]
        rejected, inv, r = traces.validate(ctx, 'Trace_Retention', [p[0] for p in part], 'b%d' % b)
        ctx.tlc(r, 'Trace_Retention batch', counts_as_states=False)
        ctx.cov['traces_validated_against_impl'] += len(part) - len(rejected)
        for i in sorted(rejected)[:5]:
            tr, label, sched, rmax = part[i]
            at, inv1 = traces.diagnose(ctx, 'Trace_Retention', tr)
            ctx.violation({'kind': 'retention-trace', 'fmt': tr['fmt'], 'invariant': inv1},
                          {'case': label, 'schedule': sched, 'line': at,
                           'event': tr['ev'][at - 1] if at <= len(tr['ev']) else None},
                          '%s retention trace on %s (chunking %s) breaks the caps at line %d: %s %s' % (
                              tr['fmt'], label, sched, at,
                              tr['ev'][at - 1] if at <= len(tr['ev']) else None, inv1 or ''))
        if inv and not rejected:
            raise MachineryError('retention batch violates %s with all traces consumed' % inv)
    ctx.stage('retention-traces', validated=ctx.cov['traces_validated_against_impl'])
    ctx.sample({'retention_trace': {'fmt': sel[0][0]['fmt'], 'ev': sel[0][0]['ev'][:3]}, 'case': sel[0][1]})
    # C2. the repository's own inspector tests as workloads (vf.repo_recorder wraps FileInspector.eat_chunk from outside)
    from vf import repo_traces
    rec = repo_traces.record(ctx, ['oslo_utils/tests/imageutils'], 'retention', 'ret')
    rtr = rec['retention']
    if rtr:
        rejected, inv, r = traces.validate(ctx, 'Trace_Retention', rtr, 'repo')
        ctx.tlc(r, 'Trace_Retention on traces recorded from the repository\'s own tests', counts_as_states=False)
        ctx.cov['traces_validated_against_impl'] += len(rtr) - len(rejected)
        for i in sorted(rejected)[:5]:
            at, inv1 = traces.diagnose(ctx, 'Trace_Retention', rtr[i])
            ctx.violation({'kind': 'repo-test-retention-trace', 'fmt': rtr[i]['fmt']},
                          {'line': at, 'event': rtr[i]['ev'][at - 1] if at <= len(rtr[i]['ev']) else None,
                           'test': rtr[i].get('test'), 'invariant': inv1},
                          '%s inspector trace recorded while running %s breaks the retention rule at chunk %d' % (
                              rtr[i]['fmt'], rtr[i].get('test'), at))
    ctx.stage('repo-test-traces', tests=rec['tests'], traces=len(rtr), events=sum(len(t['ev']) for t in rtr),
              pytest=rec['pytest_tail'])
    # D. binding self-tests
    bad = {'fmt': 'qcow2', 'ev': [{'k': 600, 'info': [{'r': 'header', 'n': 513}]}]}
    bad2 = {'fmt': 'vhd', 'ev': [{'k': 10, 'info': [{'r': 'header', 'n': 11}]}]}
    good = {'fmt': 'vhd', 'ev': [{'k': 10, 'info': [{'r': 'header', 'n': 10}]}]}
    rejected, _, _ = traces.validate(ctx, 'Trace_Retention', [good, bad, bad2], 'selftest')
    if rejected != {1, 2}:
        raise MachineryError('binding self-test (retention traces) failed: %s' % rejected)
    from vf import images
    from oslo_utils.imageutils import format_inspector as fi

    class Unclamped(fi.VMDKInspector):
        DESC_MAX_SIZE = 1 << 40
    L = [h for h in hostile if h['fmt'] == 'vmdk' and h['desc_num'] == '2^64-1'][0]
    fmt, B = ri.gamma(L)
    data, bounds = images.build(fmt, B, random.Random(1))
    worst_stub = max(x[1] for x in observe_image('vmdk', data, bounds, random.Random(1), False, cls=Unclamped))
    if worst_stub <= BOUND['vmdk']:
        raise MachineryError('binding self-test: unclamped VMDK stub stays within the bound (%d)' % worst_stub)
    ctx.stage('binding-selftest', unclamped_stub_retains=worst_stub)
    ctx.cov['rule'] = ('hostile layouts enumerated by TLC (every length/count/offset field at boundary and maximal values, '
                       '3 MiB streams; also region entries behind the metadata entry announcing 2^32-1 bytes) plus mutated/truncated/polyglot/unstructured images, each under giant / 1 MiB / 64 KiB / '
                       '4 KiB / boundary / random chunkings; retention observed after every chunk; distinct_nontrivial = cases')
