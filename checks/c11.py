"""C11 - address validators accept exactly well-formed values and never raise."""
import ipaddress
import os
import random

from vf import tlc
from vf.tlc import MachineryError

SCOPE = {'none': '', 'empty': '%', '1': '%e', '15': '%' + 'abcdefghij12345', '16': '%' + 'abcdefghij123456',
         '17': '%' + 'abcdefghij1234567', 'two_percent': '%a%b', 'double_percent': '%%'}


def render(c):
    k = c['k']
    if k == 'ipv4':
        return c['sep'].join(c['parts'])
    if k == 'ipv6':
        tail = {'none': [], 'v4ok': ['1.2.3.4'], 'v4long': ['255.255.255.255'], 'v4bad': ['1.2.3.256']}[c['tail']]
        if c['dc']:
            text = ':'.join(c['left']) + '::' + ':'.join(list(c['right']) + tail)
        else:
            text = ':'.join(list(c['left']) + tail)
        return text + SCOPE[c['scope']]
    if k == 'cidr':
        if c['fam'] == 4:
            a = {'ok': '10.0.0.0', 'ok_hostbits': '10.1.2.3', 'bad': '10.0.0.256', 'ok_longest': '255.255.255.255',
                 'bad_scoped': '10.0.0.1%eth0'}[c['addr']]
        else:
            a = {'ok': '2001:db8::', 'ok_hostbits': '2001:db8::1', 'bad': '2001:db8::g',
                 'ok_longest': '1111:2222:3333:4444:5555:6666:123.123.123.123', 'bad_scoped': 'fe80::1%eth0'}[c['addr']]
        if c['slashes'] == 0:
            return a
        if c['slashes'] == 1:
            return a + '/' + c['prefix']
        return a + '/' + c['prefix'] + '/' + c['extra']
    if k == 'mac':
        return c['sep'].join(c['groups'])
    raise MachineryError('render %s' % k)


NOT_BOOL = []


def truth(fn, *a):
    try:
        r = fn(*a)
        if type(r) is not bool and getattr(fn, '__name__', '') != 'is_valid_mac' and len(NOT_BOOL) < 50:
            # "true" and "false" of the statement are truth values (is_valid_mac answers with a match object or None);
            # that the other validators answer with bools is how the module is, reported as beyond-property if it changes
            NOT_BOOL.append((getattr(fn, '__name__', '?'), a, r))
        return bool(r)
    except Exception as e:
        return 'EXC:' + type(e).__name__


def stdlib(k, text, c):
    """Second oracle where the standard library defines the answer; None otherwise."""
    try:
        if k == 'ipv4':
            ipaddress.IPv4Address(text)
            return True
        if k == 'ipv6':
            if c['scope'] != 'none':
                return None
            ipaddress.IPv6Address(text)
            return True
        if k == 'cidr':
            if c['slashes'] != 1 or c['addr'] == 'bad_scoped':
                return None         # (recent Pythons accept a zone index on a network; netaddr, hence oslo.utils, does not: as shipped)
            ipaddress.ip_network(text, strict=False)
            return True
    except ValueError:
        return False
    return None


def run(ctx):
    from oslo_utils import netutils
    from vf import purity
    _rec = purity.Recorder(netutils, ['is_valid_ipv4', 'is_valid_ipv6', 'is_valid_ip', 'is_valid_cidr', 'is_valid_ipv6_cidr', 'is_valid_mac', 'is_valid_port', 'is_valid_icmp_type', 'is_valid_icmp_code'], every=7)
    _rec.__enter__()
    quick = ctx.quick
    ctx.assumptions += [
        'is_valid_ip is exercised with four-part canonical dotted quads only for IPv4 (it deliberately accepts inet_aton short forms, leading zeros and hex octets)',
        'is_valid_ipv6_cidr accepts a bare IPv6 address (asserted by the repository\'s own test); modelled as shipped',
        'integers are given as plain decimal strings (optionally padded with blanks or a plus sign) or as int; floats, '
        'underscores and newline-terminated strings are outside the grammar (Python int()/regexp "$" leniencies)',
        "netaddr leniencies outside the grammar are not generated ('::/::', 'x/-0', '10.0.0.0/ 8', netmask prefixes)",
    ]
    res = tlc.run('MC_Net', 'MC_Net.cfg', workdir=ctx.work, workers=1,
                  stdout_path=os.path.join(ctx.work, 'net.out'))
    ctx.tlc(res, 'Net: token-level recognisers (IPv4, IPv6, CIDR, MAC, integer ranges)')
    n = 0
    valid_count = {}
    disagreements = 0
    for rec in res.records:
        c = rec['c']
        k = c['k']
        want = rec['valid']
        checks = []
        if k == 'int':
            tok = c['tok']
            if c['form'] == 'none':
                arg = None
            elif c['form'] == 'int':
                try:
                    arg = int(tok)
                except ValueError:
                    continue
            elif c['form'] == 'str_padded':
                arg = ' ' + tok + ' '
            elif c['form'] == 'str_plus':
                arg = '+' + tok
            else:
                arg = tok
            fn = {'port': netutils.is_valid_port, 'icmp_type': netutils.is_valid_icmp_type,
                  'icmp_code': netutils.is_valid_icmp_code}[c['fn']]
            checks.append((c['fn'], fn, arg, want))
            text = arg
        else:
            text = render(c)
            sl = stdlib(k, text, c)
            if sl is not None and sl != want:
                disagreements += 1
                raise MachineryError('the recogniser and the standard library disagree on %r (%s): spec %s, stdlib %s' % (
                    text, c, want, sl))
            if k == 'ipv4':
                checks.append(('is_valid_ipv4', netutils.is_valid_ipv4, text, want))
                short_form = len(c['parts']) < 4 and all(ch in '0123456789.' for ch in text)
                aton_spelling = any(p in ('01', '00', '0x1') for p in c['parts'])
                if not short_form and c['sep'] == '.' and not aton_spelling:
                    checks.append(('is_valid_ip', netutils.is_valid_ip, text, want))
            elif k == 'ipv6':
                checks.append(('is_valid_ipv6', netutils.is_valid_ipv6, text, want))
                if ':' in text:
                    checks.append(('is_valid_ip', netutils.is_valid_ip, text, want))
            elif k == 'cidr':
                checks.append(('is_valid_cidr', netutils.is_valid_cidr, text, want))
                checks.append(('is_valid_ipv6_cidr', netutils.is_valid_ipv6_cidr, text, rec['v6cidr']))
            elif k == 'mac':
                checks.append(('is_valid_mac', netutils.is_valid_mac, text, want))
        for name, fn, arg, w in checks:
            got = truth(fn, arg)
            n += 1
            valid_count[name] = valid_count.get(name, 0) + (1 if w else 0)
            if got != w:
                ctx.violation({'kind': 'verdict' if isinstance(got, bool) else 'raised', 'fn': name, 'want': w, 'got': got},
                              {'case': c, 'argument': repr(arg), 'expected': w, 'observed': got},
                              '%s(%r): specification %s, code %s (case %s)' % (name, arg, w, got, c))
    ctx.cov['evaluations'] += n
    ctx.cov['distinct_nontrivial'] += len(res.records)
    if min(valid_count.values()) < 3:
        raise MachineryError('vacuity: some validator has hardly any accepted case: %s' % valid_count)
    ctx.stage('token-level', cases=len(res.records), calls=n, accepted_by_spec=valid_count)
    ctx.sample({'case': res.records[0]})
    # character level: dotted quads
    cfg = 'MC_Net_chars7n.cfg' if quick else 'MC_Net_chars7.cfg'
    res2 = tlc.run('MC_Net', cfg, workdir=ctx.work, workers=8, stdout_path=os.path.join(ctx.work, 'netc.out'),
                   timeout=900)
    ctx.tlc(res2, 'Net: every string up to length %s over {0,1,2,5,9,.,space,a} through the dotted-quad recogniser' % cfg[-5])
    m = 0
    acc = 0
    for rec in res2.records:
        text = ''.join(rec['s'])
        want = rec['quad']
        got = truth(netutils.is_valid_ipv4, text)
        m += 1
        acc += 1 if want else 0
        if got != want:
            ctx.violation({'kind': 'chars', 'fn': 'is_valid_ipv4', 'want': want, 'got': got},
                          {'text': text, 'expected': want, 'observed': got},
                          'is_valid_ipv4(%r): specification %s, code %s' % (text, want, got))
        try:
            ipaddress.IPv4Address(text)
            sl = True
        except ValueError:
            sl = False
        if sl != want:
            raise MachineryError('dotted-quad recogniser and ipaddress disagree on %r' % text)
    res2.records = None
    ctx.cov['evaluations'] += m
    ctx.stage('char-level', strings=m, accepted_by_spec=acc)
    if acc < 50:
        raise MachineryError('vacuity: character-level enumeration has no well-formed dotted quad')
    # totality on arbitrary strings
    rnd = random.Random(ctx.seed)
    pool = list('0123456789abcdefABCDEF:./%- \t\x00gxz[]') + ['é', '١', '\n', '::', '//', '1.1.1.1', 'fe80::1', '/64', '%eth0']
    fns = [netutils.is_valid_ipv4, netutils.is_valid_ipv6, netutils.is_valid_ip, netutils.is_valid_cidr,
           netutils.is_valid_ipv6_cidr, netutils.is_valid_mac, netutils.is_valid_port,
           netutils.is_valid_icmp_type, netutils.is_valid_icmp_code]
    t = 0
    for j in range(20000 if quick else 300000):
        text = ''.join(rnd.choice(pool) for _ in range(rnd.randint(0, 12)))
        for fn in fns:
            t += 1
            got = truth(fn, text)
            if not isinstance(got, bool):
                ctx.violation({'kind': 'raised', 'fn': fn.__name__, 'got': got},
                              {'argument': repr(text), 'observed': got},
                              '%s(%r) raises %s instead of answering' % (fn.__name__, text, got))
    ctx.cov['evaluations'] += t
    ctx.stage('totality', calls=t)
    # beyond the statement (which speaks of the strict form): with strict=False the answer is the C library's inet_aton
    import socket
    for text in ('300', '2130706433', '127.65535', '192.168.65535', '0377.1', '0x7f.1', '1.2.3', '1', '4294967296', '1.2.3.4.5',
                 '127.1', '10.0.0.256', '0300.0250.1', '1.2.3.4'):
        try:
            socket.inet_aton(text)
            libc = True
        except OSError:
            libc = False
        got = truth(netutils.is_valid_ipv4, text, False)
        if got != libc:
            ctx.beyond('Net', {'kind': 'non-strict-ipv4', 'libc': libc}, {'text': text, 'observed': got},
                       'is_valid_ipv4(%r, strict=False) -> %s, inet_aton says %s' % (text, got, libc))
    _rec.__exit__()
    _rec.replay(ctx, 'c11')
    seen_nb = set()
    for name, a, r in NOT_BOOL:
        if name not in seen_nb:
            seen_nb.add(name)
            ctx.beyond('Net', {'kind': 'answer-is-not-a-bool', 'fn': name}, {'function': name, 'args': repr(a), 'observed': repr(r)[:200]},
                       '%s%r answers %r: truthy or falsy as it should be, but not the bool the module returns' % (name, a, r))
    # binding self-test
    saved = getattr(netutils, '_is_int_in_range', None)
    exposed = False
    if saved is not None:
        try:
            netutils._is_int_in_range = lambda v, a, b: saved(v, a, b + 1)
            exposed = truth(netutils.is_valid_port, '65536') is True
        finally:
            netutils._is_int_in_range = saved
    ctx.selftest_internal(exposed, 'widening netutils._is_int_in_range does not change is_valid_port')
    ctx.cov['rule'] = ('token-level grammars enumerated by TLC (dotted quads with 1..5 parts and 22 octet spellings; IPv6 with 0..9 '
                       'groups, every :: placement, embedded IPv4 (also the 45-character spelling), scope ids of length 0..17; CIDRs with 0..2 slashes and 14 prefix '
                       'spellings for both families; MACs with 4..8 groups and 4 separators; integers around each range end in four '
                       'forms), all strings up to length 6/7 over an 8-symbol alphabet for IPv4, random strings for totality; '
                       'ipaddress as second oracle wherever it defines the answer')
    ctx.cov['exhaustive'] = True
