"""G07 (specification growth, no listed property) - is_json / is_yaml, get_noscope_ipv6 and QemuImgInfo(format='json')
as decision tables (spec/FileKinds.tla)."""
import json
import os

from vf import tlc
from vf.tlc import MachineryError

DOCS = {
    'json_object': ['{"a": 1}', '{}', ' {"a": [1, 2]}\n'], 'json_array': ['[1, 2]', '[]'], 'json_number': ['5', '-1.5e3'],
    'json_string': ['"text"'], 'json_null': ['null', 'true'], 'json_nested': ['{"a": {"b": [null, {"c": "d"}]}}'],
    'yaml_mapping': ['a: 1\nb: two\n', 'key: [1, 2]\n'], 'yaml_list': ['- 1\n- 2\n'], 'yaml_plain_text': ['hello world', 'just: words: here'[:11]],
    'yaml_multi_doc_first': ['--- \na: 1\n'], 'empty': [''], 'blank': ['  \n', '\n\n'],
    'yaml_unterminated_quote': ["k: 'unterminated"], 'yaml_tab_indent': ['a:\tb', '\t- x'], 'yaml_at_sign': ['@bad'],
    'yaml_open_flow': ['a: [1, 2', '{a: 1'], 'yaml_bad_directive': ['%YAML 9.9\n---\na'],
    'yaml_python_tag': ['!!python/object:os.system {}'],
    'not_text': [b'\xff\xfe\x00binary\x80'],
}
ADDRS = {'plain': 'fe80::1', 'plain_upper': 'FE80::A', 'scoped_name': 'fe80::1%eth0', 'scoped_number': 'fe80::1%1',
         'scoped_upper': 'FE80::1%Eth0', 'v4mapped_scoped': '::ffff:1.2.3.4%lo', 'two_percent': 'fe80::1%a%b',
         'empty_scope': 'fe80::1%', 'ipv4': '1.2.3.4', 'nonsense': 'nonsense', 'empty': ''}
VALUES = {'filename': 'disk.qcow2', 'backing-filename': 'base.img', 'format': 'qcow2', 'virtual-size': 67108864,
          'actual-size': 200704, 'snapshots': [{'id': '1', 'name': 'snap1'}], 'format-specific': {'type': 'qcow2', 'data': {'compat': '1.1'}}}


def outcome(fn, *a, **kw):
    try:
        r = fn(*a, **kw)
    except Exception as e:      # noqa
        n = type(e).__name__
        return 'ValueError' if (isinstance(e, ValueError) and n not in ('UnicodeDecodeError',)) else n
    return r


def run(ctx):
    import warnings
    from oslo_utils import fileutils, netutils
    from oslo_utils.imageutils import qemu
    ctx.assumptions += ['growth check: mismatches are beyond-property reports, no listed property is decided here',
                        'each document class is a handful of concrete texts; JSON and YAML themselves are the libraries\'']
    res = tlc.run('MC_FileKinds', workdir=ctx.work, workers=1)
    ctx.tlc(res, 'FileKinds: Exclusive NeitherMeansBroken NothingIsEmpty on every row')
    n = 0
    kinds = {}
    path = os.path.join(ctx.work, 'g07_doc')
    for rec in res.records:
        c, ref = rec['c'], rec['ref']
        kinds[c['t']] = kinds.get(c['t'], 0) + 1
        if c['t'] == 'doc':
            for text in DOCS[c['d']]:
                with open(path, 'wb') as fh:
                    fh.write(text if isinstance(text, bytes) else text.encode('utf-8'))
                got = [outcome(fileutils.is_json, path), outcome(fileutils.is_yaml, path)]
                got = [{True: 'true', False: 'false'}.get(g, g) if isinstance(g, (bool, str)) else repr(g) for g in got]
                n += 1
                if got != [ref['a'], ref['b']]:
                    ctx.beyond('FileKinds', {'kind': 'is_json/is_yaml', 'doc': c['d'], 'got': got},
                               {'document': repr(text), 'expected': [ref['a'], ref['b']], 'observed': got},
                               'a %s document %r: is_json / is_yaml -> %s, specification %s' % (c['d'], text, got, [ref['a'], ref['b']]))
        elif c['t'] == 'addr':
            text = ADDRS[c['a']]
            got = outcome(netutils.get_noscope_ipv6, text)
            want = {'same': text, 'cut': text.split('%')[0], 'ValueError': 'ValueError'}[ref['a']]
            n += 1
            if got != want:
                ctx.beyond('FileKinds', {'kind': 'get_noscope_ipv6', 'addr': c['a']}, {'address': text, 'expected': want, 'observed': repr(got)},
                           'get_noscope_ipv6(%r) -> %r, specification %r' % (text, got, want))
            elif ref['a'] != 'ValueError' and outcome(netutils.get_noscope_ipv6, got) != got:
                ctx.beyond('FileKinds', {'kind': 'get_noscope_ipv6-idempotent'}, {'address': text}, 'get_noscope_ipv6 twice differs from once on %r' % text)
        else:
            doc = {k: VALUES[k] for k in c['keys'] if k != 'encrypted'}
            if 'encrypted' in c['keys']:
                doc['encrypted'] = {'true': True, 'false': False, 'null': None}[c['enc']]
            out = {'text': json.dumps(doc), 'none': None, 'empty': '{}'}[c['out']]
            with warnings.catch_warnings():
                warnings.simplefilter('ignore')
                info = outcome(qemu.QemuImgInfo, out, format='json')
            n += 1
            if isinstance(info, str):
                ctx.beyond('FileKinds', {'kind': 'qemu-json-raises', 'got': info}, {'document': out}, 'QemuImgInfo(%r, format=json) raised %s' % (out, info))
                continue
            key_of = {'image': 'filename', 'backing_file': 'backing-filename', 'backing_file_format': 'backing-filename-format',
                      'file_format': 'format', 'virtual_size': 'virtual-size', 'cluster_size': 'cluster-size', 'disk_size': 'actual-size',
                      'snapshots': 'snapshots', 'encrypted': 'encrypted', 'format_specific': 'format-specific'}
            for attr, what in rec['attrs'].items():
                want = {'None': None, 'empty_list': [], 'yes': 'yes'}.get(what, VALUES.get(key_of[attr])) if what != 'value' else VALUES[key_of[attr]]
                got = getattr(info, attr, 'missing-attribute')
                if got != want:
                    ctx.beyond('FileKinds', {'kind': 'qemu-json-attr', 'attr': attr, 'what': what},
                               {'document': out, 'attribute': attr, 'expected': repr(want), 'observed': repr(got)},
                               'QemuImgInfo(%s, format=json).%s = %r, specification %r' % (out, attr, got, want))
            # the rendering names what it holds
            s = str(info)
            if ('image: %s' % info.image) not in s or ('virtual_size: %s' % info.virtual_size) not in s:
                ctx.beyond('FileKinds', {'kind': 'qemu-json-str'}, {'document': out, 'str': s}, 'str(QemuImgInfo) does not name its fields')
    if os.path.exists(path):
        os.unlink(path)
    if set(kinds) != {'doc', 'addr', 'qemu'}:
        raise MachineryError('vacuity: %s' % kinds)
    ctx.cov['evaluations'] += n
    ctx.stage('classifier-tables', rows=kinds, calls=n)
    ctx.sample({'case': res.records[0]})
    ctx.cov['rule'] = '20 document classes (1-3 texts each), 11 address classes, every subset of 8 JSON keys x encrypted x 3 kinds of output'
    ctx.cov['exhaustive'] = True
