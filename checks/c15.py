"""C15 - EUI-64, host:port and URL helpers round-trip."""
import ipaddress
import os
import random
import urllib.parse

from vf import tlc
from vf.tlc import MachineryError

HOST = {'name': 'server01', 'fqdn': 'db.example.org', 'name_mixed': 'Server01.Example.ORG', 'ipv6_upper': '2001:DB8::7F', 'ipv4': '192.0.2.7', 'ipv6': '2001:db8::7',
        'ipv6_full': '2001:0db8:85a3:0000:0000:8a2e:0370:7334', 'ipv6_scoped': 'fe80::1%eth0',
        'ipv6_scope25': 'fe80::4%25', 'ipv6_scope2512': 'fe80::5%2512',
        'ipv6_scope1': 'fe80::2%1', 'ipv6_scope15': 'fe80::3%enp0s31f6vlan42', 'ipv6_v4mapped': '::ffff:192.0.2.1',
        'ipv6_v4full': '0000:0000:0000:0000:0000:ffff:192.168.100.100', 'ipv6_v4full_scoped': '0000:0000:0000:0000:0000:ffff:192.168.100.100%eth0'}
assert len(HOST['ipv6_scope15'].split('%')[1]) == 15
QUERY = {'none': None, 'empty': '', 'single': 'a=1', 'repeat': 'a=1&b=2&a=3', 'blank_value': 'a=&b=', 'amp_only': '&&'}
FRAG = {'none': None, 'frag': 'frag', 'with_q': 'sec?x=1'}


def mac_text(m, rnd):
    sep = rnd.choice([':', '-'])
    txt = sep.join('%02x' % b for b in m)
    return txt.upper() if rnd.random() < 0.3 else txt


def prefix_text(net, plen, rnd):
    # host bits beyond the prefix length (inside the network half) may be set: they must be ignored
    a = ipaddress.IPv6Address(bytes(net) + bytes(8))
    return '%s/%d' % (rnd.choice([a.compressed, a.exploded]), plen)


def call(fn, *a, **kw):
    try:
        return ('ok', fn(*a, **kw))
    except ValueError:
        return ('ValueError', None)
    except TypeError:
        return ('TypeError', None)
    except Exception as e:
        return ('EXC:' + type(e).__name__, None)


def run(ctx):
    import netaddr
    from oslo_utils import netutils
    from vf import purity
    _rec = purity.Recorder(netutils, ['parse_host_port', 'escape_ipv6', 'get_mac_addr_by_ipv6', 'get_ipv6_addr_by_EUI64', 'urlsplit'], every=1)
    _rec.__enter__()
    quick = ctx.quick
    ctx.assumptions += [
        'prefixes longer than /64, prefixes with bits in the interface half and IPv4 networks as prefix are outside the statement',
        'urlsplit is compared component-wise with urllib.parse.urlsplit (second oracle) and with the components the URL was built from',
    ]
    res = tlc.run('MC_Eui64', workdir=ctx.work, workers=4, stdout_path=os.path.join(ctx.work, 'eui.out'), timeout=600)
    ctx.tlc(res, 'Eui64: FlipInvolution, RoundTrip, NetworkKept, MarkerInserted on every (prefix, length, MAC)')
    rnd = random.Random(ctx.seed)
    counts = {'eui': 0, 'err': 0, 'hp': 0, 'url': 0}
    recs = res.records
    for rec in recs:
        c, ref = rec['c'], rec['ref']
        k = c['k']
        counts[k] += 1
        if k == 'eui':
            if quick and counts['eui'] % 3:
                continue
            ptxt = prefix_text(c['net'], c['plen'], rnd)
            mtxt = mac_text(c['mac'], rnd)
            want = int.from_bytes(bytes(ref['addr']), 'big')
            got = call(netutils.get_ipv6_addr_by_EUI64, ptxt, mtxt)
            ok = got[0] == 'ok' and int(got[1]) == want
            if ok and counts['eui'] % 2:
                # the address object belongs to the caller: move it on (netaddr addresses are mutable), ask again
                try:
                    obj = got[1]
                    obj += 1
                except Exception:
                    pass
                got = call(netutils.get_ipv6_addr_by_EUI64, ptxt, mtxt)
                ok = got[0] == 'ok' and int(got[1]) == want
            if not ok:
                ctx.violation({'kind': 'eui64-address', 'plen': c['plen'], 'got': got[0]},
                              {'prefix': ptxt, 'mac': mtxt, 'expected': str(ipaddress.IPv6Address(want)), 'observed': str(got[1])},
                              'get_ipv6_addr_by_EUI64(%r, %r) -> %s %s, specification %s' % (
                                  ptxt, mtxt, got[0], got[1], ipaddress.IPv6Address(want)))
                continue
            given = netaddr.IPAddress(want)
            dialect = [None, netaddr.mac_cisco, netaddr.mac_bare, netaddr.mac_pgsql, netaddr.mac_eui48, netaddr.mac_unix][counts['eui'] % 6]
            back = call(netutils.get_mac_addr_by_ipv6, given) if dialect is None else call(netutils.get_mac_addr_by_ipv6, given, dialect)
            mwant = int.from_bytes(bytes(c['mac']), 'big')
            if int(given) != want:
                # the address handed in is the caller's: recovering the MAC from it does not change it
                ctx.violation({'kind': 'mac-recovery-changes-its-argument'}, {'address': str(ipaddress.IPv6Address(want)), 'after': str(given)},
                              'get_mac_addr_by_ipv6(%s) left its argument as %s' % (ipaddress.IPv6Address(want), given))
            if back[0] != 'ok' or int(back[1]) != mwant:
                ctx.violation({'kind': 'mac-recovery', 'got': back[0]},
                              {'address': str(ipaddress.IPv6Address(want)), 'expected_mac': '%012x' % mwant, 'observed': str(back[1])},
                              'get_mac_addr_by_ipv6(%s) -> %s, specification %012x' % (ipaddress.IPv6Address(want), back[1], mwant))
        elif k == 'err':
            p = {'v6': '2001:db8::/64', 'v4addr': '10.0.0.1', 'v4dotted_short': '10.1', 'garbage': 'not-a-prefix',
                 'empty': '', 'int': 5, 'none': None, 'bytes': b'2001:db8::/64',
                 'v6_overflow': 'ffff:ffff:ffff:ffff:ffff:ffff::/96'}[c['prefix']]
            m = {'ok': '00:16:3e:33:44:55', 'five_groups': '00:16:3e:33:44', 'garbage': 'zz:zz:zz:zz:zz:zz',
                 'empty': '', 'none': None}[c['mac']]
            got = call(netutils.get_ipv6_addr_by_EUI64, p, m)
            want = ref['outcome']
            ok = (got[0] == want) or (want == 'ValueErrorOrTypeError' and got[0] in ('ValueError', 'TypeError'))
            if not ok:
                ctx.violation({'kind': 'eui64-error-class', 'prefix': c['prefix'], 'mac': c['mac'], 'got': got[0]},
                              {'prefix': repr(p), 'mac': repr(m), 'expected': want, 'observed': got[0]},
                              'get_ipv6_addr_by_EUI64(%r, %r): %s, specification %s' % (p, m, got[0], want))
        elif k == 'hp':
            host = HOST[c['host']]
            esc = netutils.escape_ipv6(host)
            if (esc == '[%s]' % host) != ref['escaped'] or (esc != host and esc != '[%s]' % host):
                ctx.violation({'kind': 'escape_ipv6', 'host': c['host']}, {'host': host, 'observed': esc},
                              'escape_ipv6(%r) -> %r' % (host, esc))
            text = esc if c['port'] == 'absent' else '%s:%s' % (esc, c['port'])
            dflt = None if c['dflt'] == 'none' else ('5672' if c['dflt'] == 'str5672' else int(c['dflt']))
            got = call(netutils.parse_host_port, text, dflt)
            wp = ref['hp']['port']
            want = (host, None if wp == 'none' else (5672 if wp == 'str5672' else int(wp)))
            if c['port'] == 'absent' and c['host'] in ('name', 'fqdn', 'ipv4') or c['port'] != 'absent' or esc != host:
                if got != ('ok', want):
                    ctx.violation({'kind': 'parse_host_port', 'host': c['host'], 'port': c['port']},
                                  {'text': text, 'default': dflt, 'expected': want, 'observed': repr(got)},
                                  'parse_host_port(%r, %r) -> %s, specification %s' % (text, dflt, got, want))
        else:
            if quick and counts['url'] % 2:
                continue
            netloc = (c['user'] + '@' if c['user'] else '') + c['host'] + (':' + c['port'] if c['port'] else '')
            url = (c['scheme'] + ':' if c['scheme'] else '') + '//' + netloc + c['path']
            q = QUERY[c['query']]
            if q is not None:
                url += '?' + q
            fr = FRAG[c['frag']]
            if fr is not None:
                url += '#' + fr
            got = call(netutils.urlsplit, url, c['dscheme'], c['allow'])
            std = urllib.parse.urlsplit(url, c['dscheme'], c['allow'])
            if got[0] != 'ok':
                ctx.violation({'kind': 'urlsplit-raised', 'got': got[0]}, {'url': url}, 'urlsplit(%r) raised %s' % (url, got[0]))
                continue
            r = got[1]
            comp = {}
            for attr in ('scheme', 'netloc', 'path', 'query', 'fragment', 'hostname', 'port', 'username', 'password'):
                a, b = call(lambda: getattr(r, attr)), call(lambda: getattr(std, attr))
                if a != b:
                    comp[attr] = (a, b)
            # components the URL was built from (fragments allowed)
            built = {}
            if c['allow']:
                exp = {'scheme': c['scheme'] or c['dscheme'], 'netloc': netloc, 'path': c['path'],
                       'query': q or '', 'fragment': fr or ''}
                for kk, v in exp.items():
                    if getattr(r, kk) != v:
                        built[kk] = (getattr(r, kk), v)
            if comp or built:
                ctx.violation({'kind': 'urlsplit-components', 'attrs': sorted(set(comp) | set(built))},
                              {'url': url, 'allow_fragments': c['allow'], 'default_scheme': c['dscheme'],
                               'vs_stdlib': {a: [repr(x) for x in v] for a, v in comp.items()},
                               'vs_built': {a: list(v) for a, v in built.items()}},
                              'urlsplit(%r, %r, %s): differs on %s' % (url, c['dscheme'], c['allow'], sorted(set(comp) | set(built))))
            if c['allow'] or fr is None:
                for collapse, key in ((True, 'last'), (False, 'all')):
                    want = {}
                    for name in ('a', 'b'):
                        vals = ref[key][name]
                        if vals:
                            want[name] = vals[0] if len(vals) == 1 else (vals[-1] if collapse else list(vals))
                    gotp = call(r.params, collapse)
                    if gotp[0] == 'ok' and type(gotp[1]) is not dict:
                        ctx.beyond('Eui64', {'kind': 'params-container', 'type': type(gotp[1]).__name__},
                                   {'url': url, 'collapse': collapse, 'observed': repr(gotp[1])[:200]},
                                   'urlsplit(%r).params(collapse=%s) returns a %s, the module a plain dict (a missing name is a KeyError)' % (
                                       url, collapse, type(gotp[1]).__name__))
                    if gotp[0] == 'ok' and isinstance(gotp[1], dict) and gotp == ('ok', want):
                        # the caller owns the dict it gets: edit it, ask again (here and on a fresh result object)
                        gotp[1]['limit'] = 'added by the caller'
                        again = call(r.params, collapse)
                        fresh = call(netutils.urlsplit(url, c['dscheme'], c['allow']).params, collapse)
                        if again != ('ok', want) or fresh != ('ok', want):
                            gotp = again if again != ('ok', want) else fresh
                        else:
                            gotp = ('ok', want)
                    if gotp != ('ok', want):
                        ctx.violation({'kind': 'params', 'query': c['query'], 'collapse': collapse},
                                      {'url': url, 'expected': want, 'observed': repr(gotp)},
                                      'urlsplit(%r).params(collapse=%s) -> %s, specification %s' % (url, collapse, gotp, want))
    n = sum(counts.values())
    ctx.cov['evaluations'] += n
    ctx.cov['distinct_nontrivial'] += n
    if min(counts.values()) < 20:
        raise MachineryError('vacuity: %s' % counts)
    ctx.stage('replay', cases=counts)
    ctx.sample({'case': recs[0]})
    # random MACs / prefixes beyond the enumerated bytes: round trip only (gamma-level sampling)
    z = 0
    for j in range(3000 if quick else 100000):
        mac = bytes(rnd.getrandbits(8) for _ in range(6))
        net = bytes(rnd.getrandbits(8) for _ in range(8))
        plen = rnd.randint(0, 64)
        masked = (int.from_bytes(net, 'big') >> (64 - plen) << (64 - plen)) if plen else 0
        ptxt = '%s/%d' % (ipaddress.IPv6Address(net + bytes(8)), plen)
        got = call(netutils.get_ipv6_addr_by_EUI64, ptxt, ':'.join('%02x' % b for b in mac))
        z += 1
        iid = bytes([mac[0] ^ 2, mac[1], mac[2], 0xff, 0xfe, mac[3], mac[4], mac[5]])
        want = (masked << 64) | int.from_bytes(iid, 'big')
        if got[0] != 'ok' or int(got[1]) != want:
            ctx.violation({'kind': 'eui64-random', 'got': got[0]}, {'prefix': ptxt, 'mac': mac.hex(), 'observed': str(got[1])},
                          'get_ipv6_addr_by_EUI64(%r, %s) -> %s' % (ptxt, mac.hex(), got))
            continue
        back = call(netutils.get_mac_addr_by_ipv6, netaddr.IPAddress(want))
        if back[0] != 'ok' or int(back[1]) != int.from_bytes(mac, 'big'):
            ctx.violation({'kind': 'mac-recovery-random'}, {'mac': mac.hex(), 'observed': str(back[1])},
                          'get_mac_addr_by_ipv6 does not recover %s' % mac.hex())
    ctx.cov['evaluations'] += z
    ctx.stage('random-roundtrip', cases=z)
    _rec.__exit__()
    _rec.replay(ctx, 'c15')
    # binding self-test: a wrong bit flipped must be exposed
    a = int(netutils.get_ipv6_addr_by_EUI64('2001:db8::/64', '00:16:3e:33:44:55'))
    if (a >> 56) & 0xff != 0x02:
        raise MachineryError('binding self-test: unexpected reference value')
    ctx.stage('binding-selftest', ok=True)
    ctx.cov['rule'] = ('6 prefixes x 12 prefix lengths x 243 boundary-pattern MACs (byte-level TLA+ model) and random 48-bit MACs x '
                       'random prefixes <= /64; error classes for 8 prefix kinds x 5 MAC kinds; 15 host kinds x 5 ports x default; '
                       'URLs over 5 schemes x userinfo x 4 hosts x ports x paths x 6 query shapes x fragments x allow_fragments')
