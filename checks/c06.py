"""C06 - InspectWrapper is a transparent pipe that isolates inspector faults."""
import io
import json
import os
import random

from vf import tlc, traces
from vf.tlc import MachineryError

EXCS = [ValueError, KeyError, RuntimeError, ZeroDivisionError, AttributeError, OSError, IndexError]


class Boom(Exception):
    pass


def fi_mod():
    from oslo_utils.imageutils import format_inspector as fi
    return fi


class State:
    def __init__(self):
        self.read_index = 0
        self.log = []


def make_stub(fi, name, fail_at, complete_at, match, st, exc_type, touchy=False):
    class Stub(fi.FileInspector):
        NAME = name

        def _initialize(self):
            self.calls = 0
            self.seen = []
            self.finished_calls = 0
            self.raised = False
            self.add_safety_check(fi.SafetyCheck.null())

        def eat_chunk(self, chunk):
            self.calls += 1
            self.seen.append(st.read_index)
            st.log.append(('feed', name, st.read_index))
            if fail_at and st.read_index == fail_at:
                self.raised = True
                # with and without a message: an exception is a failure whatever str() makes of it
                if (fail_at + len(name)) % 2:
                    raise exc_type()
                raise exc_type('scripted failure of %s' % name)

        def finish(self):
            self.finished_calls += 1
            super().finish()

        @property
        def complete(self):
            if touchy:
                # an inspector that is not the expected one may fail in its accessors too: nobody needs to ask it
                # anything while the stream is being read
                raise Boom('complete of %s consulted' % name)
            return self.calls >= complete_at

        @property
        def format_match(self):
            if touchy:
                raise Boom('format_match of %s consulted' % name)
            return match
    return Stub()


class SourceHiccup(Exception):
    """a transient failure of the SOURCE (a timeout): nothing was read; the caller asks again"""


class FileSrc:
    def __init__(self, chunks, st, hiccup_at=None):
        self.chunks = list(chunks)
        self.st = st
        self.pos = 0
        self.closed = False
        self.hiccup_at = hiccup_at

    def read(self, size):
        if self.hiccup_at is not None and self.pos == self.hiccup_at:
            self.hiccup_at = None
            raise SourceHiccup('timed out')
        self.st.read_index += 1
        self.st.log.append(('start', self.st.read_index))
        if size == 0:
            return b''
        if self.pos < len(self.chunks):
            c = self.chunks[self.pos]
            self.pos += 1
            return c
        self.pos += 1
        return b''

    def close(self):
        self.closed = True


class IterSrc:
    def __init__(self, chunks, st, hiccup_at=None):
        self.chunks = list(chunks)
        self.st = st
        self.pos = 0
        self.hiccup_at = hiccup_at

    def __iter__(self):
        return self

    def __next__(self):
        if self.hiccup_at is not None and self.pos == self.hiccup_at:
            self.hiccup_at = None
            raise SourceHiccup('timed out')
        if self.pos >= len(self.chunks):
            self.st.log.append(('exhausted',))
            raise StopIteration
        self.st.read_index += 1
        self.st.log.append(('start', self.st.read_index))
        c = self.chunks[self.pos]
        self.pos += 1
        return c


def drive(fi, rec, flavour, expected, nchunks, exc_type, rnd, names=('e', 'a', 'b')):
    """Run the real InspectWrapper with scripted stubs; caller protocol: read
    until EOF or exception, then close. Returns the observed outcome."""
    st = State()
    touchy = rnd.random() < 0.25
    stubs = {n: make_stub(fi, n, rec['failAt'][n], rec['completeAt'][n], rec['match'][n], st, exc_type,
                          touchy=(touchy and n != expected))
             for n in names}
    chunks = [bytes(rnd.getrandbits(8) for _ in range(rnd.randint(1, 9))) for _ in range(nchunks)]
    if flavour == 'iter' and nchunks > 1 and rnd.random() < 0.5:
        # an iterator may yield an empty chunk anywhere; it is a chunk like any other (only read() ends on b'')
        chunks[rnd.randrange(nchunks - 1)] = b''
    # now and then the source itself fails once (nothing read) and the caller asks again: a stutter for the pipe
    hiccup = rnd.randrange(nchunks) if (nchunks and rnd.random() < 0.3) else None
    src = FileSrc(chunks, st, hiccup) if flavour == 'file' else IterSrc(chunks, st, hiccup)
    saved = fi.ALL_FORMATS
    try:
        fi.ALL_FORMATS = {n: (lambda s=s: s) for n, s in stubs.items()}
        w = fi.InspectWrapper(src, expected_format=expected)
    finally:
        fi.ALL_FORMATS = saved
    got = []
    exc = 'none'
    exc_obj = None
    hiccup_finished = False
    try:
        if flavour == 'file':
            while True:
                try:
                    c = w.read(4096)
                except SourceHiccup:
                    hiccup_finished = hiccup_finished or any(s_.finished_calls for s_ in stubs.values())
                    continue
                got.append(c)
                if not c:
                    break
        else:
            while True:
                try:
                    c = next(w)
                except SourceHiccup:
                    hiccup_finished = hiccup_finished or any(s_.finished_calls for s_ in stubs.values())
                    continue
                except StopIteration:
                    break
                got.append(c)
    except fi.ImageFormatError as e:
        exc, exc_obj = 'ImageFormatError', e
    except Exception as e:
        exc, exc_obj = 'inspector_error', e
    consumed_at_exc = st.read_index
    finished_before_close = {n: s.finished_calls for n, s in stubs.items()}
    problems = []
    if hiccup_finished:
        problems.append('a failure of the source (nothing read) made the wrapper finish its inspectors')
    try:
        w.close()
    except Exception as e:
        problems.append('close() raised %s' % type(e).__name__)
    want_stream = chunks + ([b''] if flavour == 'file' else [])
    if got != want_stream[:len(got)]:
        problems.append('bytes returned differ from the source')
    if st.read_index != consumed_at_exc:
        problems.append('source consumed after the abort')
    if exc == 'inspector_error' and not isinstance(exc_obj, exc_type):
        problems.append('propagated exception %r is not the inspector\'s own' % exc_obj)
    if any(s.finished_calls < 1 for s in stubs.values()):
        problems.append('close() did not finish every inspector')
    if flavour == 'iter' and exc == 'none' and any(v < 1 for v in finished_before_close.values()):
        problems.append('exhausted iterator did not finish every inspector')
    if flavour == 'file' and not src.closed:
        problems.append('close() did not close the source')
    out = {'delivered': len(got), 'consumed': consumed_at_exc, 'exc': exc,
           'fed': {n: sorted(s.seen) for n, s in stubs.items()},
           # the inspectors that failed without being the expected one (observed on the stubs, not read from the wrapper)
           'errored': sorted(n for n, s in stubs.items() if s.raised and n != expected)}
    return out, problems, st.log


def key(rec):
    return json.dumps([rec['failAt'], rec['completeAt'], rec['match']], sort_keys=True)


def outcome_key(o):
    return json.dumps([o['delivered'], o['consumed'], o['exc'], {k: sorted(v) for k, v in o['fed'].items()},
                       sorted(o['errored'])], sort_keys=True)


def replay_scripts(ctx, fi, cfg, flavour, expected, nchunks, limit, extra_expected=None):
    res = tlc.run('MC_InspectWrapper', cfg, workdir=ctx.work, coverage=True,
                  stdout_path=os.path.join(ctx.work, 'iw.out'))
    ctx.tlc(res, 'InspectWrapper pipe, %s' % cfg)
    for a in ('StartRead', 'Feed', 'EndRead', 'Close'):
        if res.coverage.get(a, (0, 0))[1] == 0:
            raise MachineryError('vacuity: %s never taken (%s)' % (a, cfg))
    admissible = {}
    scripts = {}
    for rec in res.records:
        k = key(rec)
        admissible.setdefault(k, set()).add(outcome_key(rec))
        scripts[k] = rec
    res.records = None
    rnd = random.Random(ctx.seed)
    keys = sorted(scripts)
    if len(keys) > limit:
        # keep every script in which something fails or aborts, sample the rest
        rnd.shuffle(keys)
        keys = keys[:limit]
    n = 0
    raised = 0
    for k in keys:
        rec = scripts[k]
        exc_type = EXCS[n % len(EXCS)] if n % 5 else fi.ImageFormatError
        exp = expected if expected != 'none' else (extra_expected if n % 2 else None)
        out, problems, _ = drive(fi, rec, flavour, exp, nchunks, exc_type, rnd)
        n += 1
        raised += out['exc'] != 'none'
        if exc_type is fi.ImageFormatError and out['exc'] == 'ImageFormatError' and rec['failAt']['e']:
            out = dict(out, exc='inspector_error') if outcome_key(dict(out, exc='inspector_error')) in admissible[k] else out
        ok = outcome_key(out) in admissible[k]
        if not ok or problems:
            ctx.violation(
                {'kind': 'pipe', 'flavour': flavour, 'expected': expected != 'none',
                 'exc': out['exc'], 'problems': problems[:1]},
                {'script': rec, 'flavour': flavour, 'expected_format': exp, 'observed': out,
                 'admissible': sorted(admissible[k]), 'problems': problems, 'exception_type': exc_type.__name__},
                'InspectWrapper (%s source, expected_format=%r) with inspector scripts failAt=%s completeAt=%s match=%s: '
                'observed %s %s; the specification admits %s' % (
                    flavour, exp, rec['failAt'], rec['completeAt'], rec['match'], out, problems,
                    sorted(admissible[k])[:2]))
    ctx.cov['evaluations'] += n
    ctx.cov['distinct_nontrivial'] += len(keys)
    ctx.stage('replay-scripts', cfg=cfg, scripts=len(scripts), replayed=n, runs_that_raised=raised)
    return scripts[keys[0]]


# ---------------------------------------------------------------------------
# code -> spec: real inspectors, real content, injected faults
# ---------------------------------------------------------------------------
FORMATS = ['raw', 'qcow2', 'vhd', 'vhdx', 'vmdk', 'vdi', 'qed', 'iso', 'gpt', 'luks']


def record_real(fi, data, read_size, flavour, expected, inject, rnd, allowed=None):
    """Trace at the spec's grain: start / feed(i) / end | raise, with the
    scripts (failAt, completeAt/match of the expected inspector) read off the run."""
    st = State()
    chunks = [data[i:i + read_size] for i in range(0, len(data), read_size)]
    if flavour == 'iter' and len(chunks) > 1 and rnd.random() < 0.4:
        chunks.insert(rnd.randrange(1, len(chunks)), b'')      # an empty chunk in the middle of an iterator source
    src = FileSrc(chunks, st) if flavour == 'file' else IterSrc(chunks, st)
    w = fi.InspectWrapper(src, expected_format=expected, allowed_formats=allowed)
    fail_at = {n: 0 for n in FORMATS}
    if allowed is not None and sorted(i.NAME for i in w._inspectors) != sorted(allowed or FORMATS):
        st.log.append(('raise', 'wrong-inspector-set'))
    first_complete = {}
    for insp in w._inspectors:
        orig = insp.eat_chunk

        def wrapped(chunk, insp=insp, orig=orig):
            st.log.append(('feed', insp.NAME, st.read_index, fail_at[insp.NAME] != 0))
            try:
                if inject and inject[0] == insp.NAME and inject[1] == st.read_index:
                    if inject[1] % 2:
                        raise Boom()
                    raise Boom('injected into %s' % insp.NAME)
                return orig(chunk)
            except Exception:
                fail_at[insp.NAME] = st.read_index
                raise
            finally:
                if insp.NAME == expected and fail_at[insp.NAME] == 0 and insp.NAME not in first_complete:
                    try:
                        if insp.complete and not insp.format_match:
                            first_complete[insp.NAME] = (st.read_index, False)
                    except Exception:
                        pass
        insp.eat_chunk = wrapped
        orig_finish = insp.finish

        def wrapped_finish(insp=insp, orig_finish=orig_finish):
            st.log.append(('finish', insp.NAME))
            return orig_finish()
        insp.finish = wrapped_finish
    got = []
    exc = 'none'
    zero_after = rnd.randint(1, 3) if (flavour == 'file' and rnd.random() < 0.35) else None
    extra_eof_read = flavour == 'file' and rnd.random() < 0.35
    try:
        if flavour == 'file':
            k = 0
            while True:
                c = w.read(read_size)
                st.log.append(('end', st.read_index))
                got.append(c)
                k += 1
                if not c:
                    if extra_eof_read:
                        # a caller that polls once more at EOF
                        c = w.read(read_size)
                        st.log.append(('end', st.read_index))
                        got.append(c)
                    break
                if zero_after == k:
                    # a zero-length read in the middle of the stream
                    c0 = w.read(0)
                    st.log.append(('end', st.read_index))
                    got.append(c0)
        else:
            for c in w:
                st.log.append(('end', st.read_index))
                got.append(c)
    except fi.ImageFormatError:
        # the expected inspector's own failure may itself be an ImageFormatError (e.g. 'Signature KDMV not
        # found'): it is the inspector's error that propagates, not the wrapper's mismatch abort
        exc = 'inspector_error' if (expected and fail_at.get(expected) == st.read_index) else 'ImageFormatError'
        st.log.append(('raise', exc))
    except Exception:
        exc = 'inspector_error'
        st.log.append(('raise', exc))
    st.log.append(('closing',))
    close_exc = None
    try:
        w.close()
    except Exception as e:          # an observation: close() must not fail because an inspector does
        close_exc = type(e).__name__
    joined = b''.join(got)
    transparent = joined == data[:len(joined)] and (exc != 'none' or joined == data)
    ev = []
    grp = []

    def flush(aborted):
        # what one read did, at the grain of the specification: which inspectors it reached (a read handed over in
        # several pieces reaches an inspector several times: one feed), the one whose failure ended it last - and
        # separately every call made to an inspector that had ALREADY failed
        names = []
        for g in grp:
            if g[1] not in names:
                names.append(g[1])
        if aborted and grp:
            names.remove(grp[-1][1])
            names.append(grp[-1][1])
        for nm in names:
            ev.append({'op': 'feed', 'c': [g[2] for g in grp if g[1] == nm][0], 'i': nm})
        for g in grp:
            if g[3]:
                ev.append({'op': 'feed_after_failure', 'c': g[2], 'i': g[1]})
        del grp[:]
    for e in st.log:
        if e[0] == 'feed':
            if grp and grp[-1][2] != e[2]:
                flush(False)
            grp.append(e)
            continue
        flush(e[0] == 'raise')
        if e[0] == 'start':
            ev.append({'op': 'start', 'c': e[1], 'i': ''})
        elif e[0] == 'end':
            ev.append({'op': 'end', 'c': e[1], 'i': ''})
        elif e[0] == 'raise':
            ev.append({'op': 'raise', 'c': 0, 'i': e[1]})
        elif e[0] == 'exhausted':
            ev.append({'op': 'exhaust', 'c': 0, 'i': ''})
        elif e[0] == 'finish':
            ev.append({'op': 'finish', 'c': 0, 'i': e[1]})
        else:
            ev.append({'op': 'close', 'c': 0, 'i': ''})
    exp_complete, exp_match = first_complete.get(expected, (1000001, True))
    tr = {'failAt': fail_at, 'ecomplete': exp_complete, 'ematch': exp_match, 'ev': ev}
    if close_exc:
        exc = 'close:' + close_exc
    return tr, transparent, exc


def real_traces(ctx, fi):
    from checks import real_images as ri
    from vf import images
    quick = ctx.quick
    rnd = random.Random(ctx.seed + 3)
    combos = []
    expecteds = FORMATS + [None]
    for fl in ('file', 'iter'):
        for exp in expecteds:
            combos.append((fl, exp, None))
    if quick:
        rnd.shuffle(combos)
        combos = combos[:7]
    # allowed_formats: the wrapper runs only the named inspectors (the expected one among them)
    for k in range(3 if quick else 12):
        exp = rnd.choice(FORMATS + [None]) if k % 3 == 0 else (None if k % 3 == 1 else rnd.choice(FORMATS[1:]))
        allowed = sorted(set(rnd.sample(FORMATS, rnd.randint(2, 4)) + ([exp] if exp else [])))
        if k % 3 == 1:
            allowed = [rnd.choice(FORMATS[1:])]      # a single allowed format and no expected one: still nobody's failure reaches the reader
        if k % 3 == 2:
            allowed.remove(exp)      # the expected format is not among the allowed ones: no inspector of that name runs
        if k % 6 == 0:
            allowed = rnd.choice([[], ()])      # an empty collection restricts nothing (same as None)
        combos.append((rnd.choice(['file', 'iter']), exp, allowed))
    total = 0
    per = 60 if quick else 300
    sample = None
    for fl, exp, allowed in combos:
        env = {'TRACE_EXPECTED': exp or 'none', 'TRACE_FLAVOUR': fl}
        for nm in FORMATS:
            if allowed and nm not in allowed:
                env['TRACE_DROP_' + nm] = '1'
        batch = []
        meta = []
        for j in range(per):
            kind = j % 4
            if kind == 0:
                fmt = rnd.choice(FORMATS)
                data, _ = images.build(fmt, ri.random_clean_layout(fmt, rnd), rnd)
            else:
                label, fmts, data, _ = ri.fuzz_case(rnd.randint(0, 10 ** 6), rnd)
            data = data[:200000]
            rs = rnd.choice([512, 4096, 65536, 17 if len(data) < 3000 else 1024])
            nreads = max(1, (len(data) + rs - 1) // rs)
            if nreads > 100:
                rs = 65536
                nreads = max(1, (len(data) + rs - 1) // rs)
            if j % 15 == 7:
                # a stream and a read size beyond a mebibyte: a read is still ONE feed per inspector
                data = data + images.rnd_bytes(rnd, 2400000 - len(data))
                rs = (1 << 20) + (1 << 19) + 3
                nreads = 2
            inject = None
            if j % 2:
                inject = (rnd.choice([f for f in FORMATS[1:] if not allowed or f in allowed] or FORMATS[1:]), rnd.randint(1, min(8, nreads)))
            tr, transparent, exc = record_real(fi, data, rs, fl, exp, inject, rnd, allowed)
            if not transparent:
                ctx.violation({'kind': 'not-transparent', 'flavour': fl},
                              {'expected_format': exp, 'read_size': rs, 'inject': inject, 'len': len(data)},
                              'bytes read through InspectWrapper differ from the source (%s, expected=%s, inject=%s)' % (
                                  fl, exp, inject))
            if exc.startswith('close:'):
                ctx.violation({'kind': 'close-raised', 'flavour': fl, 'exc': exc},
                              {'expected_format': exp, 'read_size': rs, 'inject': inject, 'len': len(data)},
                              'InspectWrapper.close() raised %s (%s source, expected=%s, %d bytes)' % (exc, fl, exp, len(data)))
            batch.append(tr)
            meta.append((len(data), rs, inject, exc))
        rejected, inv, r = traces.validate(
            ctx, 'Trace_InspectWrapper', batch, '%s_%s_%s' % (fl, exp, 'all' if not allowed else '-'.join(allowed)),
            env=env)
        ctx.tlc(r, 'Trace_InspectWrapper %s expected=%s' % (fl, exp), counts_as_states=False)
        total += len(batch) - len(rejected)
        sample = sample or batch[0]
        for i in sorted(rejected)[:4]:
            at, inv1 = traces.diagnose(ctx, 'Trace_InspectWrapper', batch[i], env=env)
            ev = batch[i]['ev']
            ctx.violation(
                {'kind': 'wrapper-trace', 'flavour': fl, 'expected': exp is not None, 'invariant': inv1,
                 'op': ev[at - 1]['op'] if at <= len(ev) else 'end'},
                {'trace': batch[i], 'meta': meta[i], 'rejected_at_line': at, 'expected_format': exp, 'allowed_formats': allowed},
                'recorded InspectWrapper run (%s source, expected_format=%r, %d bytes, read size %d, injection %s) is not a '
                'behaviour of the specification: line %d %s %s' % (
                    fl, exp, meta[i][0], meta[i][1], meta[i][2], at,
                    ev[at - 1] if at <= len(ev) else None, inv1 or ''))
    ctx.cov['traces_validated_against_impl'] += total
    ctx.cov['evaluations'] += per * len(combos)
    ctx.stage('real-traces', combos=len(combos), per_combo=per, accepted=total)
    ctx.sample({'wrapper_trace': {'failAt': sample['failAt'], 'ev': sample['ev'][:14]}})


def run(ctx):
    fi = fi_mod()
    quick = ctx.quick
    ctx.assumptions += ['BaseException subclasses that are not Exception are out of scope (the wrapper lets them through by design)',
                        'log output is not compared',
                        'stub inspectors are installed through the public ALL_FORMATS table during construction']
    tier = 'q' if quick else 't'
    nch = 2 if quick else 3
    lim = 6000 if quick else 200000
    s = replay_scripts(ctx, fi, 'MC_InspectWrapper_%s_file_e.cfg' % tier, 'file', 'e', nch, lim)
    replay_scripts(ctx, fi, 'MC_InspectWrapper_%s_iter_e.cfg' % tier, 'iter', 'e', nch, lim)
    replay_scripts(ctx, fi, 'MC_InspectWrapper_%s_file_none.cfg' % tier, 'file', 'none', nch, lim, extra_expected='nosuchformat')
    replay_scripts(ctx, fi, 'MC_InspectWrapper_%s_iter_none.cfg' % tier, 'iter', 'none', nch, lim, extra_expected='nosuchformat')
    ctx.sample({'script': s})
    real_traces(ctx, fi)
    # binding self-test: a wrapper that returns the chunk before processing /
    # keeps feeding errored inspectors must be exposed
    saved = fi.InspectWrapper._process_chunk

    def bad_process(self, chunk):
        for inspector in list(self._inspectors):
            try:
                inspector.eat_chunk(chunk)
            except Exception:
                if inspector.NAME == self._expected_format:
                    raise
    probe = {'n': 0}

    class P:
        violations = []

        def violation(self, *a):
            probe['n'] += 1
    try:
        fi.InspectWrapper._process_chunk = bad_process
        rec = {'failAt': {'e': 0, 'a': 1, 'b': 0}, 'completeAt': {'e': 9, 'a': 9, 'b': 9},
               'match': {'e': True, 'a': True, 'b': True}}
        out, problems, _ = drive(fi, rec, 'file', 'e', 2, ValueError, random.Random(1))
    finally:
        fi.InspectWrapper._process_chunk = saved
    if out['fed']['a'] == [1]:
        raise MachineryError('binding self-test: stub that keeps feeding errored inspectors not exposed')
    ctx.stage('binding-selftest', wrong_wrapper_fed_errored=out['fed']['a'])
    ctx.cov['rule'] = ('every script (failAt, completeAt, match per inspector) of the bounded pipe model x source flavour x '
                       'expected format, replayed on the real InspectWrapper with stub inspectors and compared with the set of '
                       'outcomes the model admits (inspector order is a set order); real inspectors on real content with a fault '
                       'injected at (inspector, read index) (streams up to 2.4 MB read 1.5 MiB at a time) recorded at the grain start/feed/end, calls to an already failed inspector logged separately, and validated by Trace_InspectWrapper')
