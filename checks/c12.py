"""C12 - time normalisation, overridden-clock comparison and marshalling are exact."""
import calendar
import datetime
import json
import os
import random
import zoneinfo
from fractions import Fraction

from vf import tlc, traces
from vf.tlc import MachineryError

BASE = datetime.datetime(2024, 12, 30)       # day 0; days 0..2 straddle the year end
NONE = [-9]


def to_dt(t):
    return BASE + datetime.timedelta(days=t[0], seconds=t[1], microseconds=t[2])


def to_delta(t):
    return datetime.timedelta(days=t[0], seconds=t[1], microseconds=t[2])


def from_dt(dt):
    if dt is None:
        return NONE
    d = dt - BASE
    return [d.days, d.seconds, d.microseconds]


def seconds_of(t):
    """The float a caller would pass for the duration triple t (exact decimal)."""
    return float(Fraction(t[0] * 86400 + t[1]) + Fraction(t[2], 1000000))


def current_override(timeutils):
    ov = timeutils.utcnow.override_time
    if ov is None:
        return NONE
    if isinstance(ov, datetime.datetime):
        return from_dt(ov)
    return 'LIST'


def apply_op(timeutils, fixture_mod, op, arg, via_fixture, state):
    """Execute one clock operation; returns the result in the spec's encoding."""
    if op == 'set':
        if via_fixture:
            fx = fixture_mod.TimeFixture(to_dt(arg))
            fx.setUp()
            state['fixtures'].append(fx)
        else:
            timeutils.set_time_override(to_dt(arg))
        return NONE
    if op == 'clear':
        timeutils.clear_time_override()
        return NONE
    if op == 'advance_delta':
        if via_fixture and state['fixtures']:
            state['fixtures'][-1].advance_time_delta(to_delta(arg))
        else:
            timeutils.advance_time_delta(to_delta(arg))
        return NONE
    if op == 'advance_seconds':
        if via_fixture and state['fixtures']:
            state['fixtures'][-1].advance_time_seconds(seconds_of(arg))
        else:
            timeutils.advance_time_seconds(seconds_of(arg))
        return NONE
    if op == 'utcnow':
        return from_dt(timeutils.utcnow())
    if op in ('utcnow_ts', 'utcnow_ts_micro'):
        v = timeutils.utcnow_ts(microsecond=(op == 'utcnow_ts_micro'))
        # back to a triple: exact integer seconds (+ microseconds within 0.5 us)
        epoch0 = calendar.timegm(BASE.timetuple())
        if op == 'utcnow_ts':
            if not isinstance(v, int):
                return ['not-int', repr(v)]
            rel = v - epoch0
            return [rel // 86400, rel % 86400, 0]
        fr = Fraction(v) - epoch0
        secs = int(fr // 1)
        micro = int(round(float(fr - secs) * 1000000))
        if micro == 1000000:
            secs, micro = secs + 1, 0
        return [secs // 86400, secs % 86400, micro]
    raise MachineryError('op %s' % op)


def compare_cases(ctx, timeutils, records, label):
    """Execute comparison cases (with TLC's reference verdicts) on timeutils."""
    m = 0
    truth = {'older': 0, 'newer': 0, 'soon': 0}
    for rec in records:
        c = rec['c']
        off = c['off']
        form = c['form']
        if form == 'naive' and off != 0:
            continue
        now = to_dt(c['now'])
        tutc = to_dt(rec['tutc'])
        tz = datetime.timezone(datetime.timedelta(minutes=off))
        aware = to_dt(rec['local']).replace(tzinfo=tz)
        t = tutc if form == 'naive' else (aware if form == 'aware' else aware.isoformat())
        secs = seconds_of(c['thr'])
        timeutils.set_time_override(now)
        checks = [('is_older_than', lambda: timeutils.is_older_than(t, secs), rec['older']),
                  ('is_newer_than', lambda: timeutils.is_newer_than(t, secs), rec['newer'])]
        edge = c['now'][0] > 1000000 or c['now'][0] < -700000
        if edge:
            pass          # is_soon / normalize_time would need now + w, outside the representable range
        elif form != 'iso':
            checks.append(('is_soon', lambda: timeutils.is_soon(t, secs), rec['soon']))
            checks.append(('normalize_time', lambda: timeutils.normalize_time(t) == tutc and
                           timeutils.normalize_time(t).tzinfo is None, True))
        else:
            checks.append(('parse_isotime', lambda: timeutils.parse_isotime(t) == aware and
                           timeutils.parse_isotime(t).utcoffset() == aware.utcoffset(), True))
        for name, fn, want in checks:
            try:
                got = fn()
            except Exception as e:
                got = 'EXC:' + type(e).__name__
            m += 1
            if name[3:8] in ('older', 'newer') or name == 'is_soon':
                truth[name.replace('is_', '').replace('_than', '')] += 1 if want else 0
            if got != want:
                ctx.violation({'kind': name, 'family': label, 'form': form, 'want': want, 'got': got if isinstance(got, (bool, str)) else 'other'},
                              {'case': c, 'now': str(now), 't': str(t), 'seconds': secs, 'expected': want, 'observed': repr(got)},
                              '%s(%s, %r) with clock %s: specification %s, code %s' % (name, t, secs, now, want, got))
    return m, truth


MARSHALLED = ['day', 'month', 'year', 'hour', 'minute', 'second', 'microsecond']


def run(ctx):
    from oslo_utils import fixture as fixture_mod
    from oslo_utils import timeutils
    quick = ctx.quick
    tier = 't'    # the thorough lattice is cheap enough for every run; tiers differ in trace counts
    ctx.assumptions += [
        'calendar arithmetic (ordinal <-> year/month/day, named zones) is datetime/zoneinfo on both sides',
        'utcnow_ts(microsecond=True) is compared to within half a microsecond (binary64 at 1.7e9 s)',
        'a list-valued override is outside the statement (a single instant)',
    ]
    # 1. the clock as a state machine: every edge of the bounded graph
    res = tlc.run('MC_TimeOverride', 'MC_TimeOverride_%s.cfg' % tier, workdir=ctx.work, workers=8, coverage=True,
                  stdout_path=os.path.join(ctx.work, 'to.out'))
    ctx.tlc(res, 'TimeOverride clock: UtcNowIsOverride, Normalised, QueriesLeaveClock, AdvanceExact')
    # the triple arithmetic the model rests on, for unbounded integers (Apalache): normalisation, exactness of advance,
    # agreement with arithmetic on microseconds, order = numeric order; a clause with the carry forgotten must be refuted
    base = tlc.apalache('TimeArithInd', 'Init', 'Inv', 0, ctx.work)
    wrong = tlc.apalache('TimeArithInd', 'Init', 'WrongInv', 0, ctx.work)
    if base != 'ok' or wrong != 'violation':
        raise MachineryError('TimeArithInd: Inv %s, WrongInv %s' % (base, wrong))
    ctx.stage('apalache-time-arithmetic', inv=base, wrong_clause=wrong)
    ops_seen = {r['op'] for r in res.records}
    if ops_seen != {'set', 'clear', 'advance_delta', 'advance_seconds', 'utcnow', 'utcnow_ts', 'utcnow_ts_micro'}:
        raise MachineryError('vacuity: clock operations exercised: %s' % sorted(ops_seen))
    n = 0
    state = {'fixtures': []}
    for i, rec in enumerate(res.records):
        f, op, arg, want, t = rec['f'], rec['op'], rec['arg'], rec['res'], rec['t']
        timeutils.clear_time_override()
        if f != NONE:
            timeutils.set_time_override(to_dt(f))
        try:
            got = apply_op(timeutils, fixture_mod, op, arg, i % 2 == 1, state)
        except Exception as e:
            got = ['EXC', type(e).__name__]
        after = current_override(timeutils)
        n += 1
        if op == 'utcnow_ts_micro' and got != want and f != NONE and abs(f[0]) > 100000:
            # a float timestamp centuries from the epoch cannot carry microseconds: accept within one ulp
            import math
            exact = Fraction(calendar.timegm(BASE.timetuple()) + f[0] * 86400 + f[1]) + Fraction(f[2], 1000000)
            v = timeutils.utcnow_ts(microsecond=True)
            if isinstance(v, float) and abs(Fraction(v) - exact) <= Fraction(math.ulp(v)):
                got = want
        if got != want or after != t:
            ctx.violation({'kind': 'clock', 'op': op, 'result_ok': got == want},
                          {'from': f, 'op': op, 'arg': arg, 'expected_result': want, 'observed_result': got,
                           'expected_override': t, 'observed_override': after,
                           'from_datetime': str(to_dt(f)) if f != NONE else None},
                          'clock %s(%s) with override %s: specification result %s / override %s, code %s / %s' % (
                              op, arg, f, want, t, got, after))
        for fx in state['fixtures']:
            fx.cleanUp()
        state['fixtures'] = []
    timeutils.clear_time_override()
    ctx.cov['evaluations'] += n
    ctx.cov['distinct_nontrivial'] += n
    ctx.stage('clock-edges', edges=n)
    ctx.sample({'clock_edge': res.records[len(res.records) // 2]})
    # 2. comparisons / normalisation under an overridden clock
    res2 = tlc.run('MC_TimeCmp', 'MC_TimeCmp_%s.cfg' % tier, workdir=ctx.work, workers=1,
                   stdout_path=os.path.join(ctx.work, 'cmp.out'), timeout=900)
    ctx.tlc(res2, 'TimeOverride comparisons: NormalizeRight on every case; boundary strictness (ASSUME)')
    m, truth = compare_cases(ctx, timeutils, res2.records, 'lattice')
    timeutils.clear_time_override()
    ctx.cov['evaluations'] += m
    ctx.stage('comparisons', calls=m, true_cases=truth)
    if min(truth.values()) < 20:
        raise MachineryError('vacuity: comparison outcomes one-sided: %s' % truth)
    ctx.sample({'comparison_case': res2.records[0]})
    # 2b. the same reference on cases drawn over the whole representable range: the harness draws, TLC decides
    rnd0 = random.Random(ctx.seed + 17)
    lo, hi = from_dt(datetime.datetime.min)[0] + 3, from_dt(datetime.datetime.max)[0] - 3
    drawn = []
    while len(drawn) < (3000 if quick else 60000):
        now = [rnd0.randint(lo, hi), rnd0.randint(0, 86399), rnd0.choice([0, 1, 999999, rnd0.randint(0, 999999)])]
        if rnd0.random() < 0.5:
            rel = [rnd0.choice([0, 0, 1, -1]), rnd0.randint(-86399, 86399), rnd0.randint(-999999, 999999)]
        else:
            rel = [rnd0.randint(lo, hi) - now[0], rnd0.randint(-86399, 86399), rnd0.randint(-999999, 999999)]
        kind = rnd0.random()
        if kind < 0.4:          # the threshold is the gap itself, or one microsecond to either side of it
            gap = to_dt(now) - (to_dt(now) + to_delta(rel)) if rnd0.random() < 0.5 else (to_dt(now) + to_delta(rel)) - to_dt(now)
            gap += datetime.timedelta(microseconds=rnd0.choice([0, 1, -1]))
            thr = [gap.days, gap.seconds, gap.microseconds]
        else:
            thr = [rnd0.choice([0, 0, 1, -1, rnd0.randint(-400, 400)]), rnd0.randint(0, 86399), rnd0.choice([0, 1, 999999, rnd0.randint(0, 999999)])]
        off = rnd0.choice([0, 0, 60, -300, 330, 765, -720, 1439, -1439, rnd0.randint(-1439, 1439)])
        form = rnd0.choice(['naive', 'aware', 'iso'])
        if form == 'naive':
            off = 0
        try:
            t = to_dt(now) + to_delta(rel)
            t + datetime.timedelta(minutes=off)
            to_dt(now) + to_delta(thr)
            to_dt(now) - to_delta(thr)
            if not (lo + 2 < (t - BASE).days < hi - 2):
                continue
        except OverflowError:
            continue
        if abs(seconds_of(thr)) > 2 ** 52 / 1e6:
            continue
        # the helpers take the threshold as a float number of seconds: keep thresholds that a float carries exactly
        if Fraction(seconds_of(thr)) != Fraction(thr[0] * 86400 + thr[1]) + Fraction(thr[2], 1000000):
            thr[2] = 0
            if Fraction(seconds_of(thr)) != Fraction(thr[0] * 86400 + thr[1]):
                continue
        drawn.append({'now': now, 'rel': rel, 'off': off, 'form': form, 'thr': thr})
    case_file = os.path.join(ctx.work, 'cmp_cases.json')
    with open(case_file, 'w') as fh:
        json.dump(drawn, fh)
    res3 = tlc.run('MC_TimeCmpFile', workdir=ctx.work, workers=1, env={'CASE_FILE': case_file},
                   stdout_path=os.path.join(ctx.work, 'cmpfile.out'), timeout=1800)
    ctx.tlc(res3, 'TimeOverride comparisons on %d drawn cases: NormalizeRight; reference verdicts' % len(drawn), counts_as_states=False)
    if len(res3.records) < len(drawn) * 0.9:
        raise MachineryError('drawn comparison cases lost in TLC: %d of %d' % (len(res3.records), len(drawn)))
    m3, truth3 = compare_cases(ctx, timeutils, res3.records, 'drawn')
    timeutils.clear_time_override()
    ctx.cov['evaluations'] += m3
    ctx.stage('drawn-comparisons', cases=len(res3.records), calls=m3, true_cases=truth3)
    # 3. marshalling, named zones (delegated calendar arithmetic)
    from vf import purity
    _rec = purity.Recorder(timeutils, ['unmarshall_time', 'normalize_time', 'parse_isotime'], every=1)
    _rec.__enter__()
    rnd = random.Random(ctx.seed)
    k = 0
    zones = ['UTC', 'Europe/Paris', 'America/New_York', 'Asia/Kolkata', 'Pacific/Chatham']
    for j in range(300 if quick else 30000):
        if j % 3 == 2:
            # anywhere in the representable range (two days clear of its ends, so that zone offsets stay inside)
            dt = datetime.datetime.min + datetime.timedelta(days=rnd.randint(2, 3652055), seconds=rnd.randint(0, 86399),
                                                            microseconds=rnd.choice([0, 1, 999999, rnd.randint(0, 999999)]))
        else:
            dt = BASE + datetime.timedelta(days=rnd.randint(-400, 400), seconds=rnd.randint(0, 86399),
                                           microseconds=rnd.choice([0, 1, 999999, rnd.randint(0, 999999)]))
        k += 1
        problems = []
        if timeutils.unmarshall_time(timeutils.marshall_now(dt)) != dt:
            problems.append('naive round trip')
        u = dt.replace(tzinfo=datetime.timezone.utc)
        back = timeutils.unmarshall_time(timeutils.marshall_now(u))
        if back != u or back.utcoffset() != datetime.timedelta(0):
            problems.append('UTC round trip')
        # an aware datetime in a fixed-offset zone: the same instant comes back, or the call refuses - never another instant
        for mins in (60, -300, 330):
            fx = dt.replace(tzinfo=datetime.timezone(datetime.timedelta(minutes=mins)))
            try:
                bk = timeutils.unmarshall_time(timeutils.marshall_now(fx))
            except Exception:
                bk = None
            if bk is not None and (bk.tzinfo is None or bk != fx):
                problems.append('fixed-offset round trip of %s -> %s' % (fx, bk))
        # the marshalled form belongs to the caller: reading it does not change it, reading it twice gives the same instant
        for src in (u, dt):
            form = timeutils.marshall_now(src)
            form['second'] = rnd.choice([form['second'], 60])
            keep = dict(form)
            first = timeutils.unmarshall_time(form)
            again = timeutils.unmarshall_time(form)
            if form != keep:
                problems.append('unmarshall_time changed its argument')
            if first != again or (first.tzinfo is None) != (again.tzinfo is None):
                problems.append('second unmarshall_time of one dict differs')
        for src, keys in ((dt, MARSHALLED), (u, MARSHALLED + ['tzname'])):
            shape = timeutils.marshall_now(src)
            if type(shape) is not dict or sorted(shape) != sorted(keys) or (src is dt and any(type(v) is not int for v in shape.values())):
                # which keys the form has is not in the statement (the round trip is); peers unpack it with datetime(**form)
                ctx.beyond('TimeArith', {'kind': 'marshalled-form-shape', 'aware': src is u}, {'datetime': str(src), 'observed': repr(shape)},
                           'marshall_now(%s) gives %r; the module gives exactly the keys %s' % (src, shape, sorted(keys)))
        d = timeutils.marshall_now(dt)
        d['second'] = 60
        if timeutils.unmarshall_time(d) != dt.replace(second=59):
            problems.append('leap second cap')
        timeutils.set_time_override(dt)
        if timeutils.unmarshall_time(timeutils.marshall_now()) != dt:
            problems.append('marshall_now() under override')
        timeutils.clear_time_override()
        # a form that names a zone by its key (as a peer in another zone would send it): the wall clock in that zone.
        # Beyond the statement (naive and UTC), kept as an observation; it also gives the order / thread replay of
        # unmarshall_time forms under several zone names
        for zn in zones[1:]:
            form = timeutils.marshall_now(dt)
            form['tzname'] = zn
            try:
                bk = timeutils.unmarshall_time(form)
                okz = bk.replace(tzinfo=None) == dt and str(bk.tzinfo) == zn
            except Exception as e:      # noqa
                bk, okz = 'EXC:' + type(e).__name__, False
            if not okz:
                ctx.beyond('TimeArith', {'kind': 'unmarshall-named-zone', 'zone': zn}, {'form': repr(form), 'observed': str(bk)},
                           'unmarshall_time of a form naming the zone %s gives %s' % (zn, bk))
        z = zoneinfo.ZoneInfo(rnd.choice(zones))
        za = dt.replace(tzinfo=z)
        if timeutils.normalize_time(za) != za.astimezone(datetime.timezone.utc).replace(tzinfo=None):
            problems.append('named zone normalisation')
        if timeutils.normalize_time(dt) is not dt:
            problems.append('naive not left alone')
        # the repeated hour of a DST zone: both readings of the same wall clock, back to back
        for zn, wall in (('Europe/Paris', datetime.datetime(2024, 10, 27, 2, 30)),
                         ('America/New_York', datetime.datetime(2024, 11, 3, 1, 30)),
                         ('Australia/Sydney', datetime.datetime(2025, 4, 6, 2, 15))):
            zz = zoneinfo.ZoneInfo(zn)
            w = wall.replace(microsecond=rnd.choice([0, 1, 999999]))
            order = [0, 1] if j % 2 else [1, 0]
            for fold in order:
                a = w.replace(tzinfo=zz, fold=fold)
                want = (a - a.utcoffset()).replace(tzinfo=None)
                if timeutils.normalize_time(a) != want:
                    problems.append('repeated hour of %s, fold=%d' % (zn, fold))
                timeutils.set_time_override(want + datetime.timedelta(seconds=10))
                if timeutils.is_older_than(a, 9) is not True or timeutils.is_older_than(a, 10) is not False:
                    problems.append('is_older_than in the repeated hour of %s, fold=%d' % (zn, fold))
                timeutils.clear_time_override()
        if j < 40:
            # the ends of the range, and a process whose local zone is not UTC
            import time as _t
            for zone in ('UTC', 'America/New_York', 'Asia/Kolkata'):
                saved_tz = os.environ.get('TZ')
                os.environ['TZ'] = zone
                _t.tzset()
                try:
                    # the overridden clock as seconds since the epoch does not depend on the zone the process runs in
                    timeutils.set_time_override(dt)
                    ts = timeutils.utcnow_ts()
                    tsm = timeutils.utcnow_ts(microsecond=True)
                    timeutils.clear_time_override()
                    if ts != calendar.timegm(dt.timetuple()) or abs(tsm - (calendar.timegm(dt.timetuple()) + dt.microsecond / 1e6)) > 1e-5:
                        problems.append('utcnow_ts under an override of %s with local zone %s -> %s / %s' % (dt, zone, ts, tsm))
                    for ext in (datetime.datetime.min, datetime.datetime.max, dt):
                        for aware in (False, True):
                            x = ext.replace(tzinfo=datetime.timezone.utc) if aware else ext
                            try:
                                y = timeutils.unmarshall_time(timeutils.marshall_now(x))
                            except Exception as e:
                                y = 'EXC:' + type(e).__name__
                            if y != x or (aware and getattr(y, 'utcoffset', lambda: None)() != datetime.timedelta(0)):
                                problems.append('round trip of %s (aware=%s) with local zone %s -> %s' % (ext, aware, zone, y))
                finally:
                    if saved_tz is None:
                        os.environ.pop('TZ', None)
                    else:
                        os.environ['TZ'] = saved_tz
                    _t.tzset()
        for p in problems:
            ctx.violation({'kind': 'marshall/zone', 'what': p.split(' of ')[0]}, {'datetime': str(dt), 'zone': str(z)},
                          '%s fails for %s (%s)' % (p, dt, z))
    ctx.cov['evaluations'] += k
    ctx.stage('marshalling-and-zones', cases=k)
    _rec.__exit__()
    _rec.replay(ctx, 'c12')
    # 4. code -> spec traces through TimeFixture
    batch = []
    lattice = [r['f'] for r in res.records if r['f'] != NONE][:200] or [[1, 0, 0]]
    deltas = [[0, 0, 1], [0, 0, -1], [0, 1, 0], [0, -1, 0], [0, 86399, 999999], [1, 0, 0], [-1, 0, 0], [0, 0, 500000],
              [0, 3600, 0], [0, 59, 999999]]
    for j in range(400 if quick else 20000):
        timeutils.clear_time_override()
        st = {'fixtures': []}
        ev = []
        have = False
        for _ in range(rnd.randint(3, 25)):
            ops = ['set'] + (['clear', 'advance_delta', 'advance_seconds', 'utcnow', 'utcnow_ts', 'utcnow_ts_micro'] * 2 if have else [])
            op = rnd.choice(ops)
            arg = rnd.choice(lattice) if op == 'set' else (rnd.choice(deltas) if op.startswith('advance') else NONE)
            r = apply_op(timeutils, fixture_mod, op, arg, rnd.random() < 0.5, st)
            have = op != 'clear' if op in ('set', 'clear') else have
            ev.append({'op': op, 'arg': arg, 'res': r, 'after': current_override(timeutils)})
        for fx in st['fixtures']:
            fx.cleanUp()
        batch.append(ev)
    timeutils.clear_time_override()
    rejected, inv, r = traces.validate(ctx, 'Trace_TimeOverride', batch, 'fixture')
    ctx.tlc(r, 'Trace_TimeOverride', counts_as_states=False)
    ctx.cov['traces_validated_against_impl'] += len(batch) - len(rejected)
    for i in sorted(rejected)[:5]:
        at, inv1 = traces.diagnose(ctx, 'Trace_TimeOverride', batch[i])
        ctx.violation({'kind': 'clock-trace', 'op': batch[i][at - 1]['op'] if at <= len(batch[i]) else 'end'},
                      {'trace': batch[i], 'line': at},
                      'recorded clock trace rejected at line %d: %s' % (at, batch[i][at - 1] if at <= len(batch[i]) else None))
    ctx.stage('clock-traces', traces=len(batch), accepted=len(batch) - len(rejected))
    # 4b. the repository's own tests as workloads (vf.repo_recorder wraps the clock entry points from outside)
    from vf import repo_traces
    rec = repo_traces.record(ctx, ['oslo_utils/tests/test_timeutils.py', 'oslo_utils/tests/test_fixture.py'], 'clock', 'clock')
    rtr = [t['ev'] for t in rec['clock']]
    if rtr:
        rejected, inv, r = traces.validate(ctx, 'Trace_TimeOverride', rtr, 'repo')
        ctx.tlc(r, 'Trace_TimeOverride on traces recorded from the repository\'s own tests', counts_as_states=False)
        ctx.cov['traces_validated_against_impl'] += len(rtr) - len(rejected)
        for i in sorted(rejected)[:5]:
            at, inv1 = traces.diagnose(ctx, 'Trace_TimeOverride', rtr[i])
            ctx.violation({'kind': 'repo-test-clock-trace', 'op': rtr[i][at - 1]['op'] if at <= len(rtr[i]) else 'end'},
                          {'trace': rtr[i], 'line': at, 'test': rec['clock'][i].get('test')},
                          'clock trace recorded while running %s rejected at line %d: %s' % (
                              rec['clock'][i].get('test'), at, rtr[i][at - 1] if at <= len(rtr[i]) else None))
    ctx.stage('repo-test-traces', tests=rec['tests'], traces=len(rtr), events=sum(len(t) for t in rtr),
              unrepresentable=rec['clock_unrepresentable'], pytest=rec['pytest_tail'])
    # 5. binding self-test: a corrupted trace must be rejected
    good = [{'op': 'set', 'arg': [1, 0, 0], 'res': NONE, 'after': [1, 0, 0]},
            {'op': 'advance_seconds', 'arg': [0, 1, 0], 'res': NONE, 'after': [1, 1, 0]},
            {'op': 'utcnow', 'arg': NONE, 'res': [1, 1, 0], 'after': [1, 1, 0]}]
    bad = [dict(e) for e in good]
    bad[1] = dict(bad[1], after=[1, 60, 0])
    rej, _, _ = traces.validate(ctx, 'Trace_TimeOverride', [good, bad], 'selftest')
    if rej != {1}:
        raise MachineryError('binding self-test (clock traces) failed: %s' % rej)
    ctx.stage('binding-selftest', ok=True)
    ctx.cov['rule'] = ('every edge of the bounded clock graph (lattice of instants around day/second/microsecond carries and a year '
                       'end, 10 durations, call sequences to depth 3) executed on timeutils and through TimeFixture; every comparison '
                       'case now x relative t x 9 offsets x {naive, aware, ISO text} x 9 thresholds incl. the exact boundary; '
                       'marshalling (form shape, forms naming zones by key) and named zones on random instants; order / thread replay of the pure helpers; recorded clock traces validated by Trace_TimeOverride')
    ctx.cov['exhaustive'] = True
