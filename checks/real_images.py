"""Real-scale stage shared by C01 / C02 / C05 / C07.

TLC enumerates the layout families of spec/ImageRef.tla, checks the
model-level clauses and exports (layout, Ref(layout)); gamma (lib/vf/images.py)
builds the bytes; the real inspectors are run under many chunkings and
compared (a) with each other -- agreement oracle, needs no knowledge of the
format -- and (b) with the exported reference verdict.
"""
import multiprocessing
import os
import random

from vf import tlc
from vf.tlc import MachineryError

KiB = 1024


def export_layouts(ctx):
    res = tlc.run('MC_ImageRef', workdir=ctx.work, workers=1,
                  stdout_path=os.path.join(ctx.work, 'imageref.out'))
    if len(res.records) < 5000:
        raise MachineryError('layout export too small: %d' % len(res.records))
    ctx.tlc(res, 'ImageRef: layout families, FailClosed/CleanAccepted/... on every layout')
    return res.records


def size_value(sz, length):
    from vf import images
    k = sz['k']
    if k == 'zero':
        return 0
    if k == 'tok':
        return images.tok(sz['t'])
    if k == 'len':
        return length
    if k == 'x512':
        return images.tok(sz['t']) * 512
    if k == 'mul':
        return images.tok(sz['a']) * images.tok(sz['b'])
    if k == 'len_minus_x512':
        return length - images.tok(sz['t']) * 512
    raise MachineryError('size kind %r' % k)


FOOTER_PERT = {
    'none': {}, 'sig': {'sig': b'KDMW'}, 'ver': {'ver': 2}, 'desc_sec': {'desc_sec': 2},
    'desc_num': {'desc_num': 21}, 'gd_at_end': {'gd_at_end': True}, 'm_size': {'m_size': 1},
    'm_type': {'m_type': 0}, 'm_pad': {'m_pad': False}, 'e_val': {'e_val': 1},
    'e_size': {'e_size': 1}, 'e_type': {'e_type': 1}, 'e_pad': {'e_pad': False},
    'm_val': {'m_val': 5},
}
DESC_BYTES = {'0': 0, '1': 512, '20': 10240, '2047': 2047 * 512}


def gamma(L):
    """abstract layout (TLC record) -> (builder name, builder layout)"""
    fmt = L['fmt']
    B = dict(L)
    if fmt == 'vhdx':
        for k in ('rcount', 'mcount'):
            if B[k] == -1:
                B[k] = None
        if B['total'] == -1:
            B['total'] = B['meta_off'] + B['item_off'] + 8 + 4096
        from vf import images as _im
        B['item_len'] = _im.tok(B['item_len']) & 0xffffffff
    elif fmt == 'vmdk':
        f = B['footer']
        B['footer'] = dict(FOOTER_PERT[f['pert']]) if f['present'] else None
        dsize = DESC_BYTES.get(B['desc_num'], (1 << 20) - 1)
        if B['total'] == -1:
            B['total'] = 512 + max(dsize, 512) + 2048 + (1536 if f['present'] else 0)
    elif fmt == 'qcow2':
        B['version'] = B['version']
    return fmt, B


def schedules(n, bounds, rnd, deep):
    """A list of chunkings (lists of chunk lengths summing to n)."""
    out = []
    if n == 0:
        return [[], [0], [0, 0]]

    def by_size(sz):
        q, r = divmod(n, sz)
        return [sz] * q + ([r] if r else [])

    def by_cuts(cuts):
        cuts = sorted(c for c in set(cuts) if 0 < c < n)
        prev = 0
        parts = []
        for c in cuts:
            parts.append(c - prev)
            prev = c
        parts.append(n - prev)
        return parts
    out.append([n])
    sizes = [512, 4096, 65536, 1 << 20]
    if n <= 40000:
        sizes.append(17)
    for sz in sizes:
        if sz < n:
            out.append(by_size(sz))
    if n <= (70000 if deep else 2100):
        out.append([1] * n)
    bs = [b for b in bounds if 0 < b < n]
    for b in bs:
        for d in (-1, 0, 1):
            out.append(by_cuts([b + d]))
    pairs = [(a, b) for i, a in enumerate(bs) for b in bs[i + 1:]]
    rnd.shuffle(pairs)
    for a, b in pairs[:(12 if deep else 4)]:
        out.append(by_cuts([a + rnd.choice((-1, 0, 1)), b + rnd.choice((-1, 0, 1))]))
    if bs:
        out.append(by_cuts(bs))
        out.append(by_cuts([b + 1 for b in bs]))
        out.append(by_cuts([b - 1 for b in bs]))
    for _ in range(4 if deep else 2):
        k = rnd.randint(1, 6)
        out.append(by_cuts([rnd.randint(1, n - 1) for _ in range(k)] if n > 1 else []))
    # empty chunks interleaved
    base = rnd.choice(out)
    e = []
    for p in base:
        if rnd.random() < 0.3:
            e.append(0)
        e.append(p)
    e.append(0)
    out.append([0] + e)
    seen = set()
    uniq = []
    for s in out:
        t = tuple(s)
        if t not in seen:
            seen.add(t)
            uniq.append(s)
    return uniq


def norm(v, err):
    if err:
        return ('rejected', None, None, None, None)
    return (v[0], v[1], v[2], v[3], tuple(v[4]))


def describe(sched):
    if isinstance(sched, dict):
        return sched
    if len(sched) > 12:
        return {'n_chunks': len(sched), 'head': sched[:6], 'tail': sched[-3:]}
    return sched


def check_image(fmt, data, bounds, ref, rnd, deep, wrapper=True, query=True):
    """Runs one image under all schedules. Returns dict with findings."""
    from vf import insp
    from oslo_utils.imageutils import format_inspector as fi
    cls = fi.ALL_FORMATS['vmdk' if fmt == 'vmdk_text' else fmt]
    res = {'runs': 0, 'problems': [], 'retained_max': 0, 'verdicts': {}}
    scheds = schedules(len(data), bounds, rnd, deep)
    first = None
    # one of the chunkings is also presented the way a readinto() loop would: memoryviews of one reused buffer
    view_of = min(2, len(scheds) - 1)
    runs = [(si, sched, False) for si, sched in enumerate(scheds)] + [(view_of, scheds[view_of], True)]
    for si, sched, as_view in runs:
        q = range(0, len(sched), max(1, len(sched) // 7)) if (query and si % 2 == 0) else ()
        r = insp.run(cls, data, sched, query_at=q, as_view=as_view)
        if as_view:
            sched = {'memoryview_chunks_of': describe(sched)}
        res['runs'] += 1
        res['retained_max'] = max(res['retained_max'], r['retained_max'])
        got = norm(r['verdict'], r['err'])
        res['verdicts'].setdefault(got, describe(sched))
        if r['unfaithful']:
            res['problems'].append(('unfaithful', describe(sched), r['unfaithful'][:2], None))
        if r['err'] is not None and r['err'] != 'ImageFormatError':
            res['problems'].append(('exception', describe(sched), r['err'] + ': ' + str(r['err_msg']), None))
        if ref is not None:
            want_sz = size_value(ref['size'], len(data))
            want = (ref['safety'], ref['match'], ref['complete'], want_sz, tuple(sorted(ref['fails'])))
            raised_ref = (ref['safety'] == 'rejected' and not ref['match'] and not ref['complete']
                          and ref['size']['k'] == 'zero')
            if r['err'] is not None:
                # the inspector raised: one class with "refused"; nothing else compared
                ok = (want[0] == 'rejected')
            elif raised_ref:
                # reference says the parser gives up; refusing without raising is the same class
                ok = (got[0] == 'rejected')
            else:
                ok = (got == want)
            if not ok:
                res['problems'].append(('reference', describe(sched), got, want))
    # agreement: one class; among runs that did not raise, one tuple
    classes = {v[0] for v in res['verdicts']}
    full = {v for v in res['verdicts'] if v[1] is not None}
    if len(classes) > 1 or len(full) > 1:
        res['problems'].append(('agreement', None,
                                [(list(v), s) for v, s in res['verdicts'].items()], None))
    res['verdicts'] = [(list(k), v) for k, v in res['verdicts'].items()]
    return res


def _job(args):
    recs, seed, deep = args
    import logging
    logging.disable(logging.CRITICAL)
    from vf import images
    out = []
    for idx, rec in recs:
        rnd = random.Random(seed * 1000003 + idx)
        fmt, B = gamma(rec['L'])
        data, bounds = images.build(fmt, B, rnd)
        if B.get('total') is not None and len(data) != B['total']:
            out.append((idx, {'runs': 0, 'problems': [('builder', None, (len(data), B['total']), None)],
                              'retained_max': 0, 'verdicts': []}, len(data)))
            continue
        r = check_image(fmt, data, bounds, rec['ref'], rnd, deep)
        out.append((idx, r, len(data)))
    return out


def select(records, per_fmt, rnd, always=lambda rec: False):
    """Bounded selection per format: all layouts when few, else a seeded sample
    that always keeps the layouts selected by `always`."""
    by = {}
    for i, rec in enumerate(records):
        by.setdefault(rec['L']['fmt'], []).append((i, rec))
    chosen = []
    for fmt, lst in sorted(by.items()):
        cap = per_fmt.get(fmt, per_fmt.get('*', len(lst)))
        # small families that exist for one mechanism each are never sampled away
        special = lambda rec: rec['L'].get('fill') == 'exact'
        keep = [x for x in lst if always(x[1]) or special(x[1])]
        rest = [x for x in lst if not (always(x[1]) or special(x[1]))]
        if len(keep) + len(rest) > cap:
            rnd.shuffle(rest)
            rest = rest[:max(0, cap - len(keep))]
        chosen += keep + rest
    return chosen


def run_layouts(ctx, chosen, deep, handler):
    """Run the chosen (idx, rec) layouts in a process pool; handler(rec, result, size)."""
    jobs = []
    # big images last and in small batches
    per = 24
    for i in range(0, len(chosen), per):
        jobs.append((chosen[i:i + per], ctx.seed, deep))
    runs = 0
    byidx = dict(chosen)
    with multiprocessing.Pool(16) as pool:
        for out in pool.imap_unordered(_job, jobs):
            for idx, r, size in out:
                runs += r['runs']
                handler(byidx[idx], r, size)
    return runs


# ---------------------------------------------------------------------------
# Agreement-only drivers: images outside the reference families
# ---------------------------------------------------------------------------
SIGS = {
    'qcow2': (0, b'QFI\xfb'), 'qed': (0, b'QED\x00'), 'vhd': (0, b'conectix'),
    'vhdx': (0, b'vhdxfile'), 'vmdk': (0, b'KDMV'), 'vdi': (0x40, b'\x7f\x10\xda\xbe'),
    'iso': (32769, b'CD001'), 'gpt': (510, b'\x55\xaa'), 'luks': (0, b'LUKS\xba\xbe'),
}
FORMATS = ['qcow2', 'qed', 'vhd', 'vdi', 'iso', 'gpt', 'luks', 'raw', 'vhdx', 'vmdk']


def random_clean_layout(fmt, rnd):
    if fmt == 'vhdx':
        return {'meta_off': rnd.choice([256, 257, 320, 512, 1024]) * KiB,
                'item_off': rnd.choice([64 * KiB, 64 * KiB + 8, 96 * KiB, 200 * KiB]),
                'rpad': rnd.choice([0, 0, 1, 5, 100, 2046]), 'mpad': rnd.choice([0, 0, 1, 7, 300, 2046]),
                'size': rnd.choice(['1', '10G', '2^40', '2^63', '2^64-1'])}
    if fmt == 'vmdk':
        return {'desc_num': rnd.choice(['1', '20', '20', '2047']),
                'footer': rnd.choice([None, None, {}]), 'ver': rnd.choice([1, 2, 3]),
                'sectors': rnd.choice(['1', '2048', '2^32'])}
    if fmt == 'qcow2':
        return {'version': rnd.choice(['2', '3']), 'feat': rnd.choice([[], [0], [1, 3]]),
                'total': rnd.choice([512, 600, 4096, 70000])}
    if fmt == 'iso':
        return {'sig': rnd.choice(['CD001', 'NSR02', 'NSR03']), 'total': rnd.choice([34816, 35328, 100000])}
    if fmt == 'gpt':
        return {'entries': [{'boot': rnd.choice(['00', '80']), 'type': 'EE'}, {}, {}, {}],
                'total': rnd.choice([512, 2048, 70000])}
    if fmt == 'raw':
        return {'kind': rnd.choice(['zero', 'random', 'text']), 'total': rnd.choice([0, 1, 600, 70000])}
    return {'total': rnd.choice([512, 600, 4096, 70000]) if fmt != 'luks' else rnd.choice([592, 4096, 70000])}


def fuzz_case(i, rnd):
    """-> (label, [inspector formats to run], data, bounds)"""
    from vf import images
    kind = ['mutated', 'truncated', 'extended', 'polyglot', 'unstructured', 'vmdk_text',
            'vmdk_short_footer', 'mutated', 'mutated', 'truncated'][i % 10]
    fmt = rnd.choice(['vhdx', 'vmdk', 'vhdx', 'vmdk'] + FORMATS)
    if kind in ('mutated', 'truncated', 'extended'):
        lay = random_clean_layout(fmt, rnd)
        data, bounds = images.build(fmt, lay, rnd)
        data = bytearray(data)
        label = {'kind': kind, 'fmt': fmt, 'layout': lay}
        if kind == 'mutated':
            spots = [b for b in bounds if b < len(data)] or [0]
            muts = []
            for _ in range(rnd.randint(1, 6)):
                base = rnd.choice(spots + [0, 4, 8, 16, 64])
                pos = max(0, min(len(data) - 1, base + rnd.randint(-40, 40))) if data else 0
                if data:
                    val = rnd.choice([0, 1, 0xff, 0x80, rnd.getrandbits(8)])
                    data[pos] = val
                    muts.append((pos, val))
            label['mutations'] = muts
        elif kind == 'truncated':
            cut = rnd.choice([b + d for b in bounds for d in (-1, 0, 1)] + [rnd.randint(0, max(0, len(data)))])
            cut = max(0, min(len(data), cut))
            data = data[:cut]
            label['cut'] = cut
        else:
            data += images.rnd_bytes(rnd, rnd.choice([1, 511, 512, 4097]))
        others = rnd.sample([f for f in FORMATS if f != fmt], 2)
        return label, [fmt] + others, bytes(data), bounds
    if kind == 'polyglot':
        a = rnd.choice(FORMATS)
        b = rnd.choice([f for f in SIGS if f != a])
        data, bounds = images.build(a, random_clean_layout(a, rnd), rnd)
        data = bytearray(images.pad_to(data, 35328, rnd, None))
        off, sig = SIGS[b]
        data[off:off + len(sig)] = sig
        return {'kind': kind, 'base': a, 'overlay': b}, [a, b], bytes(data), bounds + [off, off + len(sig)]
    if kind == 'unstructured':
        n = rnd.choice([0, 1, 3, 63, 64, 65, 511, 512, 513, 591, 592, 2048, 34816, 70000, 300000])
        k = rnd.choice(['zero', 'random', 'text', 'text_late_nonascii'])
        if k == 'zero':
            data = bytes(n)
        elif k == 'random':
            data = images.rnd_bytes(rnd, n)
        else:
            data = bytearray((b'lorem ipsum dolor sit amet, consectetur\n' * (n // 40 + 1))[:n])
            if k == 'text_late_nonascii' and n > 70:
                data[rnd.randint(64, n - 1)] = 0xe9
            data = bytes(data)
        return {'kind': kind, 'bg': k, 'n': n}, rnd.sample(FORMATS, 4) + ['vmdk'], data, [64, 512, 592]
    if kind == 'vmdk_text':
        lines = ['comment', 'version', 'cid', 'parent', rnd.choice(['ct_mono', 'ct_stream', 'ct_flat', 'ct_vmfs']),
                 'blank', rnd.choice(['extent_rw', 'extent_path', 'junk']), 'blank', 'ddb']
        data, bounds = images.build('vmdk_text', {'lines': lines, 'total': rnd.choice([None, 100, 600, 798, 5000])}, rnd)
        return {'kind': kind, 'lines': lines, 'n': len(data)}, ['vmdk'], data, bounds
    # vmdk announcing a footer on a stream shorter than 64 + 1536 bytes
    data, bounds = images.build('vmdk', {'desc_num': '1', 'footer': {}}, rnd)
    cut = rnd.choice([1536, 1540, 1598, 1599, 1600, 1200])
    return {'kind': kind, 'cut': cut}, ['vmdk'], data[:cut], bounds + [cut - 1536 if cut > 1536 else 1]


def vmdk_mode(data):
    import struct
    if not data.startswith(b'KDMV'):
        return 'text', False
    short = False
    if len(data) >= 64:
        gd = struct.unpack('<Q', data[56:64])[0]
        short = gd == 0xffffffffffffffff and len(data) < 1599
    return 'sparse', short


def _fuzz_job(args):
    start, count, seed, deep = args
    import logging
    logging.disable(logging.CRITICAL)
    out = []
    for i in range(start, start + count):
        rnd = random.Random(seed * 7919 + i)
        label, fmts, data, bounds = fuzz_case(i, rnd)
        for fmt in fmts:
            r = check_image(fmt, data, bounds, None, rnd, deep)
            extra = {}
            if fmt == 'vmdk':
                mode, short = vmdk_mode(data)
                extra = {'mode': mode, 'footer_short': short}
            out.append((i, label, fmt, len(data), r, extra))
    return out


def run_fuzz(ctx, count, deep, handler):
    per = 10
    jobs = [(s, min(per, count - s), ctx.seed, deep) for s in range(0, count, per)]
    runs = 0
    with multiprocessing.Pool(16) as pool:
        for out in pool.imap_unordered(_fuzz_job, jobs):
            for i, label, fmt, size, r, extra in out:
                runs += r['runs']
                handler(i, label, fmt, size, r, extra)
    return runs


# ---------------------------------------------------------------------------
# The same bytes through InspectWrapper (all inspectors at once)
# ---------------------------------------------------------------------------
def wrapper_outcome(data, read_size, allowed=None, sample_each=False, expected=None):
    """Read data through InspectWrapper with a fixed read size, close, and
    report what it concludes. Returns (outcome tuple, errored names, history)."""
    import io
    from vf import insp
    from oslo_utils.imageutils import format_inspector as fi
    src = io.BytesIO(data)
    w = fi.InspectWrapper(src, allowed_formats=allowed, **({'expected_format': expected} if expected else {}))
    history = []
    k = 0
    while True:
        try:
            chunk = w.read(read_size)
        except Exception as e:
            if not expected:
                raise
            # with an expected format the stream may legitimately be cut off: what is concluded is the exception
            return ('ABORT:' + type(e).__name__, None), [], history
        k += 1
        if sample_each:
            history.append(insp.safe(lambda: None if w.format is None else str(w.format)))
            if k in (1, 3):
                # an empty chunk in the middle of the stream must not change anything
                try:
                    w.read(0)
                except Exception as e:
                    history.append('EXC:' + type(e).__name__)
        if not chunk:
            break
    w.close()
    errored = sorted(str(i) for i in getattr(w, '_errored_inspectors', ()))      # diagnostics only
    try:
        fs = w.formats
        names = None if fs is None else sorted(str(f) for f in fs)
        if expected and fs is not None:
            # with several formats in play: what each of them reports (a byte-counting format must have counted every byte)
            names = sorted('%s:%s:%s' % (str(f), insp.safe(lambda f=f: f.virtual_size), insp.safe(lambda f=f: bool(f.complete))) for f in fs)
    except Exception as e:
        names = 'EXC:' + type(e).__name__
    try:
        f = w.format
        if f is None:
            one = None
        else:
            sc, fails = insp.safety_outcome(f)
            one = (str(f), sc, tuple(fails), insp.safe(lambda: bool(f.complete)),
                   insp.safe(lambda: f.virtual_size), insp.safe(lambda: f.actual_size))
    except Exception as e:
        one = 'EXC:' + type(e).__name__
    return (tuple(names) if isinstance(names, list) else names, one), errored, history


def check_wrapper(data, rnd):
    sizes = [512, 4096, 65536, 1 << 20]
    if len(data) <= 40000:
        sizes.append(17)
    if len(data) <= 3000:
        sizes.append(1)
    sizes.append(rnd.randint(1, max(2, len(data))) if len(data) > 1 else 1)
    if len(data) > (1 << 20):
        # reads larger than any buffer the wrapper may have: the whole of what was read reaches the inspectors
        sizes += [(1 << 20) + (1 << 19) + 1, 1 << 23]
        sizes.remove(512)
    seen = {}
    errored_any = set()
    for k, sz in enumerate(sizes):
        # every other pass also asks for the decision after each read: queries made in
        # between must not change what is concluded at the end
        out, errored, _ = wrapper_outcome(data, sz, sample_each=(k % 2 == 1))
        errored_any |= set(errored)
        seen.setdefault(out, sz)
        if sz in (4096, 65536):
            out2, errored2, _ = wrapper_outcome(data, sz, sample_each=(k % 2 == 0))
            seen.setdefault(out2, -sz)
    # the same stream with one of the detected formats named as the expected one: still one conclusion per stream
    base = next(iter(seen))
    if isinstance(base[0], tuple) and base[0] and base[0] != ('raw',):
        exp = sorted(base[0])[0].split(':')[0]
        seen_exp = {}
        for sz in sizes[:3] + sizes[-1:]:
            out, _, _ = wrapper_outcome(data, sz, expected=exp)
            seen_exp.setdefault((out[0], ('expected', exp, out[1])), sz)
        if len(seen_exp) > 1:
            for o, sz in seen_exp.items():
                seen.setdefault(o, sz)
    return seen, sorted(errored_any)


def _wrap_job(args):
    start, count, seed = args
    import logging
    logging.disable(logging.CRITICAL)
    out = []
    for i in range(start, start + count):
        rnd = random.Random(seed * 7919 + i)
        label, fmts, data, bounds = fuzz_case(i, rnd)
        if i % 5 == 0 and len(data) < 280000:
            # long streams: every inspector reaches its decision well before the end
            from vf import images as _im
            data = data + _im.rnd_bytes(rnd, rnd.choice([300000, 500000, 700000]) - len(data) % 1000)
            label = dict(label, extended_to=len(data))
        elif i % 20 == 11 and len(data) < 280000:
            from vf import images as _im
            data = data + _im.rnd_bytes(rnd, 2600000 + rnd.randint(0, 99999) - len(data) % 1000)
            label = dict(label, extended_to=len(data))
        seen, errored = check_wrapper(data, rnd)
        out.append((i, label, len(data), [(list(k) if isinstance(k, tuple) else k, v) for k, v in seen.items()],
                    errored, len(seen), vmdk_mode(data)))
    return out


def run_wrapper_fuzz(ctx, count, handler):
    per = 10
    jobs = [(s, min(per, count - s), ctx.seed) for s in range(0, count, per)]
    n = 0
    with multiprocessing.Pool(16) as pool:
        for out in pool.imap_unordered(_wrap_job, jobs):
            for item in out:
                n += 1
                handler(*item)
    return n
