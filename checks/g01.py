"""G01 (specification growth, no listed property) - importutils against spec/Imports.tla.

Every behaviour of the bounded model (sequences of importutils calls starting from an empty module cache) is
replayed on the real helpers over a package tree written to disk by gamma; results, the cache (sys.modules) and
the number of times each module body ran are compared after the last call, the results after every call.
All mismatches are `beyond-property` reports."""
import builtins
import importlib
import os
import sys

from vf import tlc
from vf.tlc import MachineryError

TOP = {'p': 'vfgrowthpkg', 'q': 'vfgrowthmissing', 'nosuch': 'vfgrowthnosuch', 'a': 'a'}
BODY = "import builtins\nbuiltins._vf_exec.append(__name__)\n"


def build_tree(root):
    pkg = os.path.join(root, TOP['p'])
    os.makedirs(os.path.join(pkg, 'v1'))
    os.makedirs(os.path.join(pkg, 'v2'))
    files = {'__init__.py': BODY, 'a.py': BODY + "class K:\n    pass\nx = 5\n",
             'v1/__init__.py': BODY, 'v1/sub.py': BODY + "class K:\n    pass\n", 'v2/__init__.py': BODY,
             'bad.py': BODY + "import vfgrowth_dependency_that_is_not_installed\n",
             'boom.py': BODY + "raise ValueError('boom at import')\n"}
    for name, text in files.items():
        with open(os.path.join(pkg, name), 'w') as fh:
            fh.write(text)


def dotted(path):
    if not path:
        return ''
    return '.'.join([TOP.get(path[0], path[0])] + list(path[1:]))


def reset():
    for k in [k for k in sys.modules if k.split('.')[0] in (TOP['p'], TOP['q'], TOP['nosuch'])]:
        del sys.modules[k]
    builtins._vf_exec = []


def run_op(iu, o):
    k = o['k']
    try:
        if k == 'module':
            return classify(iu.import_module(dotted(o['path'])))
        if k == 'class':
            return classify(iu.import_class((dotted(o['path']) + '.' if o['path'] else '') + o['name']))
        if k == 'object':
            return classify(iu.import_object(dotted(o['path']) + '.' + o['name']))
        if k == 'ns':
            return classify(iu.import_object_ns(dotted(o['ns']), '.'.join(
                [TOP.get(o['rest'][0], o['rest'][0])] + list(o['rest'][1:]) + [o['name']])
                if o['rest'][0] != 'a' else 'a.' + o['name']))
        if k == 'versioned':
            return classify(iu.import_versioned_module(dotted(o['path']), o['ver'], o['sub'] or None))
        if k == 'try':
            return classify(iu.try_import(dotted(o['path']), default=DEFAULT))
        if k == 'any':
            return classify(iu.import_any(*[dotted(p) for p in o['paths']]))
    except ImportError:
        return {'k': 'err', 'err': 'ImportError'}
    except ValueError:
        return {'k': 'err', 'err': 'ValueError'}
    except TypeError:
        return {'k': 'err', 'err': 'TypeError'}
    except Exception as e:
        return {'k': 'err', 'err': 'EXC:' + type(e).__name__}
    raise MachineryError('op %r' % (o,))


class _Default:
    pass


DEFAULT = _Default()
INV = {v: k for k, v in TOP.items()}


def model_path(name):
    parts = name.split('.')
    return [INV.get(parts[0], parts[0])] + parts[1:]


def classify(v):
    import types
    if v is DEFAULT:
        return {'k': 'default'}
    if isinstance(v, types.ModuleType):
        return {'k': 'mod', 'path': model_path(v.__name__), 'same': sys.modules.get(v.__name__) is v}
    if isinstance(v, type):
        return {'k': 'attr', 'path': model_path(v.__module__), 'name': v.__name__}
    if isinstance(v, int):
        return {'k': 'attr', 'name': 'x'}
    return {'k': 'inst', 'path': model_path(type(v).__module__), 'name': type(v).__name__}


def agrees(got, want):
    if want['k'] == 'err':
        return got == {'k': 'err', 'err': want['err']}
    if got['k'] != want['k']:
        return False
    if want['k'] == 'mod':
        return got['path'] == want['path'] and got['same']
    if want['k'] == 'attr':
        return got['name'] == want['name'] and (want['name'] == 'x' or got['path'] == want['path'])
    if want['k'] == 'inst':
        return got['name'] == want['name'] and got['path'] == want['path']
    return True


def run(ctx):
    from oslo_utils import importutils as iu
    ctx.assumptions += ['the package tree on disk is gamma of Imports!Mods; sys.modules entries of that tree are removed '
                        'between behaviours', 'growth check: mismatches are beyond-property reports, no listed property is decided here']
    root = os.path.join(ctx.work, 'tree')
    build_tree(root)
    sys.path.insert(0, root)
    importlib.invalidate_caches()
    sys.dont_write_bytecode = True
    depth = 2
    res = tlc.run('MC_Imports', 'MC_Imports_%d.cfg' % depth, workdir=ctx.work, workers=8,
                  stdout_path=os.path.join(ctx.work, 'imports.out'))
    ctx.tlc(res, 'Imports: BodyRunsOnce, CacheIsWhatRan, ParentsFirst, ReportedIsLoaded, TryIsExact, CacheGrows')
    if len(res.records) < 5000:
        raise MachineryError('export too small: %d' % len(res.records))
    recs = res.records
    if not ctx.quick:
        # deeper: simulate behaviours of length 3 (the full graph would be 1.4 million behaviours)
        r3 = tlc.run('MC_Imports', 'MC_Imports_3.cfg', workdir=ctx.work, workers=1, simulate='num=30000', depth=4,
                     stdout_path=os.path.join(ctx.work, 'imports3.out'))
        ctx.tlc(r3, 'Imports: 30000 simulated behaviours of length 3', counts_as_states=False)
        recs = recs + r3.records
    n = 0
    kinds = {}
    for rec in recs:
        reset()
        for i, step in enumerate(rec['hist']):
            got = run_op(iu, step['op'])
            n += 1
            kinds[step['res']['k']] = kinds.get(step['res']['k'], 0) + 1
            if not agrees(got, step['res']):
                ctx.beyond('Imports', {'kind': 'result', 'op': step['op']['k'], 'want': step['res']['k'], 'got': got['k'], 'step': i},
                           {'behaviour': rec['hist'], 'step': i, 'observed': got},
                           'importutils %s after %s: code %s, specification %s' % (
                               step['op'], [h['op'] for h in rec['hist'][:i]], got, step['res']))
                break
        else:
            cache = sorted(model_path(k) for k in sys.modules if k.split('.')[0] == TOP['p'])
            want_cache = sorted(rec['loaded'])
            ex = {}
            for name in builtins._vf_exec:
                ex[tuple(model_path(name))] = ex.get(tuple(model_path(name)), 0) + 1
            want_ex = {tuple(e['m']): e['n'] for e in rec['execs'] if e['n']}
            if cache != want_cache or ex != want_ex:
                ctx.beyond('Imports', {'kind': 'cache', 'cache_ok': cache == want_cache},
                           {'behaviour': rec['hist'], 'cache': cache, 'expected_cache': want_cache,
                            'executions': {'.'.join(k): v for k, v in ex.items()},
                            'expected_executions': {'.'.join(k): v for k, v in want_ex.items()}},
                           'after %s: cache %s / executions %s, specification %s / %s' % (
                               [h['op'] for h in rec['hist']], cache, ex, want_cache, want_ex))
    reset()
    sys.path.remove(root)
    ctx.cov['evaluations'] += n
    ctx.cov['distinct_nontrivial'] += len(recs)
    if len(kinds) < 5:
        raise MachineryError('vacuity: result kinds %s' % kinds)
    ctx.stage('imports-replay', behaviours=len(recs), calls=n, result_kinds=kinds)
    ctx.sample({'behaviour': recs[len(recs) // 2]})
    # binding self-test: a spec result altered must be noticed by `agrees`
    if agrees({'k': 'mod', 'path': ['p', 'a'], 'same': True}, {'k': 'mod', 'path': ['p', 'v1'], 'name': '', 'err': 'none'}):
        raise MachineryError('binding self-test failed')
    ctx.cov['rule'] = 'every sequence of 2 calls (thorough: + 30000 sampled sequences of 3) over 113 importutils calls from an empty cache'
    ctx.cov['exhaustive'] = True
