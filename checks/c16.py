"""C16 - text coding helpers round-trip, keep their type contract, are idempotent."""
import os
import random
import re
import unicodedata

from vf import tlc
from vf.tlc import MachineryError

SLUG_MEMBERS = {
    'lower': 'azq', 'upper': 'AZQ', 'digit': '059', 'underscore': '_', 'hyphen': '-', 'space': ' ', 'tab': '\t\n\r\x0b\x0c\x1c\x1d\x1e\x1f',
    'nbsp': '  ', 'punct': '!.,/#@(*', 'accented': 'éÜñÇ', 'compat_letter': 'ﬁⅨᴬ',
    'compat_digit': '①²⁵', 'nonascii_other': '中Ж→€', 'compat_punct_digit': '\u2474\u2488\u2475',
}


def spell(name, rnd):
    # letter case only: aliases (latin_1 / latin-1) are different names to the helpers
    return rnd.choice([name, name.upper(), name.title()])


ASCII_COMPATIBLE = ('ascii', 'latin-1', 'utf-8')


class Tag(str):
    """text all the same: a str subclass whose str() is not its value (as an enum member that is also a str)"""
    def __str__(self):
        return 'Tag.' + str.__str__(self)


def outcome(fn, *a, **kw):
    try:
        r = fn(*a, **kw)
    except TypeError:
        return ('err', 'TypeError')
    except UnicodeEncodeError:
        return ('err', 'UnicodeEncodeError')
    except UnicodeDecodeError:
        return ('err', 'UnicodeDecodeError')
    except Exception as e:
        return ('err', 'EXC:' + type(e).__name__)
    return ('ok', r)


def matches(got, ref, arg):
    """Compare a real outcome with the spec's [k, v, e] record."""
    if ref['k'] == 'err':
        return got == ('err', ref['e'])
    if got[0] != 'ok':
        return False
    if ref['k'] == 'same':
        return got[1] is arg
    if ref['k'] == 'bytes':
        return isinstance(got[1], bytes) and list(got[1]) == ref['v']
    return isinstance(got[1], str) and [ord(ch) for ch in got[1]] == ref['v']


def run(ctx):
    from oslo_utils import encodeutils, strutils
    from vf import purity
    _rec = purity.Recorder(encodeutils, ['safe_encode', 'safe_decode', 'to_utf8'], every=1)
    _rec2 = purity.Recorder(strutils, ['to_slug'], every=3)
    _rec.__enter__()
    _rec2.__enter__()
    quick = ctx.quick
    ctx.assumptions += [
        'UTF-8, UTF-16 (BOM, little endian), Latin-1 and ASCII are specified in TLA+ and compared byte for byte; for '
        'table-driven encodings (cp1252, shift_jis, ...) only the branch contract and the round trip through Python\'s own '
        'codec are checked',
        'decoding of malformed input is compared under the strict policy, and under ignore/replace for ASCII (whose lenient decoding is specified)',
    ]
    res = tlc.run('MC_Text', 'MC_Text.cfg', workdir=ctx.work, workers=8, stdout_path=os.path.join(ctx.work, 'text.out'))
    ctx.tlc(res, 'Text codecs: RoundTrip, StrictFailsExactly, IgnoreNeverFails on every text up to length 3')
    rnd = random.Random(ctx.seed)
    counts = {}
    n = 0
    longs = [0]

    def report(kind, call_text, got, ref, c):
        ctx.violation({'kind': kind, 'want': ref['k'] if ref['k'] != 'err' else ref['e'],
                       'got': got[1] if got[0] == 'err' else type(got[1]).__name__, 'enc': c.get('enc')},
                      {'case': c, 'call': call_text, 'expected': ref, 'observed': repr(got)[:300]},
                      '%s -> %s, specification %s' % (call_text, repr(got)[:120], ref))
    for rec in res.records:
        c, ref = rec['c'], rec['ref']
        k = c['k']
        counts[k] = counts.get(k, 0) + 1
        if k in ('round', 'encode'):
            text = ''.join(chr(cp) for cp in c['t'])
            enc = spell(c['enc'], rnd)
            pol = c.get('pol', 'strict')
            got = outcome(encodeutils.safe_encode, text, encoding=enc, errors=pol)
            n += 1
            if not matches(got, ref['enc'], text):
                report('safe_encode', 'safe_encode(%r, encoding=%r, errors=%r)' % (text, enc, pol), got, ref['enc'], c)
            elif k == 'round' and got[0] == 'ok':
                back = outcome(encodeutils.safe_decode, got[1], incoming=spell(c['enc'], rnd))
                if back != ('ok', text):
                    report('round-trip', 'safe_decode(safe_encode(%r, %r), %r)' % (text, enc, enc), back,
                           {'k': 'text', 'v': c['t'], 'e': 'none'}, c)
                if c['enc'] == 'utf-8':
                    u = outcome(encodeutils.to_utf8, text)
                    if u != ('ok', got[1]):
                        report('to_utf8', 'to_utf8(%r)' % text, u, ref['enc'], c)
        elif k == 'trans':
            if ref.get('skip'):
                continue
            payload = bytes(ref['payload'])
            inc, enc = spell(c['incoming'], rnd), spell(c['enc'], rnd)
            got = outcome(encodeutils.safe_decode, payload, incoming=inc)
            n += 1
            if not matches(got, ref['decode'], payload):
                report('safe_decode', 'safe_decode(%r, incoming=%r)' % (payload, inc), got, ref['decode'], c)
            got = outcome(encodeutils.safe_encode, payload, incoming=inc, encoding=enc)
            if not matches(got, ref['encode'], payload):
                report('safe_encode-bytes', 'safe_encode(%r, incoming=%r, encoding=%r)' % (payload, inc, enc), got, ref['encode'], c)
            if n % 7 == 0 and payload and c['incoming'] in ASCII_COMPATIBLE and c['enc'] in ASCII_COMPATIBLE:
                # the same bytes at the end of a long payload (5000 ASCII bytes in front: every ASCII-compatible codec
                # maps them to themselves, so the answers are the same with 5000 'a' in front)
                long_payload = b'a' * 5000 + payload

                def longer(r):
                    return dict(r, v=[97] * 5000 + r['v']) if r['k'] in ('bytes', 'text') else r
                got = outcome(encodeutils.safe_decode, long_payload, incoming=inc)
                if not matches(got, longer(ref['decode']), long_payload):
                    report('safe_decode-long', 'safe_decode(5000 x a + %r, incoming=%r)' % (payload, inc), (got[0], repr(got[1])[-80:]), ref['decode'], c)
                got = outcome(encodeutils.safe_encode, long_payload, incoming=inc, encoding=enc)
                if not matches(got, longer(ref['encode']), long_payload):
                    report('safe_encode-bytes-long', 'safe_encode(5000 x a + %r, incoming=%r, encoding=%r)' % (payload, inc, enc),
                           (got[0], repr(got[1])[-80:]), ref['encode'], c)
                longs[0] += 1
        elif k == 'transpol':
            payload = bytes(ref['payload'])
            enc = spell(c['enc'], rnd)
            got = outcome(encodeutils.safe_encode, payload, incoming=spell('utf-8', rnd), encoding=enc, errors=c['pol'])
            n += 1
            if not matches(got, ref['encode'], payload):
                report('safe_encode-bytes-policy', 'safe_encode(%r, incoming=utf-8, encoding=%r, errors=%r)' % (payload, enc, c['pol']),
                       got, ref['encode'], c)
        elif k == 'decpol':
            if ref.get('skip'):
                continue
            payload = bytes(ref['payload'])
            inc = spell('ascii', rnd)
            got = outcome(encodeutils.safe_decode, payload, incoming=inc, errors=c['pol'])
            n += 1
            if not matches(got, ref['decode'], payload):
                report('safe_decode-policy', 'safe_decode(%r, incoming=%r, errors=%r)' % (payload, inc, c['pol']), got, ref['decode'], c)
        else:
            # every kind of "other" argument, also those that resemble bytes (bytearray, memoryview) or text
            others = [None, 5, ['A'], 1.5, bytearray(b'A'), memoryview(b'A'), ('A',), {'A': 1}, object()]
            for arg in ({'str': ['A', Tag('A')], 'bytes': [b'A'], 'other': others}[c['kind']]):
                fn = {'safe_decode': lambda: outcome(encodeutils.safe_decode, arg, incoming='utf-8'),
                      'safe_encode': lambda: outcome(encodeutils.safe_encode, arg, incoming='utf-8', encoding='utf-8'),
                      'to_utf8': lambda: outcome(encodeutils.to_utf8, arg)}[c['fn']]
                key = {'safe_decode': 'decode', 'safe_encode': 'encode', 'to_utf8': 'utf8'}[c['fn']]
                got = fn()
                n += 1
                if not matches(got, ref[key], arg):
                    report('type-contract', '%s(%r)' % (c['fn'], arg), got, ref[key], c)
    ctx.cov['evaluations'] += n
    ctx.cov['distinct_nontrivial'] += len(res.records)
    if len(counts) < 5:
        raise MachineryError('vacuity: %s' % counts)
    ctx.stage('codec-replay', cases=counts, calls=n, long_payloads=longs[0])
    ctx.sample({'case': res.records[len(res.records) // 2]})
    # the identity clauses hold whatever the process's own default encoding is (safe_encode / safe_decode take their
    # default `incoming` from sys.stdin.encoding; the clauses below name none)
    import io
    import sys
    saved_stdin = sys.stdin
    idn = 0
    _rec.paused = _rec2.paused = True      # these answers depend on sys.stdin by contract: not part of the order replay
    try:
        for enc in ('utf-8', 'latin-1', 'ascii', 'cp1252', None):
            sys.stdin = io.TextIOWrapper(io.BytesIO(b''), encoding=enc) if enc else io.StringIO('')
            for raw in (b'', b'abc', b'caf\xc3\xa9', b'\xe9', b'\xff\xfe', '日本'.encode('utf-8')):
                idn += 1
                r = outcome(encodeutils.to_utf8, raw)
                if r[0] != 'ok' or type(r[1]) is not bytes or r[1] != raw:
                    ctx.violation({'kind': 'to_utf8-bytes-identity', 'stdin': str(enc)}, {'bytes': repr(raw), 'stdin_encoding': enc, 'observed': repr(r)},
                                  'to_utf8(%r) with sys.stdin.encoding=%s -> %s, specification: the same bytes' % (raw, enc, repr(r)[:80]))
            # no `incoming` given: bytes are read in the encoding stdin has NOW (not the one it had at some earlier call),
            # falling back to UTF-8 when that fails
            eff = enc or sys.getdefaultencoding()
            for raw in (b'caf\xe9', b'caf\xc3\xa9', b'abc', b'\x80'):
                idn += 1
                try:
                    want_d = ('ok', raw.decode(eff))
                except UnicodeDecodeError:
                    try:
                        want_d = ('ok', raw.decode('utf-8'))
                    except UnicodeDecodeError:
                        want_d = ('err', 'UnicodeDecodeError')
                r = outcome(encodeutils.safe_decode, raw)
                if r != want_d:
                    ctx.violation({'kind': 'default-incoming', 'stdin': str(enc)}, {'bytes': repr(raw), 'stdin_encoding': enc, 'observed': repr(r)},
                                  'safe_decode(%r) with sys.stdin.encoding=%s -> %s, specification %s' % (raw, enc, repr(r)[:80], want_d))
            # an empty `incoming` is "not given" (the default is used), for both helpers
            for raw in (b'abc', b'caf\xc3\xa9'):
                idn += 1
                a, b = outcome(encodeutils.safe_decode, raw, incoming=''), outcome(encodeutils.safe_decode, raw)
                e1, e2 = outcome(encodeutils.safe_encode, raw, incoming='', encoding='utf-8'), outcome(encodeutils.safe_encode, raw, encoding='utf-8')
                if a != b or e1 != e2:
                    ctx.violation({'kind': 'empty-incoming', 'stdin': str(enc)}, {'bytes': repr(raw), 'observed': [repr(a), repr(b), repr(e1), repr(e2)]},
                                  "incoming='' differs from no incoming for %r (stdin %s): %s vs %s / %s vs %s" % (raw, enc, a, b, e1, e2))
            for text in ('', 'abc', 'caf\xe9', '日本'):
                idn += 1
                r = outcome(encodeutils.safe_decode, text)
                u = outcome(encodeutils.to_utf8, text)
                if r[0] != 'ok' or r[1] != text or type(r[1]) is not str or u != ('ok', text.encode('utf-8')):
                    ctx.violation({'kind': 'str-identity', 'stdin': str(enc)}, {'text': text, 'stdin_encoding': enc, 'observed': [repr(r), repr(u)]},
                                  'safe_decode / to_utf8 of %r with sys.stdin.encoding=%s -> %s / %s' % (text, enc, repr(r)[:60], repr(u)[:60]))
    finally:
        sys.stdin = saved_stdin
        _rec.paused = _rec2.paused = False
    ctx.cov['evaluations'] += idn
    ctx.stage('identity-under-stdin-encodings', cases=idn)
    # table-driven encodings: branch contract + round trip through Python's codec (delegated)
    d = 0
    for enc in ('cp1252', 'shift_jis', 'koi8-r', 'utf-32', 'big5', 'iso8859-15'):
        for j in range(60 if quick else 1000):
            text = ''.join(rnd.choice('aZ09 é€日本Жλ!~') for _ in range(rnd.randint(0, 6)))
            try:
                raw = text.encode(enc)
            except UnicodeEncodeError:
                got = outcome(encodeutils.safe_encode, text, encoding=enc)
                d += 1
                if got != ('err', 'UnicodeEncodeError'):
                    ctx.violation({'kind': 'delegated-encode-error', 'enc': enc}, {'text': text, 'observed': repr(got)},
                                  'safe_encode(%r, %s) should fail like the codec' % (text, enc))
                continue
            e2 = rnd.choice([enc, enc.upper()])
            d += 1
            a = outcome(encodeutils.safe_encode, text, encoding=e2)
            b = outcome(encodeutils.safe_decode, raw, incoming=e2)
            same = outcome(encodeutils.safe_encode, raw, incoming=enc, encoding=e2)
            tr = outcome(encodeutils.safe_encode, raw, incoming=enc, encoding='utf-8')
            if a != ('ok', raw) or b != ('ok', text) or (raw and same[1] is not raw) or tr != ('ok', text.encode('utf-8')):
                ctx.violation({'kind': 'delegated-contract', 'enc': enc}, {'text': text, 'observed': [repr(a), repr(b), repr(tr)]},
                              'branch contract / round trip fails for %r in %s' % (text, enc))
    ctx.cov['evaluations'] += d
    ctx.stage('delegated-encodings', cases=d)
    # to_slug: transducer over class sequences
    cfg = 'MC_Text_slug4.cfg' if quick else 'MC_Text_slug5.cfg'
    res2 = tlc.run('MC_Text', cfg, workdir=ctx.work, workers=8, stdout_path=os.path.join(ctx.work, 'slug.out'), timeout=900)
    ctx.tlc(res2, 'Text slug transducer: SlugAlphabet, SlugSingleHyphens, SlugIdempotent on every class sequence')
    z = 0
    allowed = re.compile(r'^[a-z0-9_-]*$')
    for rec in res2.records:
        q, out = rec['q'], rec['out']
        for rep in range(2):
            chars = [rnd.choice(SLUG_MEMBERS[cls]) for cls in q]
            text = ''.join(chars)
            want = ''
            for o in out:
                if o['o'] == '-':
                    want += '-'
                else:
                    ch = chars[o['src'] - 1]
                    folded = unicodedata.normalize('NFKD', ch).encode('ascii', 'ignore').decode('ascii').lower()
                    want += re.sub(r'[^a-z0-9_]', '', folded)
            got = outcome(strutils.to_slug, text)
            z += 1
            ok = got == ('ok', want)
            if got[0] == 'ok':
                ok = ok and bool(allowed.match(got[1])) and '--' not in got[1] and strutils.to_slug(got[1]) == got[1]
            if not ok:
                ctx.violation({'kind': 'to_slug', 'len': len(q), 'classes': sorted(set(q))[:4]},
                              {'classes': q, 'text': text, 'expected': want, 'observed': repr(got)},
                              'to_slug(%r) -> %s, specification %r' % (text, got, want))
    res2.records = None
    ctx.cov['evaluations'] += z
    ctx.stage('slug-replay', calls=z)
    for bad in (None, 5, ['a']):
        if outcome(strutils.to_slug, bad) != ('err', 'TypeError'):
            ctx.violation({'kind': 'to_slug-type'}, {'argument': repr(bad)}, 'to_slug(%r) should raise TypeError' % (bad,))
    if outcome(strutils.to_slug, 'Caf\xe9 Fran\xe7ais'.encode('latin-1'), incoming='latin-1') != ('ok', 'cafe-francais'):
        ctx.violation({'kind': 'to_slug-bytes'}, {}, 'to_slug on latin-1 bytes')
    _rec.__exit__()
    _rec2.__exit__()
    _rec.replay(ctx, 'codecs')
    _rec2.replay(ctx, 'slug')
    # binding self-test
    if matches(('ok', b'A'), {'k': 'bytes', 'v': [66], 'e': 'none'}, None):
        raise MachineryError('binding self-test failed')
    ctx.stage('binding-selftest', ok=True)
    ctx.cov['rule'] = ('all code-point sequences up to length 3 over 12 boundary code points x 4 TLA+ codecs (round trip), length <= 2 x '
                       '3 error policies, bytes made by one encoding handed over under another (fallback to UTF-8, transcode unless names '
                       'agree case-insensitively), type contract (incl. a str subclass); every seventh transcoding case behind 5000 ASCII bytes; six table-driven encodings by contract; all slug class sequences up to '
                       'length 4/5 over 13 classes, two concretisations each')
    ctx.cov['exhaustive'] = True
