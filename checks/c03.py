"""C03 - format detection is exclusive, conservative about raw, and total."""
import io
import multiprocessing
import os
import random

from vf import tlc, traces
from vf.tlc import MachineryError

SIG = {
    'qcow2': (0, b'QFI\xfb'), 'qed': (0, b'QED\x00'), 'vhd': (0, b'conectix'),
    'vhdx': (0, b'vhdxfile'), 'vmdk': (0, b'KDMV'), 'luks': (0, b'LUKS\xba\xbe'),
    'vdi': (0x40, b'\x7f\x10\xda\xbe'), 'gpt': (510, b'\x55\xaa'), 'iso': (32769, b'CD001'),
}
TEXT = b'lorem ipsum dolor sit amet, consectetur adipiscing elit sed do\n'


# createType comes first: the inspector looks at the text once 64 bytes of it are there
VMDK_TEXT = (b'createType="monolithicSparse"\n# Disk DescriptorFile\nversion=1\nCID=fffffffe\nparentCID=ffffffff\n'
             b'\n# Extent description\nRW 2048 SPARSE "disk.vmdk"\n')


def build(c, rnd):
    n = c['n']
    bg = c['bg']
    if c['zero'] in ('vmdk_text', 'vmdk_text_longtype'):
        # the whole content is a text descriptor (padded with a comment), other signatures overlaid below
        VMDK_TEXT = globals()['VMDK_TEXT'] if c['zero'] == 'vmdk_text' else globals()['VMDK_TEXT'].replace(b'monolithicSparse', b'monolithicSparse' + b'Q' * 54)
        body = VMDK_TEXT + b'#' + b'x' * max(0, n)
        data = bytearray(body[:n]) if n <= len(VMDK_TEXT) else bytearray((VMDK_TEXT + b'#' + b'x' * (n - len(VMDK_TEXT) - 2) + b'\n')[:n])
        if c['fat']:
            if n > 0x10:
                data[0x10] = 2
            if n > 0x15:
                data[0x15] = 0xF8
        for f in ('vdi', 'gpt', 'iso'):
            if c[f]:
                off, sg = SIG[f]
                for k, b in enumerate(sg):
                    if off + k < n:
                        data[off + k] = b
        return bytes(data)
    if bg == 'zero':
        data = bytearray(n)
    elif bg == 'random':
        data = bytearray(rnd.randbytes(n))
        # no accidental signatures in the random background
        for off, ln in ((0, 8), (0x10, 1), (0x15, 1), (0x40, 4), (510, 2), (32769, 5)):
            for k in range(off, min(n, off + ln)):
                data[k] = 0xA5 if k != 0x10 else 0
    else:
        data = bytearray((TEXT * (n // len(TEXT) + 1))[:n])
        if bg == 'text_nonascii' and n > 70:
            data[rnd.randint(66, min(n - 1, 400))] = 0xe9
    if c['fat']:
        if n > 0x10:
            data[0x10] = 2
        if n > 0x15:
            data[0x15] = 0xF8
    sigs = []
    if c['zero'] != 'none':
        sigs.append(c['zero'])
    for f in ('vdi', 'gpt', 'iso'):
        if c[f]:
            sigs.append(f)
    for f in sigs:
        off, s = SIG[f]
        for k, b in enumerate(s):
            if off + k < n:
                data[off + k] = b
    return bytes(data)


class BareSource:
    def __init__(self, fh):
        self.read = fh.read


def decide_real(fi, data, read_size, allowed, expected=None):
    """Read through InspectWrapper sampling the decision after every read."""
    from vf import insp
    src = io.BytesIO(data)
    if read_size in (17, 4096):
        src = BareSource(src)       # all a source has to offer is read()
    w = fi.InspectWrapper(src, allowed_formats=allowed, **({'expected_format': expected} if expected else {}))

    def sample():
        try:
            f = w.format
            return None if f is None else str(f)
        except fi.ImageFormatError:
            return 'ImageFormatError'
        except Exception as e:
            return 'EXC:' + type(e).__name__
    hist = []
    while True:
        chunk = w.read(read_size)
        hist.append(sample())
        if not chunk:
            break
    w.close()
    hist.append(sample())
    try:
        fs = w.formats
        names = None if fs is None else sorted(str(f) for f in fs)
    except fi.ImageFormatError:
        names = 'ImageFormatError'
    except Exception as e:
        names = 'EXC:' + type(e).__name__
    return hist, names


def record_signals(fi, data, read_size, allowed):
    """One Trace_Detect trace: per read, what every inspector reports and what the wrapper decides."""
    w = fi.InspectWrapper(io.BytesIO(data), allowed_formats=allowed)
    names = sorted(str(i) for i in w._inspectors)
    ev = []

    def sample(finished):
        comp, mat = {}, {}
        for i in w._inspectors:
            try:
                comp[str(i)] = bool(i.complete)
                mat[str(i)] = bool(i.format_match)
            except Exception as e:
                comp[str(i)] = mat[str(i)] = 'EXC:' + type(e).__name__
        try:
            f = w.format
            d = 'None' if f is None else str(f)
        except fi.ImageFormatError:
            d = 'ImageFormatError'
        except Exception as e:
            d = 'EXC:' + type(e).__name__
        ev.append({'complete': comp, 'match': mat, 'finished': finished, 'decision': d})
    while True:
        chunk = w.read(read_size)
        sample(False)
        if not chunk:
            break
    w.close()
    sample(True)
    return {'insp': names, 'ev': ev}


def _job(args):
    items, seed, workdir, deep = args
    import logging
    logging.disable(logging.CRITICAL)
    from oslo_utils.imageutils import format_inspector as fi
    out = []
    for idx, rec in items:
        c = rec['c']
        rnd = random.Random(seed * 65537 + idx)
        data = build(c, rnd)
        n = len(data)
        allowed = sorted(c['allowed']) or None
        want = rec['decide']
        want_simple = 'ImageFormatError' if want.startswith('ImageFormatError') else want
        sizes = [512, 4096, 65536, 1 << 20]
        if n <= 40000:
            sizes.append(17)
        if n <= 600:
            sizes.append(1)
        if deep:
            sizes.append(rnd.randint(1, max(1, n)))
        if c['zero'] in ('vmdk_text', 'vmdk_text_longtype'):
            # text-descriptor mode is only defined when the first read covers the descriptor (finding F1)
            sizes = [s for s in (4096, 65536, 1 << 20) if s >= n] or [1 << 20]
        probs = []
        if allowed:
            # a format that is not allowed is not considered - naming it as the expected one does not bring it back
            outside = [f for f in ('qcow2', 'vhd', 'vmdk', 'vdi', 'gpt', 'iso', 'luks', 'qed', 'vhdx') if f not in allowed]
            if outside:
                exp = outside[idx % len(outside)]
                try:
                    hist_e, names_e = decide_real(fi, data, 4096, allowed, expected=exp)
                except Exception as e:
                    hist_e, names_e = ['EXC:' + type(e).__name__], None
                if hist_e[-1] != want_simple or (isinstance(names_e, list) and sorted(rec['formats']) != names_e):
                    probs.append(('decision-with-expected-outside-allowed:' + exp, 4096, [hist_e[-1], names_e], want))
        if not allowed and len(rec['formats']) > 1:
            # several formats at once: naming one of them as the expected one does not make the others go away
            for exp in sorted(rec['formats'])[:2]:
                for sz in (512, 4096):
                    try:
                        hist_e, names_e = decide_real(fi, data, sz, None, expected=exp)
                    except fi.ImageFormatError:
                        hist_e, names_e = ['ImageFormatError'], None      # cut off: the expected inspector saw no match
                    except Exception as e:
                        hist_e, names_e = ['EXC:' + type(e).__name__], None
                    if hist_e[-1] != want_simple:
                        probs.append(('decision-with-one-of-the-formats-expected:' + exp, sz, [hist_e[-1], names_e], want))
        for sz in sizes:
            hist, names = decide_real(fi, data, sz, allowed)
            final = hist[-1]
            if final != want_simple:
                probs.append(('decision', sz, final, want))
            if isinstance(names, list) and sorted(rec['formats']) != names:
                probs.append(('formats', sz, names, sorted(rec['formats'])))
            elif isinstance(names, str):
                probs.append(('formats-exception', sz, names, sorted(rec['formats'])))
            seen = None
            for k, h in enumerate(hist):
                if isinstance(h, str) and h.startswith('EXC:'):
                    probs.append(('not-total', sz, h, want))
                    break
                if seen is not None and h != seen:
                    probs.append(('revised', sz, [seen, h, k], want))
                    break
                if h is not None:
                    seen = h
        det = None
        if not c['allowed'] and idx % 3 == 0 and not (c['zero'] in ('vmdk_text', 'vmdk_text_longtype') and n > 4096):
            path = os.path.join(workdir, 'c03_%d.bin' % idx)
            with open(path, 'wb') as fh:
                fh.write(data)
            try:
                det = str(fi.detect_file_format(path))
            except fi.ImageFormatError:
                det = 'ImageFormatError'
            except Exception as e:
                det = 'EXC:' + type(e).__name__
            os.unlink(path)
            if det != want_simple:
                probs.append(('detect_file_format', 4096, det, want))
        out.append((idx, probs, len(sizes) + (1 if det else 0)))
    return out


def run(ctx):
    from oslo_utils.imageutils import format_inspector as fi
    quick = ctx.quick
    ctx.assumptions += [
        'contents are backgrounds with overlaid signatures; valid images of each format and hostile images go through '
        'the same wrapper in C01 (agreement across read sizes) and C06 (traces)',
        'Match(f, content) is modelled as the code computes it: VHD, VHDX, LUKS and VMDK signatures are prefix tests '
        'that do not require a complete header, and an inspector that raised is still consulted (finding F4 / observation O6)',
    ]
    res = tlc.run('MC_Detect', workdir=ctx.work, workers=1, stdout_path=os.path.join(ctx.work, 'detect.out'))
    ctx.tlc(res, 'Detect: Exclusive / MultiIsError / RawOnlyAlone / AllowedOnly / Total on every content')
    recs = res.records
    if len(recs) < 20000 or not any(r['c']['zero'] == 'vmdk_text' and r['decide'] == 'vmdk' for r in recs):
        raise MachineryError('content export too small')
    rnd = random.Random(ctx.seed)
    items = list(enumerate(recs))
    if quick:
        big = [x for x in items if x[1]['c']['n'] >= 34815]
        small = [x for x in items if x[1]['c']['n'] < 34815]
        rnd.shuffle(big)
        rnd.shuffle(small)
        # every decision class stays represented
        items = small + big[:2500]
    classes = {}
    for _, r in items:
        classes[r['decide']] = classes.get(r['decide'], 0) + 1
    if len(classes) < 11:
        raise MachineryError('vacuity: decision classes missing: %s' % sorted(classes))
    jobs = [(items[i:i + 40], ctx.seed, ctx.work, not quick) for i in range(0, len(items), 40)]
    byidx = dict(items)
    runs = 0
    with multiprocessing.Pool(16) as pool:
        for out in pool.imap_unordered(_job, jobs):
            for idx, probs, n in out:
                runs += n
                rec = byidx[idx]
                for kind, sz, got, want in probs:
                    ctx.violation(
                        {'kind': kind, 'want': rec['decide'].split(':')[0], 'got': got if isinstance(got, str) else str(got)[:40]},
                        {'content': rec['c'], 'read_size': sz, 'observed': got, 'expected': want},
                        'content %s read with size %s: %s: observed %s, specification says %s' % (
                            rec['c'], sz, kind, got, want))
    ctx.cov['evaluations'] += runs
    ctx.cov['distinct_nontrivial'] += len(items)
    ctx.stage('decision-replay', contents=len(items), runs=runs, classes=classes)
    ctx.sample({'content': items[0][1]})
    # code -> spec: recorded (signals, decision) sequences validated by Trace_Detect
    batch = []
    picks = items[:]
    rnd.shuffle(picks)
    for idx, rec in picks[:(1500 if quick else 12000)]:
        c = rec['c']
        if c['zero'] in ('vmdk_text', 'vmdk_text_longtype'):
            continue
        data = build(c, random.Random(ctx.seed * 65537 + idx))
        sz = rnd.choice([512, 4096, 65536]) if len(data) > 3000 else rnd.choice([17, 64, 512])
        tr = record_signals(fi, data, sz, sorted(c['allowed']) or None)
        bad = [e for e in tr['ev'] if any(not isinstance(v, bool) for v in list(e['complete'].values()) + list(e['match'].values()))]
        if bad:
            ctx.violation({'kind': 'accessor-raised', 'what': sorted(set(str(v) for e in bad for v in list(e['complete'].values()) + list(e['match'].values()) if not isinstance(v, bool)))[:2]},
                          {'content': c, 'read_size': sz, 'sample': bad[0]},
                          'complete/format_match of an inspector raised while reading %s: %s' % (c, bad[0]['match']))
            continue
        batch.append(tr)
    for b in range(0, len(batch), 4000):
        part = batch[b:b + 4000]
        rejected, inv, r = traces.validate(ctx, 'Trace_Detect', part, 'd%d' % b)
        ctx.tlc(r, 'Trace_Detect batch', counts_as_states=False)
        ctx.cov['traces_validated_against_impl'] += len(part) - len(rejected)
        for i in sorted(rejected)[:5]:
            at, inv1 = traces.diagnose(ctx, 'Trace_Detect', part[i])
            ev = part[i]['ev']
            ctx.violation({'kind': 'decision-trace', 'invariant': inv1, 'decision': ev[min(at, len(ev)) - 1]['decision']},
                          {'trace_head': ev[:3], 'rejected_at': at, 'event': ev[min(at, len(ev)) - 1], 'inspectors': part[i]['insp']},
                          'recorded detection run rejected at sample %d: wrapper says %s for signals %s %s' % (
                              at, ev[min(at, len(ev)) - 1]['decision'], ev[min(at, len(ev)) - 1]['match'], inv1 or ''))
    ctx.stage('decision-traces', traces=len(batch), accepted=ctx.cov['traces_validated_against_impl'])
    # arbitrary files: totality + no revision only
    from checks import real_images as ri
    n_arb = 300 if quick else 5000
    bad = 0
    for j in range(n_arb):
        r2 = random.Random(ctx.seed * 13 + j)
        label, fmts, data, _ = ri.fuzz_case(j, r2)
        data = data[:300000]
        for sz in (r2.choice([17, 512, 4096]), 65536):
            if sz == 17 and len(data) > 20000:
                sz = 4096
            hist, names = decide_real(fi, data, sz, None)
            seen = None
            for h in hist:
                if isinstance(h, str) and h.startswith('EXC:'):
                    ctx.violation({'kind': 'not-total', 'got': h, 'arbitrary': True},
                                  {'case': label, 'read_size': sz, 'history': hist[-5:]},
                                  'detection on %s (read size %d) fails with %s' % (label, sz, h))
                    break
                if seen is not None and h != seen:
                    vm = ri.vmdk_mode(data)
                    ctx.violation({'kind': 'revised', 'arbitrary': True, 'vmdk_text': vm[0] == 'text',
                                   'from': seen, 'to': h},
                                  {'case': label, 'read_size': sz, 'history': [x for x in hist if x is not None][:6]},
                                  'decision on %s (read size %d) revised from %s to %s' % (label, sz, seen, h))
                    break
                if h is not None:
                    seen = h
    ctx.cov['evaluations'] += 2 * n_arb
    ctx.stage('arbitrary-files', cases=n_arb)
    # binding self-test: raw appended to a non-empty match list must be exposed
    saved = fi.InspectWrapper.formats

    def bad_formats(self):
        r = saved.fget(self)
        if r and all(str(x) != 'raw' for x in r):
            return r + [x for x in self._inspectors if str(x) == 'raw']
        return r
    try:
        fi.InspectWrapper.formats = property(bad_formats)
        rec = [r for r in recs if r['decide'] == 'qcow2' and r['c']['n'] == 512 and not r['c']['allowed']][0]
        hist, names = decide_real(fi, build(rec['c'], random.Random(1)), 512, None)
    finally:
        fi.InspectWrapper.formats = saved
    if hist[-1] == 'qcow2':
        raise MachineryError('binding self-test: wrong formats stub not exposed')
    ctx.stage('binding-selftest', wrong_stub_decision=hist[-1])
    ctx.cov['rule'] = ('every content of Detect.tla (7 offset-0 signatures x VDI x MBR x FAT look-alike x ISO x 4 backgrounds x 22 '
                       'lengths around every decision point, plus allowed_formats family) realised as bytes and read through the real '
                       'InspectWrapper with read sizes 1/17/512/4096/64K/1M, decision sampled after every read and after close; '
                       'detect_file_format on every third content; arbitrary files for totality and no-revision; reads of 17 and 4096 bytes through a source that offers read() only; a text descriptor with a 70-character createType')
    ctx.cov['exhaustive'] = not quick
