"""C10 - string_to_bytes computes the exact byte quantity or raises ValueError."""
import math
import os
import warnings
from fractions import Fraction

from vf import tlc
from vf.tlc import MachineryError


def expected_value(ref):
    m = ''.join(ref['mant']) if isinstance(ref['mant'], list) else ref['mant']
    if m.startswith('.'):
        m = '0' + m
    v = Fraction(m) * Fraction(ref['base']) ** ref['exp']
    if ref['bits']:
        v = v / 8
    return -v if ref['neg'] else v


def call(fn, *a, **kw):
    try:
        return ('ok', fn(*a, **kw))
    except ValueError:
        return ('ValueError', None)
    except Exception as e:
        return ('EXC:' + type(e).__name__, None)


def exactly_representable(v):
    """binary64 represents v exactly and so does every intermediate of
    magnitude * base**exp (/8): integers and dyadic rationals below 2^53."""
    d = v.denominator
    return (d & (d - 1)) == 0 and abs(v.numerator) < (1 << 53) and d < (1 << 53)


def compare(ctx, text, sysname, ref, strutils, kind):
    got = call(strutils.string_to_bytes, text, sysname)
    goti = call(strutils.string_to_bytes, text, sysname, return_int=True)
    want_err = ref['err']
    sig = None
    if want_err != 'none':
        if got[0] != want_err or goti[0] != want_err:
            sig = {'kind': 'error-class', 'want': want_err, 'got': got[0], 'sys': sysname}
    else:
        if got[0] != 'ok' or goti[0] != 'ok':
            sig = {'kind': 'error-class', 'want': 'value', 'got': got[0], 'sys': sysname}
        else:
            v = expected_value(ref)
            f = got[1]
            if exactly_representable(v) and exactly_representable(Fraction(''.join(ref['mant']) if not ''.join(ref['mant']).startswith('.') else '0' + ''.join(ref['mant']))):
                ok = Fraction(f) == v
                oki = goti[1] == math.ceil(v)
            else:
                ok = abs(Fraction(f) - v) <= abs(v) * Fraction(1, 2 ** 50)
                oki = goti[1] == int(math.ceil(f))
            if not isinstance(goti[1], int) or isinstance(goti[1], bool):
                oki = False
            if type(f) is not float:
                # which numeric type carries the quantity is not part of C10's statement; the module returns a float
                # unless return_int is asked for (callers format it, divide it, serialise it)
                ctx.beyond('Units', {'kind': 'result-type', 'got': type(f).__name__},
                           {'text': text, 'unit_system': sysname, 'observed': repr(f)},
                           'string_to_bytes(%r, %r) returns the %s %r; the module returns a float unless return_int is given' % (
                               text, sysname, type(f).__name__, f))
            if not ok:
                sig = {'kind': 'value', 'sys': sysname, 'base': ref['base'], 'exp': ref['exp'], 'bits': ref['bits']}
            elif not oki:
                sig = {'kind': 'return_int', 'sys': sysname}
    if sig:
        ctx.violation(sig, {'text': text, 'unit_system': sysname, 'reference': ref,
                            'observed': [got[0], repr(got[1])], 'observed_return_int': [goti[0], repr(goti[1])], 'enum': kind},
                      'string_to_bytes(%r, %r): specification %s, code %s / return_int %s' % (
                          text, sysname, ref if ref['err'] != 'none' else str(expected_value(ref)), got, goti))
    return got[0] == 'ok'


LINE = {
    'image': 'image: disk.img', 'file_format_upper': 'file format: QCOW2',
    'virtual_size': 'virtual size: 64M (67108864 bytes)', 'virtual_size_b': 'virtual size: 1.5K',
    'disk_size': 'disk size: 96K', 'disk_size_none': 'disk size: unavailable', 'cluster_size': 'cluster_size: 65536',
    'backing_file': 'backing file: base.img', 'backing_file_actual': 'backing file: base.img (actual path: /a/base.img)',
    'encrypted': 'encrypted: yes', 'snap_header': 'Snapshot list:',
    'id_header': 'ID        TAG                 VM SIZE                DATE       VM CLOCK',
    'row': '1         snap1               1.7G 2011-10-04 19:04:00   32:06:34.974',
    'row5': '2         snap2               1.7G 2011-10-04 19:04:00', 'row_badclock': '3 snap3 1.7G 2011-10-04 19:04:00 32-06-34',
    'junk': 'this line is neither a key nor a row', 'blank': '   ',
}
VALUE = {'image': 'disk.img', 'file_format_upper': 'qcow2', 'virtual_size': 67108864, 'virtual_size_b': 1536,
         'disk_size': 98304, 'disk_size_none': 0, 'cluster_size': 65536, 'backing_file': 'base.img',
         'backing_file_actual': '/a/base.img', 'encrypted': 'yes', 'absent': None}


def qemu_parser_stage(ctx, qemu):
    """Spec growth: the human-format parser of QemuImgInfo as a transition system (spec/QemuInfo.tla)."""
    res = tlc.run('MC_QemuInfo', 'MC_QemuInfo_3.cfg' if ctx.quick else 'MC_QemuInfo_4.cfg', workdir=ctx.work, workers=8,
                  stdout_path=os.path.join(ctx.work, 'qi.out'), timeout=900)
    ctx.tlc(res, 'QemuInfo parser: LastWins, RowsOnlyAfterHeader, Progress', counts_as_states=False)
    n = 0
    errs = 0
    for rec in res.records:
        text = '\n'.join(LINE[c] for c in rec['input']) + '\n'
        with warnings.catch_warnings():
            warnings.simplefilter('ignore')
            got = call(lambda: qemu.QemuImgInfo(text, format='human'))
        n += 1
        if rec['err']:
            errs += 1
            ok = got[0] == 'ValueError'
            obs = got[0]
        else:
            if got[0] != 'ok':
                ok, obs = False, got[0]
            else:
                i = got[1]
                f = rec['fields']
                obs = {'image': i.image, 'file_format': i.file_format, 'virtual_size': i.virtual_size,
                       'disk_size': i.disk_size, 'cluster_size': i.cluster_size, 'backing_file': i.backing_file,
                       'encrypted': i.encrypted, 'snapshots': len(i.snapshots)}
                want = {k: VALUE[f[k]] for k in f}
                want['snapshots'] = max(rec['snaps'], 0)
                ok = obs == want
        if not ok:
            ctx.beyond('QemuInfo', {'kind': 'qemu-parser', 'err': rec['err']},
                          {'lines': rec['input'], 'text': text, 'expected': rec, 'observed': repr(obs)},
                          'QemuImgInfo(human) on lines %s: %s, specification %s' % (rec['input'], obs, {k: v for k, v in rec.items() if k != 'input'}))
    ctx.cov['evaluations'] += n
    ctx.stage('qemu-parser', inputs=n, header_errors=errs)
    if errs == 0:
        raise MachineryError('vacuity: no snapshot-header error case')


def run(ctx):
    from oslo_utils import strutils
    from oslo_utils.imageutils import qemu
    from vf import purity
    _rec = purity.Recorder(strutils, ['string_to_bytes'], every=7)     # a sample across all stages (some 300k calls)
    _rec.__enter__()
    quick = ctx.quick
    ctx.assumptions += [
        'exact comparison when the value is exactly representable in binary64, otherwise relative error <= 2^-50 and '
        'return_int equal to the ceiling of the float the function itself returns',
        "inputs the property does not pin down are outside the generators (trailing newline accepted by '$', Unicode digits)",
    ]
    # 1. every character sequence up to length L
    cfg = 'MC_Units_chars4.cfg' if quick else 'MC_Units_chars5.cfg'
    res = tlc.run('MC_Units', cfg, workdir=ctx.work, workers=8,
                  stdout_path=os.path.join(ctx.work, 'units.out'))
    ctx.tlc(res, 'Units: every string up to length %s over 14 symbols; DocTables (ASSUME), WellFormedOnly' % cfg[-5])
    n = 0
    accepted = 0
    for rec in res.records:
        text = ''.join(rec['s'])
        for sysname, key in (('IEC', 'iec'), ('SI', 'si'), ('mixed', 'mixed')):
            n += 1
            accepted += compare(ctx, text, sysname, rec[key], strutils, 'chars')
    first = res.records[len(res.records) // 2]
    res.records = None
    ctx.stage('char-level', strings=n // 3, comparisons=n, accepted_by_code=accepted)
    if accepted < 100:
        raise MachineryError('vacuity: hardly any well-formed string in the enumeration')
    ctx.cov['evaluations'] += n
    ctx.sample({'chars_case': first})
    # 2. token level: all prefixes x systems x magnitudes x units
    res = tlc.run('MC_Units', 'MC_Units_toks.cfg', workdir=ctx.work, workers=1)
    ctx.tlc(res, 'Units: token-level grammar cases')
    m = 0
    acc2 = 0
    for rec in res.records:
        t = rec['t']
        text = t['sign'] + t['mag'] + t['prefix'] + t['unit']
        m += 1
        sysarg = {'none_object': None, 'zero_object': 0}.get(t['sys'], t['sys'])
        acc2 += compare(ctx, text, sysarg, rec['ref'], strutils, 'tokens')
    ctx.stage('token-level', cases=m, accepted_by_code=acc2)
    ctx.cov['evaluations'] += m
    ctx.cov['distinct_nontrivial'] += acc2 + accepted
    ctx.sample({'token_case': res.records[0]})
    # 3. QemuImgInfo human-readable sizes
    res = tlc.run('MC_Units', 'MC_Units_qemu.cfg', workdir=ctx.work, workers=1)
    ctx.tlc(res, 'Units: QemuImgInfo size shapes')
    q = 0
    for rec in res.records:
        c = rec['q']
        ref = rec['ref']
        field = c['mag'] + ((' ' if q % 2 else '') + c['unit'] if c['unit'] else '')
        if c['bytes']:
            field += ' (%s bytes)' % c['bytes']
        if ref['k'] == 'int':
            want = ('ok', int(ref['v']))
        elif ref['k'] == 'intof':
            mag = c['mag']
            try:
                want = ('ok', int(format(float(mag), '.0f')) if 'e' in mag.lower() else int(mag))
            except ValueError:
                want = ('ValueError', None)
        else:
            mag = c['mag']
            if 'e' in mag.lower():
                mag = format(float(mag), '.0f')
            try:
                v = Fraction(mag if not mag.startswith('.') else '0' + mag)
                unit = ref['v']
                # [prefix] unit with unit in {B, b, bit}; bit units divide by 8 (same arithmetic as string_to_bytes, IEC)
                if unit.endswith('bit'):
                    prefix, bits = unit[:-3], True
                elif unit.endswith('b'):
                    prefix, bits = unit[:-1], True
                elif unit.endswith('B'):
                    prefix, bits = unit[:-1], False
                else:
                    prefix, bits = None, False
                if prefix not in ('', 'K', 'Ki', 'M', 'Mi', 'G', 'Gi', 'T', 'Ti'):
                    want = ('ValueError', None)
                else:
                    exp = {'': 0, 'K': 1, 'M': 2, 'G': 3, 'T': 4}[prefix[:1]]
                    qty = v * 1024 ** exp
                    want = ('ok', math.ceil(qty / 8 if bits else qty))
            except ValueError:
                want = ('ValueError', None)
        text = 'image: x.img\nfile format: raw\nvirtual size: %s\ndisk size: %s\ncluster_size: %s\n' % (field, field, field)
        with warnings.catch_warnings():
            warnings.simplefilter('ignore')
            got = call(lambda: qemu.QemuImgInfo(text, format='human'))
        q += 1
        if got[0] == 'ok':
            info = got[1]
            obs = ('ok', info.virtual_size)
            same = info.virtual_size == info.disk_size == info.cluster_size
        else:
            obs = got
            same = True
        if obs != want or not same:
            ctx.violation({'kind': 'qemu-size', 'shape': ref['k'], 'unit': c['unit'], 'want': want[0], 'got': obs[0]},
                          {'field': field, 'expected': want, 'observed': repr(obs)},
                          'QemuImgInfo size field %r: expected %s, got %s' % (field, want, obs))
    ctx.cov['evaluations'] += q
    ctx.stage('qemu-sizes', cases=q)
    qemu_parser_stage(ctx, qemu)
    _rec.__exit__()
    _rec.replay(ctx, 'c10')
    # 4. binding self-test: an exponent table off by one must be exposed
    saved = dict(strutils.UNIT_PREFIX_EXPONENT)

    class Probe:
        n = 0

        def violation(self, *a):
            Probe.n += 1

        def beyond(self, *a):
            pass
    try:
        strutils.UNIT_PREFIX_EXPONENT['Gi'] = 2
        compare(Probe(), '1GiB', 'IEC', {'err': 'none', 'neg': False, 'mant': '1', 'base': 1024, 'exp': 3, 'bits': False},
                strutils, 'selftest')
    finally:
        strutils.UNIT_PREFIX_EXPONENT.clear()
        strutils.UNIT_PREFIX_EXPONENT.update(saved)
    if Probe.n == 0:
        raise MachineryError('binding self-test: wrong exponent table not exposed')
    ctx.stage('binding-selftest', ok=True)
    ctx.cov['rule'] = ('all character sequences up to length 4/5 over {+,-,0,1,5,.,k,K,M,i,b,B,t,space} x 3 unit systems; '
                       'sign x magnitude class x 22 prefixes + foreign x units x 5 unit-system names at token level; '
                       'QemuImgInfo size shapes; each with and without return_int; distinct_nontrivial = inputs the grammar accepts')
    ctx.cov['exhaustive'] = True
