"""C14 - scalar parsers and validators classify every input exactly."""
import os
import random
import uuid

from vf import tlc
from vf.tlc import MachineryError

SENTINEL = object()
DEFAULTS = {'False': False, 'True': True, 'None': None, 'sentinel': SENTINEL}


WORD_GAMMA = {'off_ligature': 'o\ufb00', 'yes_long_s': 'ye\u017f', 'false_long_s': 'fal\u017fe'}
BIG = {'2^63': 2 ** 63, '2^64': 2 ** 64, '-2^63-1': -2 ** 63 - 1, '10^30': 10 ** 30}


def case_word(w, cas):
    if w in WORD_GAMMA:
        return WORD_GAMMA[w]        # no casing: upper-casing would expand the ligature into the documented word
    if cas == 'lower':
        return w.lower()
    if cas == 'UPPER':
        return w.upper()
    if cas == 'Title':
        return w.title()
    return ''.join(ch.upper() if i % 2 else ch.lower() for i, ch in enumerate(w))


class Port(int):
    """an int subclass of the caller's own"""


SUBCLASSED = [0]


def pad(w, p):
    return {'none': w, 'left': '  ' + w, 'right': w + ' ', 'both': ' ' + w + '  ', 'tabs_newline': '\t' + w + '\n',
            'wide': ' ' * 300 + w + '\t' * 200}[p]


def call(fn, *a, **kw):
    try:
        return ('ok', fn(*a, **kw))
    except ValueError:
        return ('ValueError', None)
    except TypeError:
        return ('TypeError', None)
    except Exception as e:
        return ('EXC:' + type(e).__name__, None)


def bool_expect(ref):
    if ref == 'ValueError':
        return ('ValueError', None)
    if ref in ('True', 'False'):
        return ('ok', ref == 'True')
    return ('ok', DEFAULTS[ref])


def same(a, b):
    if a[0] != b[0]:
        return False
    if a[0] != 'ok':
        return True
    return a[1] is b[1] if (b[1] is SENTINEL or b[1] is None or isinstance(b[1], bool)) else a[1] == b[1]


def run(ctx):
    from oslo_utils import strutils, uuidutils
    from vf import purity
    _rec = purity.Recorder(strutils, ['bool_from_string', 'is_valid_boolstr', 'is_int_like', 'validate_integer', 'check_string_length', 'int_from_bool_as_string'], every=7)
    _rec.__enter__()
    quick = ctx.quick
    ctx.assumptions += ['non-ASCII digits and full-width letters are outside the generators (Python int()/str.lower() semantics)',
                        'bool_from_string of a non-string subject goes through str(subject), as documented']
    res = tlc.run('MC_Scalars', workdir=ctx.work, workers=1)
    ctx.tlc(res, 'Scalars: BoolStrAgrees, BoolIgnoresPadCase, CanonImpliesLiteral on every table row')
    rnd = random.Random(ctx.seed)
    n = 0
    kinds = {}
    for rec in res.records:
        c, ref = rec['c'], rec['ref']
        k = c['k']
        kinds[k] = kinds.get(k, 0) + 1
        checks = []      # (name, observed, expected)
        if k == 'bool':
            text = pad(case_word(c['word'], c['cas']), c['pad'])
            d = DEFAULTS[c['dflt']]
            checks.append(('bool_from_string(%r, strict=%s, default=%s)' % (text, c['strict'], c['dflt']),
                           call(strutils.bool_from_string, text, strict=c['strict'], default=d), bool_expect(ref['bool'])))
            checks.append(('is_valid_boolstr(%r)' % text, call(strutils.is_valid_boolstr, text), ('ok', ref['boolstr'])))
            if ref['bool'] in ('True', 'False') and c['word'] in ('1', 't', 'true', 'on', 'y', 'yes', '0', 'f', 'false', 'off', 'n', 'no'):
                checks.append(('int_from_bool_as_string(%r)' % text, call(strutils.int_from_bool_as_string, text),
                               ('ok', 1 if ref['bool'] == 'True' else 0)))
        elif k == 'boolobj':
            obj = {'True': True, 'False': False, 'int1': 1, 'int0': 0, 'int2': 2, 'None': None, 'float1': 1.0,
                   'bytes1': b'1', 'list': [1]}[c['obj']]
            d = DEFAULTS[c['dflt']]
            checks.append(('bool_from_string(%r, strict=%s, default=%s)' % (obj, c['strict'], c['dflt']),
                           call(strutils.bool_from_string, obj, strict=c['strict'], default=d), bool_expect(ref['bool'])))
        elif k == 'int':
            lit = c['lit']
            if lit['t'] in BIG:
                lit = dict(lit, t=str(BIG[lit['t']]), v=BIG[lit['t']])
            if c['form'] == 'int':
                if not lit['canon']:
                    continue
                val = int(lit['t'])
            else:
                val = lit['t']
            checks.append(('is_int_like(%r)' % (val,), call(strutils.is_int_like, val), ('ok', ref['intlike'])))
            lo = None if c['lo'] == 'none' else int(c['lo'])
            hi = None if c['hi'] == 'none' else int(c['hi'])
            want = ('ok', lit['v']) if ref['validate'] == 'value' else ('ValueError', None)
            if type(val) is int:
                SUBCLASSED[0] += 1
                if SUBCLASSED[0] % 3 == 0:
                    val = Port(val)     # an int all the same: int(v) is the plain number
            got = call(strutils.validate_integer, val, 'the value', lo, hi)
            if got[0] == 'ok' and (type(got[1]) is not int):
                got = ('ok', ('not-int', repr(got[1])))
            checks.append(('validate_integer(%r, min=%s, max=%s)' % (val, lo, hi), got, want))
        elif k == 'intobj':
            obj = {'None': None, 'float2': 2.0, 'float1_5': 1.5, 'True': True, 'bytes5': b'5', 'list': [5],
                   'str_none': 'None'}[c['obj']]
            checks.append(('is_int_like(%r)' % (obj,), call(strutils.is_int_like, obj), ('ok', False)))
            checks.append(('validate_integer(%r)' % (obj,), call(strutils.validate_integer, obj, 'v'), ('ValueError', None)))
        elif k == 'len':
            if c['kind'] == 'str':
                val = ''.join(rnd.choice('abé中 ') for _ in range(c['n']))
            else:
                val = {'int': 11, 'bytes': b'abc', 'none': None, 'list': ['a']}[c['kind']]
            kw = {'min_length': c['min']}
            kw['max_length'] = None if c['max'] == -1 else c['max']
            if c['named']:
                kw['name'] = 'field'
            want = ('ok', None) if ref['len'] == 'None' else (ref['len'], None)
            checks.append(('check_string_length(%r, %s)' % (val, kw), call(strutils.check_string_length, val, **kw), want))
        elif k == 'uuid':
            hexd = ''.join(rnd.choice('0123456789abcdef') for _ in range(c['n']))
            if c['bad'] == 'g_inside':
                i = rnd.randrange(len(hexd))
                hexd = hexd[:i] + 'g' + hexd[i + 1:]
            elif c['bad'] == 'space_inside':
                i = rnd.randrange(1, len(hexd) - 1)
                hexd = hexd[:i] + ' ' + hexd[i + 1:]
            elif c['bad'] == 'space_front':
                hexd = ' ' + hexd[1:]
            elif c['bad'] == 'space_end':
                hexd = hexd[:-1] + ' '
            elif c['bad'] == 'newline_end':
                hexd = hexd[:-1] + '\n'
            elif c['bad'] == 'plus_front':
                hexd = '+' + hexd[1:]
            elif c['bad'] == '0x_front':
                hexd = rnd.choice(['0x', '0X']) + hexd[2:]
            elif c['bad'] == 'underscore_inside':
                i = rnd.randrange(1, len(hexd) - 1)
                hexd = hexd[:i] + '_' + hexd[i + 1:]
            hy = '-'.join([hexd[:8], hexd[8:12], hexd[12:16], hexd[16:20], hexd[20:]])
            text = {'plain': hexd, 'hyphenated': hy, 'braced': '{' + hexd + '}', 'urn': 'urn:uuid:' + hy,
                    'urn_braced_hyph': 'urn:uuid:{' + hy + '}', 'upper': hexd.upper(), 'upper_hyph': hy.upper()}[c['decor']]
            checks.append(('is_uuid_like(%r)' % text, call(uuidutils.is_uuid_like, text), ('ok', ref['uuid'])))
        else:
            obj = {'None': None, 'int': 12345, 'bytes': b'0' * 32, 'empty': '', 'uuid_object': uuid.uuid4()}[c['obj']]
            checks.append(('is_uuid_like(%r)' % (obj,), call(uuidutils.is_uuid_like, obj), ('ok', False)))
        for name, got, want in checks:
            n += 1
            if not same(got, want):
                ctx.violation({'kind': k, 'fn': name.split('(')[0], 'want': want[0] if want[0] != 'ok' else repr(want[1])[:20],
                               'got': got[0] if got[0] != 'ok' else repr(got[1])[:20]},
                              {'case': c, 'call': name, 'expected': repr(want), 'observed': repr(got)},
                              '%s -> %s, specification %s' % (name, got, want))
    ctx.cov['evaluations'] += n
    ctx.cov['distinct_nontrivial'] += len(res.records)
    if len(kinds) < 7:
        raise MachineryError('vacuity: table kinds %s' % kinds)
    ctx.stage('tables', rows=kinds, calls=n)
    ctx.sample({'row': res.records[0]})
    # character level: every string up to length 5/6 over {-,+,0,1,9,_,space,.}
    cfg = 'MC_Scalars_chars5.cfg' if quick else 'MC_Scalars_chars6.cfg'
    res3 = tlc.run('MC_Scalars', cfg, workdir=ctx.work, workers=8, stdout_path=os.path.join(ctx.work, 'scal.out'))
    ctx.tlc(res3, 'Scalars: integer-literal and canonical-form recognisers on every string (CanonIsLiteral)')
    z = 0
    lits = canons = 0
    for rec in res3.records:
        text = ''.join(rec['s'])
        lit, canon = rec['lit'], rec['canon']
        z += 1
        lits += 1 if lit['ok'] else 0
        canons += 1 if canon else 0
        got = call(strutils.is_int_like, text)
        if got != ('ok', canon):
            ctx.violation({'kind': 'chars', 'fn': 'is_int_like', 'want': canon},
                          {'text': text, 'expected': canon, 'observed': repr(got)},
                          'is_int_like(%r) -> %s, specification %s' % (text, got, canon))
        for lo, hi in ((None, None), (1, 9), (0, None), (None, 0), (0, 0)):
            want = ('ValueError', None)
            if lit['ok'] and (lo is None or lit['val'] >= lo) and (hi is None or lit['val'] <= hi):
                want = ('ok', lit['val'])
            got = call(strutils.validate_integer, text, 'v', lo, hi)
            if got != want:
                ctx.violation({'kind': 'chars', 'fn': 'validate_integer', 'want': want[0], 'got': got[0]},
                              {'text': text, 'min': lo, 'max': hi, 'expected': repr(want), 'observed': repr(got)},
                              'validate_integer(%r, min=%s, max=%s) -> %s, specification %s' % (text, lo, hi, got, want))
    res3.records = None
    ctx.cov['evaluations'] += 6 * z
    ctx.stage('char-level', strings=z, integer_literals=lits, canonical=canons)
    if lits < 100 or canons < 20:
        raise MachineryError('vacuity: character-level enumeration: %d literals, %d canonical' % (lits, canons))
    # generate_uuid is always uuid-like, in both spellings; every draw is distinct
    seen = set()
    g = 0
    for j in range(5000 if quick else 100000):
        for dashed in (True, False):
            u = uuidutils.generate_uuid(dashed=dashed)
            g += 1
            ok = uuidutils.is_uuid_like(u) and isinstance(u, str) and (len(u) == (36 if dashed else 32)) and u not in seen
            seen.add(u)
            if not ok:
                ctx.violation({'kind': 'generate_uuid', 'dashed': dashed}, {'value': u},
                              'generate_uuid(dashed=%s) -> %r is not uuid-like / not fresh' % (dashed, u))
    ctx.cov['evaluations'] += g
    ctx.stage('generate_uuid', draws=g)
    # spec growth: fixture._UUIDSentinels (spec/Sentinels.tla: one value per name under the lock)
    import threading
    from oslo_utils import fixture as fx
    for cfg, expect in (('MC_Sentinels.cfg', None), ('MC_Sentinels_nolock.cfg', 'Stable')):
        r = tlc.run('Sentinels', cfg, workdir=ctx.work, workers=4, parse=False, allow_violation=bool(expect))
        ctx.tlc(r, 'Sentinels %s' % cfg, counts_as_states=False)
        if expect and r.violated != expect:
            raise MachineryError('Sentinels without the lock should violate %s, TLC says %s' % (expect, r.violated))
    for dashed in (True, False):
        sn = fx._UUIDSentinels(is_dashed=dashed)
        a, b, a2 = sn.foo, sn.bar, sn.foo
        ok = a == a2 and a != b and uuidutils.is_uuid_like(a) and (('-' in a) == dashed)
        try:
            sn._private
            ok = False
        except AttributeError:
            pass
        results = []
        barrier = threading.Barrier(16)

        def worker():
            barrier.wait()
            results.append(sn.shared)
        ths = [threading.Thread(target=worker) for _ in range(16)]
        [t.start() for t in ths]
        [t.join() for t in ths]
        if not ok or len(set(results)) != 1:
            ctx.beyond('Sentinels', {'kind': 'uuid-sentinels', 'dashed': dashed}, {'values': [a, b, a2], 'threads': sorted(set(results))},
                          '_UUIDSentinels(is_dashed=%s): one value per name violated' % dashed)
    ctx.stage('uuid-sentinels', ok=True)
    _rec.__exit__()
    _rec.replay(ctx, 'c14')
    # binding self-test
    saved = getattr(strutils, 'TRUE_STRINGS', None)
    exposed = False
    if saved is not None:
        try:
            strutils.TRUE_STRINGS = tuple(s for s in saved if s != 'on')
            exposed = strutils.bool_from_string('on') is False
        finally:
            strutils.TRUE_STRINGS = saved
    ctx.selftest_internal(exposed, "dropping 'on' from strutils.TRUE_STRINGS does not change bool_from_string")
    ctx.cov['rule'] = ('25 words (12 documented + near misses) x 4 casings x 6 paddings (one of 500 blanks) x strict x 4 defaults; non-string subjects; '
                       '26 integer literals (canonical, signed, padded, underscored, malformed) x str/int/int-subclass form x bounds at '
                       'lo-1/lo/hi/hi+1; string lengths 0..6 x min x max incl. None and 0; hex strings of length 30..34 x 7 '
                       'decorations x corruptions; generate_uuid draws')
    ctx.cov['exhaustive'] = True
