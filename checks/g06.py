"""G06 (specification growth, no listed property) - CausedByException.pformat as a walk over cause pointers
(spec/CausePrint.tla) and eventletutils.warn_eventlet_not_patched as a decision table (spec/PatchWarn.tla)."""
import os
import re
import traceback
import warnings

from vf import tlc
from vf.tlc import MachineryError


def seq(x):
    return list(x) if isinstance(x, (list, tuple)) else []


def build(excutils, kinds, causes):
    """one exception object per node, linked as the graph says (cycles included)"""
    n = len(kinds)
    classes = {}
    objs = []
    for i in range(n):
        k = kinds[i]
        if k == 'caused':
            cls = classes.setdefault(i, type('Caused%d' % (i + 1), (excutils.CausedByException,), {}))
            objs.append(cls('message %d' % (i + 1)))
        elif k == 'foreign':
            objs.append(ValueError('message %d' % (i + 1)))
        else:
            objs.append(SyntaxError('message %d' % (i + 1), ('file%d.py' % (i + 1), 3, 5, 'x = = 1\n')))
    for i in range(n):
        c = causes[i]
        objs[i].cause = objs[c - 1] if c else None      # foreign exceptions get the attribute too: it is not followed
    return objs


def expected_text(objs, rec, indent_text):
    lines = []
    for j, ln in enumerate(rec['out']):
        o = objs[ln['n'] - 1]
        pad = indent_text * ln['ind']
        if rec['kind'][ln['n'] - 1] == 'caused':
            lines.append(pad + ((type(o).__name__ + ': ') if ln['cls'] else '') + 'message %d' % ln['n'])
        else:
            for text in traceback.format_exception_only(type(o), o):
                lines.append(pad + (text[:-1] if text.endswith('\n') else text))
    return os.linesep.join(lines)


def cause_print_stage(ctx):
    from oslo_utils import excutils
    cfg = 'MC_CausePrint.cfg'
    res = tlc.run('MC_CausePrint', cfg, workdir=ctx.work, workers=8, coverage=True, timeout=900,
                  stdout_path=os.path.join(ctx.work, 'cp.out'))
    ctx.tlc(res, 'CausePrint: IndentGrows NoRepeat Bounded ForeignEndsIt FollowsCauses Complete Terminates, every graph on 4 exceptions')
    if res.coverage.get('Visit', (0, 0))[1] == 0 or res.coverage.get('Stop', (0, 0))[1] == 0:
        raise MachineryError('vacuity: Visit/Stop never taken')
    recs = res.records
    if ctx.quick:
        recs = recs[::7]
    n = 0
    shapes = {'cycle_through_root': 0, 'cycle_behind_root': 0, 'foreign_end': 0, 'plain_end': 0, 'multi_line': 0}
    for rec in recs:
        kinds = seq(rec['kind'])
        causes = seq(rec['cause'])
        objs = build(excutils, kinds, causes)
        text_ind = ('.', '  ', '\t')[n % 3]
        try:
            got = objs[0].pformat(indent=rec['indent'], indent_text=text_ind, show_root_class=rec['show'])
        except Exception as e:      # noqa
            got = 'EXC:' + type(e).__name__
        want = expected_text(objs, rec, text_ind)
        n += 1
        last = rec['out'][-1]
        if kinds[last['n'] - 1] != 'caused':
            shapes['foreign_end'] += 1
            if kinds[last['n'] - 1] == 'foreign_multi':
                shapes['multi_line'] += 1
        elif causes[last['n'] - 1] == 0:
            shapes['plain_end'] += 1
        elif any(l['n'] == 1 for l in rec['out'][1:]):
            shapes['cycle_through_root'] += 1
        else:
            shapes['cycle_behind_root'] += 1
        if got != want:
            ctx.beyond('CausePrint', {'kind': 'pformat', 'lines_expected': len(want.split(os.linesep)),
                                      'lines_observed': len(str(got).split(os.linesep)), 'show': rec['show']},
                       {'kinds': kinds, 'causes': causes, 'indent': rec['indent'], 'show_root_class': rec['show'],
                        'expected': want, 'observed': got},
                       'pformat(indent=%d, show_root_class=%s) over exceptions %s linked %s gives %r, the walk of the specification %r' % (
                           rec['indent'], rec['show'], kinds, causes, got, want))
        if n % 50 == 0:
            # str() and bytes() are the default rendering
            dflt = objs[0].pformat()
            if str(objs[0]) != dflt or bytes(objs[0]) != dflt.encode('utf8'):
                ctx.beyond('CausePrint', {'kind': 'str-bytes'}, {'kinds': kinds, 'causes': causes},
                           'str() / bytes() of a CausedByException differ from pformat()')
    for bad in (-1, -5):
        try:
            excutils.CausedByException('m').pformat(indent=bad)
            out = 'returned'
        except ValueError:
            out = 'ValueError'
        except Exception as e:      # noqa
            out = 'EXC:' + type(e).__name__
        if out != 'ValueError':
            ctx.beyond('CausePrint', {'kind': 'negative-indent'}, {'indent': bad, 'observed': out}, 'pformat(indent=%d) -> %s' % (bad, out))
    if min(shapes.values()) == 0:
        raise MachineryError('vacuity: shapes %s' % shapes)
    ctx.cov['evaluations'] += n
    ctx.cov['distinct_nontrivial'] += n
    ctx.stage('cause-walks', graphs=n, shapes=shapes)
    ctx.sample({'walk': recs[len(recs) // 2]})
    # binding self-test: a walk that does not stop at a repeat would never return on a cycle; one that puts the root on
    # the visited list prints a cycle through the root one line shorter - the comparison must notice
    rec = next(r for r in recs if any(l['n'] == 1 for l in r['out'][1:]))
    objs = build(excutils, seq(rec['kind']), seq(rec['cause']))
    want = expected_text(objs, rec, '.')
    shorter = os.linesep.join(want.split(os.linesep)[:-1])
    if objs[0].pformat(indent=rec['indent'], indent_text='.', show_root_class=rec['show']) == shorter:
        raise MachineryError('binding self-test: the expected text of a cycle through the root is not what the code prints')
    ctx.stage('binding-selftest', ok=True)


class FakePatcher:
    def __init__(self, table, patched):
        if table != 'absent':
            self.already_patched = {} if table == 'empty' else {m: True for m in (patched or ['socket'])}
        self._patched = set(patched)
        self.asked = []

    def is_monkey_patched(self, m):
        self.asked.append(m)
        return m in self._patched


def patch_warn_stage(ctx):
    from oslo_utils import eventletutils as eu
    res = tlc.run('MC_PatchWarn', workdir=ctx.work, workers=1)
    ctx.tlc(res, 'PatchWarn: SilentWhenDone AllIsDefault OrderFree MissingSound on every row')
    saved = (eu.EVENTLET_AVAILABLE, eu._patcher)
    n = 0
    kinds = {}
    try:
        for rec in res.records:
            c, ref = rec['c'], rec['ref']
            exp = seq(c['expected'])
            patched = seq(c['patched'])
            for container in (list, tuple, iter):
                eu.EVENTLET_AVAILABLE = c['avail']
                fake = FakePatcher(c['table'], patched)
                eu._patcher = fake if c['avail'] else None
                args = (container(exp),) if c['given'] else ()
                with warnings.catch_warnings(record=True) as caught:
                    warnings.simplefilter('always')
                    try:
                        eu.warn_eventlet_not_patched(*args, what='the thing under test')
                        got = ['silent', []]
                    except ValueError:
                        got = ['ValueError', []]
                    except Exception as e:      # noqa
                        got = ['EXC:' + type(e).__name__, []]
                if got[0] == 'silent' and caught:
                    msgs = [w for w in caught if issubclass(w.category, RuntimeWarning)]
                    if len(msgs) == 1 and 'the thing under test' in str(msgs[0].message):
                        m = re.search(r"\[(.*?)\]", str(msgs[0].message))
                        got = ['warns', [x.strip(" '") for x in m.group(1).split(',')] if m else ['?']]
                    else:
                        got = ['warnings:%d' % len(caught), []]
                n += 1
                kinds[ref['k']] = kinds.get(ref['k'], 0) + 1
                want = [ref['k'], sorted(seq(ref['missing']))]
                if container is iter and c['given'] and not exp:
                    continue        # an exhausted iterator is truthy: not the same question as an empty list
                if got != want:
                    ctx.beyond('PatchWarn', {'kind': 'warn_eventlet_not_patched', 'want': want[0], 'got': got[0]},
                               {'case': c, 'container': container.__name__, 'expected': want, 'observed': got},
                               'warn_eventlet_not_patched(%s) with eventlet %s, patcher table %s, patched %s: %s, specification %s' % (
                                   exp if c['given'] else '', 'there' if c['avail'] else 'absent', c['table'], patched, got, want))
    finally:
        eu.EVENTLET_AVAILABLE, eu._patcher = saved
    if set(kinds) != {'ValueError', 'silent', 'warns'}:
        raise MachineryError('vacuity: %s' % kinds)
    ctx.cov['evaluations'] += n
    ctx.stage('patch-warnings', cases=len(res.records), calls=n, outcomes=kinds)
    ctx.sample({'case': res.records[len(res.records) // 2]})


def run(ctx):
    ctx.assumptions += ['growth check: mismatches are beyond-property reports, no listed property is decided here',
                        'lines of exceptions of other families are what traceback.format_exception_only gives (delegated)',
                        "eventlet's patcher is replaced by a stub with the two things the function reads"]
    cause_print_stage(ctx)
    patch_warn_stage(ctx)
    ctx.cov['rule'] = ('every cause graph on 4 exceptions (3 kinds each, cause pointers anywhere incl. cycles) x indent 0..2 x '
                       'show_root_class, three indent texts; every row of the patch-warning table x list / tuple / iterator arguments')
    ctx.cov['exhaustive'] = True
