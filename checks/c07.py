"""C07 - virtual_size equals the disk size the image declares."""
import multiprocessing
import random

from checks import engine_scaled
from checks import real_images as ri
from vf import traces
from vf.tlc import MachineryError

SIZED = {'qcow2', 'vhd', 'vdi', 'iso', 'vhdx', 'vmdk'}
NEVER = (1 << 31) - 1


def expected_final(rec, length):
    return ri.size_value(rec['ref']['size'], length)


def one_image(rec, rnd, deep, override=None):
    """Build, stream under schedules sampling virtual_size after every chunk.
    -> list of (trace, problems)"""
    from vf import images, insp
    from oslo_utils.imageutils import format_inspector as fi
    L = dict(rec['L'])
    fmt, B = ri.gamma(L)
    if override:
        B.update(override)
    data, bounds = images.build(fmt, B, rnd)
    n = len(data)
    ref = rec['ref']
    want = ri.size_value(ref['size'], n) if not override else override['_expect'](n)
    known_at = rec['carrier'] if ref['size']['k'] != 'zero' else NEVER
    if fmt not in SIZED:
        known_at = n
    out = []
    scheds_ = ri.schedules(n, bounds + [rec['carrier']], rnd, deep)
    for si, sched in enumerate(scheds_ + [scheds_[min(1, len(scheds_) - 1)]]):
        as_view = si == len(scheds_)             # once more, as memoryviews of one reused buffer
        ev = []

        def cb(i, k, pos, inspector, obs, err):
            if fmt in SIZED and err is None:
                ev.append({'pos': pos, 'vs': str(insp.safe(lambda: inspector.virtual_size))})
        r = insp.run(fi.ALL_FORMATS[fmt], data, sched, observe=cb, as_view=as_view)
        if as_view:
            sched = {'memoryview_chunks_of': ri.describe(sched)}
        problems = []
        final = r['verdict'][3] if r['err'] is None else None
        if r['err'] is None:
            ev.append({'pos': n, 'vs': str(final)})
        # direct checks (the trace spec re-checks them in TLC)
        for e in ev:
            if fmt in SIZED and e['pos'] < known_at and e['vs'] != '0':
                problems.append(('nonzero-while-unknown', e, known_at))
                break
        if ref['size']['k'] != 'zero' or override:
            # the layout declares a size that a complete presentation must report
            if r['err'] is not None:
                problems.append(('raised-on-sized-image', r['err'] + ': ' + str(r['err_msg']), want))
            elif final != want:
                problems.append(('final', final, want))
        elif r['err'] is None and final != 0:
            problems.append(('final', final, 0))
        tr = {'fmt': fmt, 'carrier': known_at, 'declared': str(want), 'lenbased': False, 'ev': ev}
        out.append((tr, problems, ri.describe(sched)))
    return out


def _job(args):
    items, seed, deep = args
    import logging
    logging.disable(logging.CRITICAL)
    res = []
    for idx, rec, override_tok in items:
        rnd = random.Random(seed * 31337 + idx)
        override = None
        if override_tok is not None:
            override = make_override(rec['L']['fmt'], rnd)
        for tr, problems, sched in one_image(rec, rnd, deep, override):
            res.append((idx, rec['L'], override_tok, tr, problems, sched))
    return res


def make_override(fmt, rnd):
    """A random declared size over the field's full range (gamma-level sampling)."""
    def r64():
        k = rnd.choice([0, 1, 2, 3])
        if k == 0:
            return rnd.getrandbits(64)
        if k == 1:
            e = rnd.randint(0, 63)
            return max(0, (1 << e) + rnd.choice([-1, 0, 1]))
        if k == 2:
            return rnd.getrandbits(rnd.randint(1, 64))
        return (1 << 64) - 1 - rnd.getrandbits(8)
    if fmt in ('qcow2', 'vhd', 'vdi', 'vhdx'):
        v = r64()
        return {'size': v, '_expect': lambda n: v}
    if fmt == 'vmdk':
        v = r64()
        return {'sectors': v, '_expect': lambda n: v * 512}
    if fmt == 'iso':
        b = rnd.getrandbits(rnd.randint(1, 32))
        z = rnd.getrandbits(rnd.randint(1, 16))
        return {'blocks': b, 'bs': z, '_expect': lambda n: b * z}
    if fmt == 'luks':
        p = rnd.getrandbits(rnd.randint(1, 32))
        return {'payload': p, '_expect': lambda n: n - p * 512}
    return {'_expect': lambda n: n}


def side_by_side_stage(ctx, clean_by_fmt):
    """Two inspectors of one format fed alternately, each from an image declaring its own size: every one reports
    the size of ITS stream (nothing about a stream lives anywhere but in its inspector)."""
    from vf import images, insp
    from oslo_utils.imageutils import format_inspector as fi
    rnd = random.Random(ctx.seed + 23)
    n = 0
    for fmt, (i, rec) in sorted(clean_by_fmt.items()):
        if fmt not in SIZED:
            continue
        for j in range(6 if ctx.quick else 60):
            built = []
            for side in range(2):
                ov = make_override(fmt, rnd)
                L, B = ri.gamma(dict(rec['L']))
                B.update({k: v for k, v in ov.items()})
                data, bounds = images.build(L, B, rnd)
                built.append((data, ov['_expect'](len(data))))
            objs = [fi.ALL_FORMATS[fmt](), fi.ALL_FORMATS[fmt]()]
            size = rnd.choice([512, 4096, 65536])
            pos = 0
            longest = max(len(d) for d, _ in built)
            mid = []
            while pos < longest:
                for k2 in (0, 1):
                    d = built[k2][0]
                    if pos < len(d):
                        objs[k2].eat_chunk(d[pos:pos + size])
                pos += size
                mid.append([insp.safe(lambda o=o: o.virtual_size) for o in objs])
            finals = []
            for o in objs:
                o.finish()
                finals.append(insp.safe(lambda o=o: o.virtual_size))
            # and a third inspector that has seen nothing reports nothing
            fresh = insp.safe(lambda: fi.ALL_FORMATS[fmt]().virtual_size)
            n += 1
            want = [built[0][1], built[1][1]]
            stray = [m for m in mid if any(v not in (0, want[k3]) for k3, v in enumerate(m))]
            if finals != want or fresh != 0 or stray:
                ctx.violation({'kind': 'side-by-side', 'fmt': fmt, 'fresh_ok': fresh == 0, 'final_ok': finals == want},
                              {'layout': rec['L'], 'declared': want, 'observed_final': finals, 'fresh_inspector': fresh,
                               'read_size': size, 'stray_mid_stream': stray[:3]},
                              '%s: two inspectors fed alternately (read size %d) report %s for streams declaring %s; an unused '
                              'inspector reports %s' % (fmt, size, finals, want, fresh))
    ctx.cov['evaluations'] += n
    ctx.stage('side-by-side', pairs=n)


def run(ctx):
    quick = ctx.quick
    ctx.assumptions += ['64-bit arithmetic is evaluated by Python on both sides (the spec carries sizes as symbolic tokens)',
                        'LUKS virtual_size on streams shorter than its header is not sampled (struct.error; the property is about well-formed images)']
    # A. engine part: ZeroWhileUnknown / size in the scaled model
    res = engine_scaled.model_check(ctx, 'chain', 7, [0, 1, 3, 4])
    ctx.tlc(res, 'CaptureEngine chain: ZeroWhileUnknown, Verdict (incl. size) = Ref')
    # B. real scale
    records = ri.export_layouts(ctx)
    rnd = random.Random(ctx.seed)
    caps = {'gpt': 40, 'qcow2': 150, 'vmdk': 220 if quick else 900, 'vhdx': 900,
            '*': 200 if quick else 2000}
    chosen = ri.select(records, caps, rnd, always=lambda rec: rec['clean'] and rec['L']['fmt'] in SIZED
                       and rec['L'].get('size', '10G') != '10G')
    items = [(i, rec, None) for i, rec in chosen]
    clean_by_fmt = {}
    for i, rec in chosen:
        if rec['clean'] and rec['ref']['size']['k'] != 'zero' and rec['L'].get('total', -1) in (-1, 1024, 35328, 4096, 2048):
            clean_by_fmt.setdefault(rec['L']['fmt'], (i, rec))
    nrand = 30 if quick else 400
    k = 100000
    for fmt, (i, rec) in sorted(clean_by_fmt.items()):
        for j in range(nrand):
            k += 1
            items.append((k, rec, 'rnd'))
    side_by_side_stage(ctx, clean_by_fmt)
    jobs = [(items[i:i + 16], ctx.seed, not quick) for i in range(0, len(items), 16)]
    all_traces = []
    runs = 0
    stats = {'images': len(items), 'nonzero_final': 0}
    with multiprocessing.Pool(16) as pool:
        for out in pool.imap_unordered(_job, jobs):
            for idx, L, otok, tr, problems, sched in out:
                runs += 1
                if tr['declared'] not in ('0',):
                    stats['nonzero_final'] += 1
                for p in problems:
                    ctx.violation({'kind': p[0], 'fmt': L['fmt']},
                                  {'layout': L, 'random_size': otok is not None, 'schedule': sched, 'problem': p,
                                   'declared': tr['declared']},
                                  '%s image %s (declared %s) under chunking %s: %s' % (
                                      L['fmt'], L, tr['declared'], sched, p))
                if tr['ev'] and len(tr['ev']) <= 300:
                    all_traces.append((tr, L, sched))
    ctx.cov['evaluations'] += runs
    ctx.cov['distinct_nontrivial'] += len(items)
    ctx.stage('size-runs', images=len(items), runs=runs, runs_with_nonzero_declared=stats['nonzero_final'],
              formats_with_random_sizes=sorted(clean_by_fmt))
    if len(clean_by_fmt) < 9:
        raise MachineryError('vacuity: clean base layout missing for some format: %s' % sorted(clean_by_fmt))
    # text-only VMDK descriptors: the structure carrying the size (the sparse header) never
    # arrives, so the size stays 0 at every prefix, whatever createType says
    from vf import images, insp
    from oslo_utils.imageutils import format_inspector as fi
    ntext = 0
    for j in range(60 if quick else 600):
        r2 = random.Random(ctx.seed * 77 + j)
        lines = ['comment', 'version', 'cid', 'parent',
                 r2.choice(['ct_mono', 'ct_stream', 'ct_upper', 'ct_flat']), 'blank',
                 r2.choice(['extent_rw', 'extent_rdonly']), 'ddb']
        data, bounds = images.build('vmdk_text', {'lines': lines, 'total': r2.choice([None, 300, 600, 5000])}, r2)
        for sched in ri.schedules(len(data), bounds, r2, False)[:12]:
            ev = []

            def cb(i, k, pos, inspector, obs, err):
                ev.append({'pos': pos, 'vs': str(insp.safe(lambda: inspector.virtual_size))})
            r = insp.run(fi.VMDKInspector, data, sched, observe=cb)
            ev.append({'pos': len(data), 'vs': str(r['verdict'][3])})
            ntext += 1
            bad = [e for e in ev if e['vs'] != '0']
            if bad and r['err'] is None:
                ctx.violation({'kind': 'nonzero-while-unknown', 'fmt': 'vmdk', 'mode': 'text'},
                              {'lines': lines, 'schedule': ri.describe(sched), 'sample': bad[0]},
                              'text-only VMDK descriptor %s: virtual_size is %s at position %d although no '
                              'sparse header was ever captured (chunking %s)' % (
                                  lines, bad[0]['vs'], bad[0]['pos'], ri.describe(sched)))
            all_traces.append(({'fmt': 'vmdk', 'carrier': NEVER, 'declared': '0', 'lenbased': False, 'ev': ev},
                               {'fmt': 'vmdk_text', 'lines': lines}, ri.describe(sched)))
    ctx.cov['evaluations'] += ntext
    ctx.stage('vmdk-text-size', runs=ntext)
    rnd.shuffle(all_traces)
    sel = all_traces[:(3000 if quick else 30000)]
    for b in range(0, len(sel), 5000):
        part = sel[b:b + 5000]
        rejected, inv, r = traces.validate(ctx, 'Trace_Size', [p[0] for p in part], 'b%d' % b)
        ctx.tlc(r, 'Trace_Size batch', counts_as_states=False)
        ctx.cov['traces_validated_against_impl'] += len(part) - len(rejected)
        bad = set(rejected)
        if inv:
            # an invariant failed on some trace: find which by re-validating singly (bounded)
            for i, p in enumerate(part[:0]):
                pass
        for i in sorted(bad)[:5]:
            tr, L, sched = part[i]
            at, inv1 = traces.diagnose(ctx, 'Trace_Size', tr)
            ctx.violation({'kind': 'size-trace', 'fmt': tr['fmt'], 'invariant': inv1},
                          {'layout': L, 'schedule': sched, 'trace': tr, 'line': at},
                          '%s size trace (%s, chunking %s) rejected at line %d %s' % (tr['fmt'], L, sched, at, inv1 or ''))
        if inv and not bad and not ctx.violations:
            raise MachineryError('Trace_Size: invariant %s violated but direct checks passed' % inv)
    ctx.stage('size-traces', validated=ctx.cov['traces_validated_against_impl'])
    ctx.sample({'size_trace': sel[0][0], 'layout': sel[0][1]})
    # C. binding self-test
    good = {'fmt': 'qcow2', 'carrier': 512, 'declared': '77', 'lenbased': False,
            'ev': [{'pos': 100, 'vs': '0'}, {'pos': 512, 'vs': '77'}, {'pos': 600, 'vs': '77'}]}
    early = {'fmt': 'qcow2', 'carrier': 512, 'declared': '77', 'lenbased': False,
             'ev': [{'pos': 100, 'vs': '77'}, {'pos': 512, 'vs': '77'}]}
    wrong = {'fmt': 'qcow2', 'carrier': 512, 'declared': '77', 'lenbased': False,
             'ev': [{'pos': 100, 'vs': '0'}, {'pos': 512, 'vs': '76'}]}
    outs = []
    for t in (good, early, wrong):
        rejected, inv, _ = traces.validate(ctx, 'Trace_Size', [t], 'selftest')
        outs.append(bool(rejected) or bool(inv))
    if outs != [False, True, True]:
        raise MachineryError('binding self-test (Trace_Size) failed: %s' % outs)
    ctx.stage('binding-selftest', ok=True)
    ctx.cov['rule'] = ('layouts of ImageRef (size tokens x admissible layouts x truncations) plus random 64-bit sizes per '
                       'format, each under boundary-derived chunkings with virtual_size sampled after every chunk; '
                       'distinct_nontrivial = images built')
