"""C17 - version helpers preserve ordering and PEP 440 semantics."""
import os
import random

from vf import tlc
from vf.tlc import MachineryError


def pep_text(v, rnd=None):
    s = ''
    if v['epoch']:
        s += '%d!' % v['epoch']
    s += '.'.join(str(x) for x in v['rel'])
    kind, n = v['pre']
    if kind:
        s += {1: 'a', 2: 'b', 3: 'rc'}[kind] + str(n)
    if v['post'] != -1:
        s += '.post%d' % v['post']
    if v['dev'] != -1:
        s += '.dev%d' % v['dev']
    return s


def call(fn, *a, **kw):
    try:
        return ('ok', fn(*a, **kw))
    except ValueError:
        return ('ValueError', None)
    except Exception as e:
        return ('EXC:' + type(e).__name__, None)


class SemVer(tuple):
    """a tuple subclass (as a namedtuple is)"""


class Label(str):
    """a str subclass"""


def run(ctx):
    from oslo_utils import versionutils as vu
    from vf import purity
    _rec = purity.Recorder(vu, ['convert_version_to_int', 'convert_version_to_str', 'convert_version_to_tuple', 'is_compatible'], every=1)
    _rec.__enter__()
    # ... and one predicate OBJECT asked by several callers: the recorder keeps the object, so that the order / thread
    # replay asks the very same predicates again
    _recp = purity.Recorder(vu.VersionPredicate, ['satisfied_by'], every=1)
    _recp.__enter__()
    quick = ctx.quick
    ctx.assumptions += ['components >= 1000 are outside the statement (the radix-1000 encoding is not injective there)',
                        'big-number arithmetic is Python on both sides: the spec carries the base-1000 digit sequence',
                        "components padded with blanks ('1. 2') are accepted by int() and are not claimed either way"]
    res = tlc.run('MC_Versions', workdir=ctx.work, workers=4, stdout_path=os.path.join(ctx.work, 'ver.out'), timeout=600)
    ctx.tlc(res, 'Versions: Trichotomy / Antisymmetric / EqIsKeyEq / LexTotal; PEP 440 landmarks (ASSUME)')
    rnd = random.Random(ctx.seed)
    counts = {}
    reuse = {}
    n = 0
    for rec in res.records:
        c, ref = rec['c'], rec['ref']
        k = c['k']
        counts[k] = counts.get(k, 0) + 1
        if k == 'conv':
            digits = c['v']
            want_int = 0
            for d in digits:
                want_int = want_int * 1000 + d
            text = '.'.join(str(d) for d in digits)
            suffix = '' if c['suffix'] == 'none' else c['suffix']
            arg = tuple(digits) if c['form'] == 'tuple' else text + suffix
            if n % 4 == 3:
                # a named tuple is a tuple and a str subclass instance is a str
                arg = SemVer(arg) if isinstance(arg, tuple) else Label(arg)
            got = call(vu.convert_version_to_int, arg)
            n += 1
            if got != ('ok', want_int):
                ctx.violation({'kind': 'to_int', 'form': c['form'], 'suffix': c['suffix'] != 'none', 'len': len(digits)},
                              {'argument': repr(arg), 'expected': want_int, 'observed': repr(got)},
                              'convert_version_to_int(%r) -> %s, specification %d' % (arg, got, want_int))
                continue
            back = call(vu.convert_version_to_str, got[1])
            if back != ('ok', text):
                ctx.violation({'kind': 'round-trip', 'len': len(digits), 'has_zero': 0 in digits},
                              {'version': text, 'int': got[1], 'observed': repr(back)},
                              'convert_version_to_str(convert_version_to_int(%r)) -> %s' % (text, back))
            if c['form'] == 'str' and not suffix:
                tup = call(vu.convert_version_to_tuple, text)
                if tup != ('ok', tuple(digits)):
                    ctx.violation({'kind': 'to_tuple'}, {'version': text, 'observed': repr(tup)},
                                  'convert_version_to_tuple(%r) -> %s' % (text, tup))
        elif k == 'order':
            a = '.'.join(str(d) for d in c['a'])
            b = '.'.join(str(d) for d in c['b'])
            ra, rb = call(vu.convert_version_to_int, a), call(vu.convert_version_to_int, b)
            n += 1
            if ra[0] != 'ok' or rb[0] != 'ok':
                ctx.violation({'kind': 'to_int-raises', 'got': ra[0] if ra[0] != 'ok' else rb[0]}, {'a': a, 'b': b, 'observed': [repr(ra), repr(rb)]},
                              'convert_version_to_int(%r) / (%r) -> %s / %s on well-formed versions' % (a, b, ra, rb))
                continue
            ia, ib = ra[1], rb[1]
            got = 'eq' if ia == ib else ('lt' if ia < ib else 'gt')
            if got != ref['ord']:
                ctx.violation({'kind': 'order', 'want': ref['ord'], 'got': got}, {'a': a, 'b': b, 'ints': [ia, ib]},
                              'int(%s)=%d vs int(%s)=%d ordered %s, tuples are ordered %s' % (a, ia, b, ib, got, ref['ord']))
        elif k == 'bad':
            got = call(vu.convert_version_to_int, c['text'])
            n += 1
            if got[0] != 'ValueError':
                ctx.violation({'kind': 'malformed', 'got': got[0]}, {'text': c['text'], 'observed': repr(got)},
                              'convert_version_to_int(%r) -> %s, specification ValueError' % (c['text'], got))
        elif k == 'compat':
            req, cur = pep_text(c['req']), pep_text(c['cur'])
            got = call(vu.is_compatible, req, cur, same_major=c['same_major'])
            n += 1
            if got != ('ok', ref['ok']):
                ctx.violation({'kind': 'is_compatible', 'same_major': c['same_major'], 'want': ref['ok']},
                              {'requested': req, 'current': cur, 'same_major': c['same_major'], 'observed': repr(got)},
                              'is_compatible(%r, %r, same_major=%s) -> %s, specification %s' % (
                                  req, cur, c['same_major'], got, ref['ok']))
        elif k == 'pred':
            parts = []
            for op, v in c['preds']:
                sp = rnd.choice(['', ' ', '  '])
                parts.append(sp + op + rnd.choice(['', ' ']) + pep_text(v) + sp)
            text = ','.join(parts)
            cand = pep_text(c['cand'])
            p = call(vu.VersionPredicate, text)
            n += 1
            if p[0] != 'ok':
                ctx.violation({'kind': 'predicate-parse', 'got': p[0]}, {'predicate': text}, 'VersionPredicate(%r) raised %s' % (text, p[0]))
                continue
            reuse.setdefault(text, []).append((cand, ref['ok']))
            got = call(p[1].satisfied_by, cand)
            if got != ('ok', ref['ok']):
                ctx.violation({'kind': 'satisfied_by', 'ops': sorted(set(op for op, _ in c['preds'])), 'want': ref['ok']},
                              {'predicate': text, 'candidate': cand, 'observed': repr(got), 'expected': ref['ok']},
                              'VersionPredicate(%r).satisfied_by(%r) -> %s, specification %s' % (text, cand, got, ref['ok']))
        else:
            got = call(vu.VersionPredicate, c['text'])
            n += 1
            if got[0] == 'ValueError':
                # ... and still malformed after the well-formed text it resembles (blanks removed) has been parsed
                call(vu.VersionPredicate, ''.join(c['text'].split()))
                got = call(vu.VersionPredicate, c['text'])
            if got[0] != 'ValueError':
                ctx.violation({'kind': 'bad-predicate', 'got': got[0]}, {'predicate': c['text'], 'observed': repr(got)},
                              'VersionPredicate(%r) -> %s, specification ValueError' % (c['text'], got[0]))
    # one predicate object asked about many versions, in two orders: each answer is about the version asked, whatever
    # was asked before (the same object; PredCases gives the answer per candidate)
    merged = {}
    for text, lst in reuse.items():
        merged.setdefault(''.join(text.split()), (text, []))[1].extend(lst)
    ru = 0
    for key_, (text, lst) in sorted(merged.items()):
        if len(lst) < 2:
            continue
        obj = call(vu.VersionPredicate, text)
        if obj[0] != 'ok':
            continue
        pred = getattr(obj[1], 'pred', None)
        if not isinstance(pred, list) or any(not (isinstance(e, tuple) and len(e) == 2 and isinstance(e[0], str)) for e in pred):
            # which attributes a predicate object has is not in the statement; callers print .pred back as text
            ctx.beyond('Versions', {'kind': 'predicate-pred-attribute'}, {'predicate': text, 'observed': repr(pred)[:300]},
                       'VersionPredicate(%r).pred is %s; the module keeps a list of (operator text, version) pairs' % (text, repr(pred)[:200]))
        seq = sorted(set(lst))
        for cand, want in seq + seq[::-1] + seq[::2] + seq[1::2]:
            ru += 1
            got = call(obj[1].satisfied_by, cand)
            if got != ('ok', want):
                ctx.violation({'kind': 'satisfied_by-on-a-reused-predicate', 'want': want},
                              {'predicate': text, 'candidate': cand, 'asked_before': [c for c, _ in seq], 'observed': repr(got)},
                              'VersionPredicate(%r), one object asked about several versions: satisfied_by(%r) -> %s, specification %s' % (
                                  text, cand, got, want))
                break
    n += ru
    ctx.cov['evaluations'] += n
    ctx.cov['distinct_nontrivial'] += n
    if len(counts) < 6:
        raise MachineryError('vacuity: %s' % counts)
    ctx.stage('replay', cases=counts)
    ctx.sample({'case': res.records[0]})
    # random components 0..999 at gamma level: round trip and order on equal length
    z = 0
    for j in range(20000 if quick else 400000):
        ln = rnd.randint(1, 5) if j % 4 else rnd.randint(6, 9)      # every fourth version is a long one
        a = [rnd.randint(1, 999)] + [rnd.choice([0, 1, 9, 10, 99, 100, 999, rnd.randint(0, 999)]) for _ in range(ln - 1)]
        b = list(a)
        i = rnd.randrange(ln)
        b[i] = max(1 if i == 0 else 0, min(999, b[i] + rnd.choice([-1, 1, 0, 500, -500])))
        ta, tb = '.'.join(map(str, a)), '.'.join(map(str, b))
        ra, rb = call(vu.convert_version_to_int, ta), call(vu.convert_version_to_int, tb)
        z += 1
        if ra[0] != 'ok' or rb[0] != 'ok':
            ctx.violation({'kind': 'to_int-raises', 'got': ra[0] if ra[0] != 'ok' else rb[0]}, {'a': ta, 'b': tb},
                          'convert_version_to_int(%r) / (%r) -> %s / %s on well-formed versions' % (ta, tb, ra[0], rb[0]))
            continue
        ia, ib = ra[1], rb[1]
        if vu.convert_version_to_str(ia) != ta or (ia < ib) != (a < b) or (ia == ib) != (a == b):
            ctx.violation({'kind': 'random-roundtrip-or-order'}, {'a': ta, 'b': tb, 'ints': [ia, ib]},
                          'round trip / order broken for %s (%d) vs %s (%d)' % (ta, ia, tb, ib))
    ctx.cov['evaluations'] += z
    ctx.stage('random-components', cases=z)
    _rec.__exit__()
    _rec.replay(ctx, 'c17')
    _recp.__exit__()
    _recp.replay(ctx, 'predicates')
    # binding self-test: a wrong radix must be exposed
    import functools
    wrong = functools.reduce(lambda x, y: (x * 100) + y, (1, 2, 3))
    if wrong == 1002003:
        raise MachineryError('binding self-test failed')
    ctx.stage('binding-selftest', ok=True)
    ctx.cov['rule'] = ('all component tuples of length 1..4 over {0,1,9,10,99,100,999} (first non-zero) as string and tuple, suffix '
                       'classes on the last component, malformed texts; equal-length pairs for order; all pairs of a 60-element PEP 440 '
                       'lattice (7 releases x 8 pre/post/dev markers + epochs) x same_major; conjunctions of 1..3 predicates over the '
                       'six operators x candidates with random blanks; malformed predicates; random versions of 1..9 components at gamma level; predicate objects asked in four orders and from four threads')
    ctx.cov['exhaustive'] = True
