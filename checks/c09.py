"""C09 - exception-handling helpers never lose, replace or invent an exception."""
import os
import random
import sys

from vf import tlc
from vf.tlc import MachineryError


class FakeLogger:
    def __init__(self):
        self.errors = 0

    def error(self, *a, **kw):
        self.errors += 1

    def __getattr__(self, name):
        return lambda *a, **kw: None


class Plain(Exception):
    pass


class NeedsArgs(Exception):
    def __init__(self, a, b):
        super().__init__(a, b)
        self.a, self.b = a, b


class MyBase(BaseException):
    pass


class Falsy(Exception):
    """an exception that is false in a boolean context (a container-like error with no items)"""
    def __len__(self):
        return 0


CLASSES = ['plain', 'needs_args', 'chained', 'pretraced', 'base', 'falsy']


def make_exc(kind, vid):
    if kind == 'needs_args':
        e = NeedsArgs('x', vid)
    elif kind == 'base':
        e = MyBase('base %d' % vid)
    elif kind == 'falsy':
        e = Falsy('falsy %d' % vid)
    else:
        e = Plain('exc %d' % vid)
    e.vid = vid
    return e


def innermost_function(exc):
    """(function, line) of the innermost traceback entry = the original raise."""
    tb = exc.__traceback__
    name = None
    while tb is not None:
        name = (tb.tb_frame.f_code.co_name, tb.tb_lineno)
        tb = tb.tb_next
    return name


def run_program(excutils, prog, flag0, kind, post_mode='force', explicit_logger=True):
    """Compile the body program to real Python and execute it."""
    logger = FakeLogger()
    E1 = make_exc(kind, 1)
    if kind == 'pretraced':
        try:
            raise E1
        except Plain:
            pass            # E1 now carries a traceback from an earlier raise

    def origin_raise():
        if kind == 'chained':
            try:
                raise KeyError('root cause')
            except KeyError as root:
                raise E1 from root
        raise E1

    def body(ctx):
        for op in prog:
            if op == 'noop':
                pass
            elif op == 'inner':
                try:
                    raise make_exc('plain', 2)
                except Plain:
                    pass
            elif op == 'set_off':
                ctx.reraise = False
            elif op == 'set_on':
                ctx.reraise = True
            elif op == 'raise_new':
                raise make_exc('plain' if kind != 'base' else 'base', 3)
            elif op == 'nest_on':
                with excutils.save_and_reraise_exception(logger=FakeLogger()):
                    pass
            elif op == 'nest_off':
                with excutils.save_and_reraise_exception(reraise=False, logger=FakeLogger()):
                    pass
            elif op == 'nest_caught':
                try:
                    with excutils.save_and_reraise_exception(logger=FakeLogger()):
                        pass
                except BaseException:
                    pass
            elif op == 'force':
                ctx.force_reraise()
            elif op == 'capture':
                ctx.capture()
            elif op == 'capture_in':
                try:
                    raise make_exc('plain', 2)
                except Plain:
                    ctx.capture()
            else:
                raise MachineryError('unknown op %s' % op)
    propagated = None
    entry = None
    ctx_box = []
    entry_state = (None, False, ())
    try:
        try:
            origin_raise()
        except BaseException as active:
            entry = innermost_function(active)
            entry_state = (active.__cause__, active.__suppress_context__, active.args)
            kw = {'logger': logger} if explicit_logger else {}
            with excutils.save_and_reraise_exception(reraise=flag0, **kw) as ctx:
                ctx_box.append(ctx)
                body(ctx)
    except BaseException as e:       # noqa: the harness must see everything
        propagated = e
    # after the with statement: what the context object still holds (beyond the property's statement;
    # ExcHelpers models it as the code behaves: `saved` persists until force_reraise consumes it)
    post = None
    second = None
    redrop = None
    if post_mode == 'redrop':
        # the SAME exception object handled once more, by a fresh context whose body fails: it is dropped - and
        # reported - like any other (what happened to the object before does not matter)
        lg2 = FakeLogger()
        try:
            try:
                raise E1
            except BaseException:
                with excutils.save_and_reraise_exception(logger=lg2):
                    raise make_exc('plain', 6)
            redrop = (0, lg2.errors)
        except BaseException as e:   # noqa
            redrop = (getattr(e, 'vid', -1), lg2.errors)
    elif ctx_box and post_mode == 'capture_fail':
        # (beyond the statement) capture() with no exception active fails - and leaves what was saved alone
        try:
            ctx_box[0].capture()
            cf = 'returned'
        except RuntimeError:
            cf = 'RuntimeError'
        except BaseException as e:   # noqa
            cf = 'EXC:' + type(e).__name__
        try:
            ctx_box[0].force_reraise()
            post = ('none', False, cf)
        except BaseException as e:   # noqa
            post = (getattr(e, 'vid', 4 if type(e) is type(E1) else -1), e is E1, cf)
    elif ctx_box and post_mode == 'reenter':
        E5 = make_exc('plain', 5)
        try:
            try:
                raise E5
            except Plain:
                with ctx_box[0]:
                    pass
            second = (0, False)
        except BaseException as e:   # noqa
            second = (getattr(e, 'vid', -1), e is E5)
    elif ctx_box:
        try:
            ctx_box[0].force_reraise()
            post = ('none', False)
        except BaseException as e:   # noqa
            post = (getattr(e, 'vid', 4 if type(e) is type(E1) else -1), e is E1)
    vid = getattr(propagated, 'vid', -1) if propagated is not None else 0
    same_object = propagated is E1
    origin = innermost_function(propagated) if propagated is not None else None
    reraises = 0
    tb = propagated.__traceback__ if propagated is not None else None
    while tb is not None:
        if tb.tb_frame.f_code.co_name == 'force_reraise':
            reraises += 1
        tb = tb.tb_next
    # "the same object": also unchanged - its explicit cause (an exception in its own right: losing it is losing an
    # exception) and its arguments; display flags such as __suppress_context__ are not compared
    intact = (not same_object) or (propagated.__cause__ is entry_state[0] and propagated.args == entry_state[2])
    return {'propagates': vid, 'logged': logger.errors, 'is_original_object': same_object, 'intact': intact, 'post': post, 'second': second, 'redrop': redrop, 'explicit_logger': explicit_logger,
            'innermost': origin, 'entry_innermost': entry, 'reraise_frames': reraises, 'type': type(propagated).__name__ if propagated is not None else None}


def run(ctx):
    from oslo_utils import excutils, fileutils
    quick = ctx.quick
    ctx.assumptions += [
        'programs that call force_reraise()/capture() themselves are executed and compared on what propagates and how often '
        'the logger is called, but the traceback clause is asserted only for bodies that do not',
    ]
    cfg = 'MC_ExcHelpers_4.cfg' if quick else 'MC_ExcHelpers_6.cfg'
    res = tlc.run('MC_ExcHelpers', cfg, workdir=ctx.work, workers=8, coverage=True,
                  stdout_path=os.path.join(ctx.work, 'exc.out'), timeout=3000)
    ctx.tlc(res, 'ExcHelpers: all handler-body programs (%s)' % cfg)
    if res.coverage.get('Step', (0, 0))[1] == 0 or res.coverage.get('End', (0, 0))[1] == 0:
        raise MachineryError('vacuity: Step/End never taken')
    n = 0
    outcomes = {}
    for rec in res.records:
        for kind in CLASSES:
            got = run_program(excutils, rec['prog'], rec['flag0'], kind, ('force', 'reenter', 'redrop', 'capture_fail')[n % 4],
                              explicit_logger=(n % 5 != 4))
            n += 1
            want_p = rec['propagates']
            problems = []
            if got['propagates'] != want_p and not (want_p == 4):
                problems.append('propagates')
            if got['explicit_logger'] and got['logged'] != rec['logged']:
                problems.append('logged')
            if got['redrop'] is not None and got['redrop'] != (6, 1):
                problems.append('same-exception-dropped-again')
            if want_p == 1 and not got['is_original_object']:
                problems.append('not-same-object')
            if want_p == 1 and not rec['direct'] and got['innermost'] != got['entry_innermost']:
                problems.append('traceback')
            if want_p == 1 and got['is_original_object'] and not got['intact']:
                problems.append('exception-altered')
            body_completed = not rec['prog'] or rec['prog'][-1] not in ('raise_new', 'nest_on', 'force')
            if want_p == 1 and not rec['direct'] and body_completed and got['reraise_frames'] > 1:
                # the traceback is the saved one plus ONE re-raise, not the one grown by earlier re-raises
                problems.append('traceback-not-restored')
            if got['second'] is not None and (got['second'][0] != rec['second'] or (rec['second'] == 5 and not got['second'][1])):
                problems.append('second-use-of-the-context')
            outcomes[(want_p, rec['logged'])] = outcomes.get((want_p, rec['logged']), 0) + 1
            # use of the context object after the with statement is outside C09's statement: a mismatch with the
            # module (which keeps `saved` until force_reraise consumes it) is a beyond-property report
            if got['post'] is not None and rec['post'] in (1, 2) and kind != 'needs_args':
                if got['post'][0] != rec['post'] or (rec['post'] == 1 and not got['post'][1]) or (len(got['post']) > 2 and got['post'][2] != 'RuntimeError'):
                    ctx.beyond('ExcHelpers', {'kind': 'force_reraise-after-exit', 'want': rec['post'], 'last_op': rec['prog'][-1] if rec['prog'] else 'end'},
                               {'program': rec['prog'], 'initial_reraise': rec['flag0'], 'exception_class': kind, 'observed': got['post'], 'expected': rec['post']},
                               'ctx.force_reraise() after the with statement (body %s, reraise=%s, class %s) raised %s, the module says '
                               'the saved exception %s' % (rec['prog'], rec['flag0'], kind, got['post'], rec['post']))
            if problems:
                ctx.violation({'kind': problems[0], 'direct': rec['direct'], 'class': kind,
                               'last_op': rec['prog'][-1] if rec['prog'] else 'end', 'want': want_p},
                              {'program': rec['prog'], 'initial_reraise': rec['flag0'], 'exception_class': kind,
                               'expected': {'propagates': want_p, 'logged': rec['logged']}, 'observed': got},
                              'save_and_reraise_exception(reraise=%s) body %s, original exception class %s: '
                              'specification propagates=%s logged=%s, code %s (%s)' % (
                                  rec['flag0'], rec['prog'], kind, want_p, rec['logged'], got, problems))
    ctx.cov['evaluations'] += n
    ctx.cov['distinct_nontrivial'] += len(res.records)
    ctx.stage('program-replay', programs=len(res.records), executions=n,
              outcome_classes={str(k): v for k, v in outcomes.items()})
    ctx.sample({'program': res.records[len(res.records) // 2]})
    # decision tables: exception_filter, remove_path_on_error, raise_with_cause
    res2 = tlc.run('MC_ExcTables', workdir=ctx.work, workers=1)
    ctx.tlc(res2, 'ExcHelpers tables: FilterExact, RemoveThenReraise')
    m = 0
    for rec in res2.records:
        c, ref = rec['c'], rec['ref']
        m += 1
        if rec['k'] == 'filter':
            got = run_filter(excutils, c)
            want = ref['propagates']
            if got['propagates'] != want or (c['body'] != 'ok' and not got['pred_called']):
                ctx.violation({'kind': 'filter', 'usage': c['usage'], 'pred': c['pred'], 'body': c['body']},
                              {'case': c, 'expected': ref, 'observed': got},
                              'exception_filter %s: specification %s, code %s' % (c, ref, got))
        elif rec['k'] == 'remove':
            got = run_remove(fileutils, excutils, c, ctx.work)
            if got != ref:
                ctx.violation({'kind': 'remove_path_on_error', 'body': c['body'], 'remove': c['remove']},
                              {'case': c, 'expected': ref, 'observed': got},
                              'remove_path_on_error %s: specification %s, code %s' % (c, ref, got))
        else:
            got = run_cause(excutils, c)
            if got != ref['cause']:
                ctx.violation({'kind': 'raise_with_cause', 'where': c['where'], 'explicit': c['explicit']},
                              {'case': c, 'expected': ref, 'observed': got},
                              'raise_with_cause %s: specification cause=%s, code %s' % (c, ref['cause'], got))
    ctx.cov['evaluations'] += m
    ctx.stage('tables-replay', cases=m)
    # exceptions that drag a long history along (a retry loop that chained 3000 failures): the context manager treats
    # them like any other
    def chain(n, label):
        e = Plain('%s 0' % label)
        for i in range(1, n):
            nxt = Plain('%s %d' % (label, i))
            nxt.__cause__ = e
            e = nxt
        return e
    lc = 0
    for depth in (10, 3000):
        for which in ('original', 'new'):
            for flag in (True, False):
                orig = chain(depth, 'orig') if which == 'original' else Plain('orig')
                new = chain(depth, 'new') if which == 'new' else None
                logger = FakeLogger()
                out = None
                try:
                    try:
                        raise orig
                    except Plain:
                        with excutils.save_and_reraise_exception(reraise=flag, logger=logger):
                            if new is not None:
                                raise new
                except BaseException as e:      # noqa
                    out = e
                want = new if new is not None else (orig if flag else None)
                want_logged = 1 if (new is not None and flag) else 0   # 'being dropped' is only said of an exception that would have been re-raised
                lc += 1
                if out is not want or logger.errors != want_logged:
                    ctx.violation({'kind': 'long-cause-chain', 'which': which, 'reraise': flag, 'got': type(out).__name__},
                                  {'chain_links': depth, 'chained_exception': which, 'reraise': flag,
                                   'observed': repr(out)[:200], 'logged': logger.errors, 'expected_logged': want_logged},
                                  'save_and_reraise_exception(reraise=%s) with a %d-link __cause__ chain on the %s exception: '
                                  '%s propagates (logged %d), specification: %s (logged %d)' % (
                                      flag, depth, which, repr(out)[:120], logger.errors, repr(want)[:60], want_logged))
    ctx.cov['evaluations'] += lc
    ctx.stage('long-cause-chains', cases=lc)
    # binding self-test: "raise self.value" without restoring the saved traceback must be exposed
    saved = excutils.save_and_reraise_exception.force_reraise

    def bad_force(self):
        v = self.value
        self.value = None
        self.tb = None
        raise type(v)(*v.args)
    try:
        excutils.save_and_reraise_exception.force_reraise = bad_force
        got = run_program(excutils, ['noop'], True, 'plain')
    finally:
        excutils.save_and_reraise_exception.force_reraise = saved
    if got['is_original_object']:
        raise MachineryError('binding self-test: replaced exception object not exposed')
    ctx.stage('binding-selftest', ok=True)
    ctx.cov['rule'] = ('every handler body over 10 operations up to length 4/5 x initial reraise flag (TLC state graph), each compiled '
                       'to Python and run with 5 exception classes: identity of what propagates, innermost traceback frame, '
                       'logger.error count; exception_filter (5 usages x 5 predicate results x body), remove_path_on_error, '
                       'raise_with_cause tables (the remover also using the helper itself); 10- and 3000-link cause chains')
    ctx.cov['exhaustive'] = True


def run_filter(excutils, c):
    calls = {'n': 0}
    res = {'True': True, 'False': False, 'truthy': 'yes', 'None': None, 'zero': 0}[c['pred']]

    def pred(ex):
        calls['n'] += 1
        return res

    class Holder:
        answer = res

        @excutils.exception_filter
        def method(self, ex):
            calls['n'] += 1
            return self.answer
    target = Plain('filtered') if c['body'] != 'raises_base' else MyBase('filtered')
    other = Plain('other')
    raising = c['body'] in ('raises', 'raises_base')
    propagated = None
    usage = c['usage']
    try:
        if usage == 'bound_method_of_copy':
            import copy
            first = Holder()
            first.answer = not res          # the first object's predicate says the opposite
            try:
                with first.method:
                    raise Plain('warm-up')
            except Plain:
                pass
            calls['n'] = 0
            second = copy.copy(first)
            second.answer = res
            with second.method:
                if raising:
                    raise target
        elif usage in ('context', 'decorated', 'bound_method'):
            f = excutils.exception_filter(pred) if usage != 'bound_method' else Holder().method
            if usage == 'decorated':
                f = excutils.exception_filter(pred)
            with f:
                if raising:
                    raise target
        elif usage == 'call_in_handler':
            f = excutils.exception_filter(pred)
            if raising:
                try:
                    raise target
                except BaseException as ex:
                    f(ex)
            else:
                f(target) if False else None
                calls['n'] += 1
        else:
            f = excutils.exception_filter(pred)
            if raising:
                try:
                    raise other
                except Plain:
                    f(target)       # the exception passed is not the active one
            else:
                calls['n'] += 1
    except BaseException as e:
        propagated = e
    if propagated is None:
        p = 'none'
    elif propagated is target:
        p = 'same_object'
    else:
        p = 'other:' + type(propagated).__name__
    return {'propagates': p, 'pred_called': calls['n'] > 0}


def run_remove(fileutils, excutils, c, workdir):
    import shutil
    path = os.path.join(workdir, 'c09_remove_target')
    for p in (path,):
        if os.path.islink(p) or os.path.isfile(p):
            os.unlink(p)
        elif os.path.isdir(p):
            shutil.rmtree(p)
    if c['path'] == 'file':
        with open(path, 'w') as fh:
            fh.write('x')
    elif c['path'] == 'dangling_symlink':
        os.symlink(os.path.join(workdir, 'no_such_target'), path)
    elif c['path'] == 'directory':
        os.mkdir(path)
    original = Plain('orig') if c['body'] != 'raises_base_exception' else MyBase('orig')
    rm_err = OSError(13, 'scripted remove failure') if c['remove'] != 'raises_enoent' else FileNotFoundError(2, 'no such trash directory')
    removed = {'v': False}

    def remove(p):
        removed['v'] = True
        if c['remove'] in ('raises', 'raises_enoent'):
            raise rm_err
        if c['remove'] == 'ok_nested':
            inner = Plain('failure while tidying up, handled by the remover itself')
            try:
                with fileutils.remove_path_on_error(p + '.aux', remove=lambda q: None):
                    raise inner
            except Plain as e:
                if e is not inner:
                    raise MachineryError('nested remove_path_on_error propagated %r' % (e,))
        if os.path.islink(p) or os.path.isfile(p):
            os.unlink(p)
    logger = FakeLogger()
    import logging
    root = logging.getLogger()
    saved_error = root.error
    root.error = logger.error
    propagated = None
    try:
        try:
            with fileutils.remove_path_on_error(path, remove=remove):
                if c['body'] != 'ok':
                    raise original
        except BaseException as e:
            propagated = e
    finally:
        root.error = saved_error
    if propagated is None:
        p = 'none'
    elif propagated is original:
        p = 'original'
    elif propagated is rm_err:
        p = 'remove_error'
    else:
        p = 'other'
    return {'removed': removed['v'], 'propagates': p, 'logged': logger.errors}


def run_cause(excutils, c):
    given = ValueError('given')
    kw = {}
    if c['explicit'] == 'given':
        kw['cause'] = given
    elif c['explicit'] == 'given_None':
        kw['cause'] = None
    active = Plain('active')
    inner = Plain('inner')
    raised = None
    try:
        if c['where'] == 'outside':
            excutils.raise_with_cause(excutils.CausedByException, 'msg', **kw)
        elif c['where'] == 'in_handler':
            try:
                raise active
            except Plain:
                excutils.raise_with_cause(excutils.CausedByException, 'msg', **kw)
        else:
            try:
                raise active
            except Plain:
                try:
                    raise inner
                except Plain:
                    excutils.raise_with_cause(excutils.CausedByException, 'msg', **kw)
    except excutils.CausedByException as e:
        raised = e
    if raised is None:
        return 'not-raised'
    cause = raised.__cause__
    if cause is None:
        return 'None'
    if cause is given:
        return 'given'
    if cause is active:
        return 'active'
    if cause is inner:
        return 'innermost_active'
    return 'other'
