"""G02 (specification growth, no listed property) - reflection helpers against spec/Reflection.tla.

gamma builds the class / callable world of the specification as two real modules on disk; every case TLC
enumerates is executed on oslo_utils.reflection.  Mismatches are beyond-property reports."""
import functools
import importlib
import os
import sys

from vf import tlc
from vf.tlc import MachineryError

M1 = '''
class A:
    def m(self):
        pass
    def n(self):
        pass
    @classmethod
    def cm(cls):
        pass
    @staticmethod
    def sm():
        pass
    def __call__(self):
        pass
    def __eq__(self, other):
        return True
    __hash__ = object.__hash__

class B(A):
    def m(self):
        pass
    def n(self):
        pass
    @classmethod
    def cm(cls):
        pass
    @staticmethod
    def sm():
        pass

def func():
    pass

def other():
    pass

def outer():
    def inner():
        pass
    return inner

lam = lambda: None
'''
M2 = '''
from vfrefl_m1 import A, B

class C(A):
    def m(self):
        pass
    def n(self):
        pass
    @classmethod
    def cm(cls):
        pass
    @staticmethod
    def sm():
        pass

class D(B, C):
    pass

class Err(ValueError):
    pass
'''
MOD = {'vfrefl_m1': 'm1', 'vfrefl_m2': 'm2'}


def outcome(fn):
    try:
        return ('ok', fn())
    except TypeError:
        return ('TypeError', None)
    except Exception as e:
        return ('EXC:' + type(e).__name__, None)


def split_name(text):
    """'vfrefl_m1.outer.<locals>.inner' -> ['m1', 'outer', '<locals>', 'inner']"""
    parts = text.split('.')
    return [MOD.get(parts[0], parts[0])] + parts[1:]


def run(ctx):
    from oslo_utils import reflection as rf
    ctx.assumptions += ['the C3 linearisation is the interpreter\'s; the Mro table of the module is compared with it',
                        'growth check: mismatches are beyond-property reports, no listed property is decided here']
    root = os.path.join(ctx.work, 'refl')
    os.makedirs(root)
    with open(os.path.join(root, 'vfrefl_m1.py'), 'w') as fh:
        fh.write(M1)
    with open(os.path.join(root, 'vfrefl_m2.py'), 'w') as fh:
        fh.write(M2)
    sys.path.insert(0, root)
    sys.dont_write_bytecode = True
    importlib.invalidate_caches()
    m1 = importlib.import_module('vfrefl_m1')
    m2 = importlib.import_module('vfrefl_m2')
    K = {'A': m1.A, 'B': m1.B, 'C': m2.C, 'D': m2.D, 'Err': m2.Err, 'object': object, 'int': int,
         'ValueError': ValueError, 'Exception': Exception, 'BaseException': BaseException}
    res = tlc.run('MC_Reflection', workdir=ctx.work, workers=4, stdout_path=os.path.join(ctx.work, 'refl.out'))
    ctx.tlc(res, 'Reflection: MroShape (ASSUME), ReqWithinAll, SameIsEquivalence; reference tables')
    # the tabulated linearisations are the interpreter's
    for rec in res.records:
        c = rec['c']
        if c['t'] == 'all_names' and c['up'] == 'object' and c['fq'] and not c['trunc'] and not c['inst']:
            want = [n[-1] for n in rec['ref']['r']]
            if [k.__name__ for k in K[c['cls']].__mro__] != want:
                raise MachineryError('Mro table of Reflection.tla disagrees with Python for %s' % c['cls'])

    def instance(name):
        return 5 if name == 'int' else (K[name]('x') if name in ('Err', 'ValueError') else K[name]())
    o = {'o1': m1.A(), 'o2': m1.A()}
    cb_cache = {}

    def callback(x):
        key = repr(sorted(x.items()))
        if key not in cb_cache:
            if x['k'] == 'f':
                cb_cache[key] = m1.func
            elif x['k'] == 'g':
                cb_cache[key] = m1.other
            elif x['k'] == 'static':
                cb_cache[key] = m1.A.sm
            else:
                cb_cache[key] = getattr(o[x['self']], x['meth'])
        return cb_cache[key]
    n = 0
    kinds = {}
    for rec in res.records:
        c, ref = rec['c'], rec['ref']
        t = c['t']
        kinds[t] = kinds.get(t, 0) + 1
        checks = []
        if t == 'class_name':
            s = c['s']
            cls = K[s['cls']]
            obj = {'class': lambda: cls, 'instance': lambda: instance(s['cls']), 'bound': lambda: cls().m,
                   'classmethod': lambda: cls.cm, 'static': lambda: cls.sm, 'function': lambda: m1.func,
                   'lambda': lambda: m1.lam}[s['k']]()
            got = outcome(lambda: rf.get_class_name(obj, fully_qualified=c['fq'], truncate_builtins=c['trunc']))
            want = ('TypeError', None) if ref['r']['k'] == 'TypeError' else ('ok', ref['r']['v'])
            if got[0] == 'ok':
                got = ('ok', split_name(got[1]))
            checks.append(('get_class_name(%s %s, fully_qualified=%s, truncate_builtins=%s)' % (s['k'], s['cls'], c['fq'], c['trunc']), got, want))
        elif t == 'all_names':
            obj = instance(c['cls']) if c['inst'] else K[c['cls']]
            got = outcome(lambda: [split_name(x) for x in rf.get_all_class_names(
                obj, up_to=K[c['up']], fully_qualified=c['fq'], truncate_builtins=c['trunc'])])
            checks.append(('get_all_class_names(%s%s, up_to=%s, fq=%s, trunc=%s)' % (
                c['cls'], '()' if c['inst'] else '', c['up'], c['fq'], c['trunc']), got, ('ok', ref['r'])))
        elif t == 'is_subclass':
            obj = instance(c['cls']) if c['inst'] else K[c['cls']]
            checks.append(('is_subclass(%s%s, %s)' % (c['cls'], '()' if c['inst'] else '', c['of']),
                           outcome(lambda: rf.is_subclass(obj, K[c['of']])), ('ok', ref['r'])))
        elif t == 'callable':
            f = c['f']
            cls = K.get(f.get('cls', 'A'))
            fn = {'function': lambda: m1.func, 'nested': lambda: m1.outer(), 'lambda': lambda: m1.lam,
                  'partial': lambda: functools.partial(m1.func), 'builtin': lambda: len,
                  'bound': lambda: cls().m, 'classmethod': lambda: cls.cm, 'static_via_class': lambda: cls.sm,
                  'static_via_instance': lambda: cls().sm, 'callable_instance': lambda: cls(), 'class': lambda: cls}[f['k']]()
            got = outcome(lambda: split_name(rf.get_callable_name(fn)))
            checks.append(('get_callable_name(%s)' % f, got, ('ok', ref['name'])))
            checks.append(('is_bound_method(%s)' % f, outcome(lambda: rf.is_bound_method(fn)), ('ok', ref['bound'])))
        elif t == 'same':
            a, b = callback(c['x']), callback(c['y'])
            checks.append(('is_same_callback(%s, %s)' % (c['x'], c['y']), outcome(lambda: rf.is_same_callback(a, b)), ('ok', ref['same'])))
        elif t == 'sig':
            parts = ['self'] if c['bound'] else []
            star = False
            for i, p in enumerate(c['ps'], 1):
                nm = 'p%d' % i
                if p['kind'] == 'pos':
                    parts.append(nm + ('=0' if p['d'] else ''))
                elif p['kind'] == 'varpos':
                    parts.append('*' + nm)
                    star = True
                elif p['kind'] == 'kw':
                    if not star:
                        parts.append('*')
                        star = True
                    parts.append(nm + ('=0' if p['d'] else ''))
                else:
                    parts.append('**' + nm)
            ns = {}
            if c['bound']:
                exec('class H:\n    def f(%s):\n        pass\n' % ', '.join(parts), ns)
                fn = ns['H']().f
            else:
                exec('def f(%s):\n    pass\n' % ', '.join(parts), ns)
                fn = ns['f']
            want = ['p%d' % i for i in ref['args']]
            checks.append(('get_callable_args(f(%s)%s, required_only=%s)' % (', '.join(parts), ' bound' if c['bound'] else '', c['req']),
                           outcome(lambda: rf.get_callable_args(fn, required_only=c['req'])), ('ok', want)))
            checks.append(('accepts_kwargs(f(%s))' % ', '.join(parts), outcome(lambda: rf.accepts_kwargs(fn)), ('ok', ref['kwargs'])))
        for text, got, want in checks:
            n += 1
            if got != want:
                ctx.beyond('Reflection', {'kind': t, 'want': want[0], 'got': got[0]}, {'case': c, 'expected': want, 'observed': repr(got)},
                           '%s -> %s, specification %s' % (text, got, want))
    sys.path.remove(root)
    ctx.cov['evaluations'] += n
    ctx.cov['distinct_nontrivial'] += len(res.records)
    if len(kinds) < 6:
        raise MachineryError('vacuity: %s' % kinds)
    ctx.stage('reflection-replay', cases=kinds, calls=n)
    ctx.sample({'case': res.records[len(res.records) // 3]})
    ctx.cov['rule'] = ('class names over 10 classes x 7 kinds of subject x flags; linearisations filtered by 6 bounds; 29 callables; '
                       'all pairs of 11 callbacks; every valid signature of up to 3 parameters x bound x required_only')
    ctx.cov['exhaustive'] = True
