"""C20 - file helpers agree with whole-file semantics and are idempotent."""
import builtins
import errno
import hashlib
import os
import random
import shutil

from vf import tlc, traces
from vf.tlc import MachineryError

ALGOS = ['md5', 'sha1', 'sha256', 'sha512', 'blake2b']


class ReadRecorder:
    """Wraps the file object handed out by open() to see the read loop."""

    def __init__(self, f, log):
        self._f = f
        self._log = log

    def read(self, *a):
        data = self._f.read(*a)
        self._log.append((a[0] if a else -1, len(data)))
        return data

    def readinto(self, buf):
        got = self._f.readinto(buf)
        self._log.append((len(buf), got or 0))
        return got

    def __enter__(self):
        self._f.__enter__()
        return self

    def __exit__(self, *a):
        return self._f.__exit__(*a)

    def __getattr__(self, name):
        return getattr(self._f, name)


def checksum_with_trace(fileutils, path, chunk, algo):
    log = []
    real_open = builtins.open

    def spy(p, *a, **kw):
        f = real_open(p, *a, **kw)
        if p == path:
            return ReadRecorder(f, log)
        return f
    builtins.open = spy
    try:
        digest = fileutils.compute_file_checksum(path, read_chunksize=chunk, algorithm=algo)
    except Exception as e:        # an exception out of the helper is an observation, not a harness failure
        digest = 'EXC:%s: %s' % (type(e).__name__, e)
    finally:
        builtins.open = real_open
    return digest, log


def build_state(root, fs):
    shutil.rmtree(root, ignore_errors=True)
    os.makedirs(root)
    paths = [os.path.join(root, 'a'), os.path.join(root, 'a', 'b'), os.path.join(root, 'a', 'b', 'c')]
    for p, kind in zip(paths, fs):
        if kind == 'd':
            os.mkdir(p)
        elif kind == 'f':
            with open(p, 'w') as fh:
                fh.write('existing')
    return paths


def observe_state(paths):
    out = []
    for p in paths:
        if os.path.isdir(p):
            out.append('d')
        elif os.path.lexists(p):
            out.append('f')
        else:
            out.append('m')
    return out


def run(ctx):
    from oslo_utils import fileutils
    quick = ctx.quick
    ctx.assumptions += ['the digest of the whole content is hashlib on both sides; the spec proves the read loop feeds exactly the content',
                        'file-system operations run in a scratch directory under /verif/.work']
    root = os.path.join(ctx.work, 'fsroot')
    rnd = random.Random(ctx.seed)
    # (a) read loop: model, then the real loop observed through open()
    res = tlc.run('MC_Files', 'MC_Files_read.cfg', workdir=ctx.work, workers=4, coverage=True)
    ctx.tlc(res, 'Files read loop: Tiled, WholeContent, OnlyLastShort for every (length, chunk size)')
    # the same loop for unbounded lengths and chunk sizes (Apalache, inductive invariant); a clause that forgets the
    # extra empty read must be refuted
    base = tlc.apalache('ReadLoopInd', 'Init', 'IndInv', 0, ctx.work)
    step = tlc.apalache('ReadLoopInd', 'IndInit', 'IndInv', 1, ctx.work)
    wrong = tlc.apalache('ReadLoopInd', 'Init', 'WrongInv', 3, ctx.work)
    if (base, step, wrong) != ('ok', 'ok', 'violation'):
        raise MachineryError('ReadLoopInd: base %s, step %s, wrong clause %s' % (base, step, wrong))
    proved = tlc.tlaps('ReadLoopIndProof', ctx.work)
    ctx.stage('apalache-inductive', base=base, step=step, wrong_clause=wrong, tlaps_obligations_proved=proved)
    recs = [r for r in res.records if 'pieces' in r]
    tables = [r for r in res.records if 'last' in r][0]
    if len(recs) < 1000:
        raise MachineryError('read-loop export too small')
    os.makedirs(root, exist_ok=True)
    fpath = os.path.join(ctx.work, 'content.bin')
    n = 0
    batch = []
    drift = [0]
    for rec in recs:
        size, k = rec['n'], rec['k']
        if False:
            n += 1
            continue
        n += 1
        content = rnd.randbytes(size)
        with open(fpath, 'wb') as fh:
            fh.write(content)
        algo = ALGOS[n % len(ALGOS)]
        digest, log = checksum_with_trace(fileutils, fpath, k, algo)
        want = hashlib.new(algo, content).hexdigest()
        got_pieces = []
        pos = 0
        for req, ln in log:
            if ln:
                got_pieces.append([pos, ln])
                pos += ln
        if digest != want:
            ctx.violation({'kind': 'checksum', 'algo': algo},
                          {'size': size, 'chunk': k, 'algorithm': algo, 'expected_pieces': rec['pieces'],
                           'observed_reads': log, 'digest': digest, 'expected_digest': want},
                          'compute_file_checksum(size=%d, chunk=%d, %s): digest %s differs from the digest of the whole '
                          'content %s (reads %s)' % (size, k, algo, digest[:16], want[:16], log[:6]))
        elif got_pieces != [list(p) for p in rec['pieces']] or any(req != k for req, _ in log):
            # the digest is right but the loop reads differently from Files!Read: spec drift, not a violation
            drift[0] += 1
            continue
        batch.append({'n': size, 'k': k, 'ev': [{'req': a, 'got': b} for a, b in log]})
    # real chunk sizes of the property too (4096, 65536, larger than the file), end to end
    for k in (4096, 65536, 1 << 20):
        for size in (0, 1, k - 1, k, k + 1, 2 * k, 2 * k + 1, 3 * k + 1):
            if size > 3 * (1 << 20) + 1 and quick:
                continue
            content = rnd.randbytes(size)
            with open(fpath, 'wb') as fh:
                fh.write(content)
            for algo in (ALGOS if not quick else ALGOS[:2]):
                digest, log = checksum_with_trace(fileutils, fpath, k, algo)
                n += 1
                if digest != hashlib.new(algo, content).hexdigest() or sum(b for _, b in log) != size:
                    ctx.violation({'kind': 'checksum-large', 'algo': algo}, {'size': size, 'chunk': k, 'reads': log[:8]},
                                  'compute_file_checksum(size=%d, chunk=%d, %s) wrong' % (size, k, algo))
                batch.append({'n': size, 'k': k, 'ev': [{'req': a, 'got': b} for a, b in log]})
    try:
        default = fileutils.compute_file_checksum(fpath)
    except Exception as e:
        default = 'EXC:' + type(e).__name__
    if default != hashlib.sha256(open(fpath, 'rb').read()).hexdigest():
        ctx.violation({'kind': 'checksum-default'}, {}, 'compute_file_checksum default arguments wrong')
    ctx.cov['evaluations'] += n
    ctx.stage('read-loop', cases=n, read_pattern_drift=drift[0])
    # the digest of a file does not depend on who else is computing one: four threads, each over its own files
    import sys
    import threading
    files = []
    for t in range(8):
        p = os.path.join(os.path.dirname(fpath), 'c20_conc_%d.bin' % t)
        content = rnd.randbytes(rnd.choice([1, 70000, 300001, 1 << 20]))
        with open(p, 'wb') as fh:
            fh.write(content)
        files.append((p, hashlib.sha256(content).hexdigest(), hashlib.md5(content).hexdigest()))
    wrong = []

    from vf import purity

    def worker(t):
        for rnd_ in range(6):
            # the last two rounds with the thread giving way after every line it executes inside oslo_utils
            sys.settrace(purity._yield_in_library if rnd_ >= 4 else None)
            for p, sha, md in files[t % 4::4] + files[(t + 1) % 4::4]:
                try:
                    d = (fileutils.compute_file_checksum(p, read_chunksize=(65536, 4096, 100000)[rnd_ % 3]),
                         fileutils.compute_file_checksum(p, algorithm='md5'))
                except Exception as e:      # noqa
                    d = ('EXC:' + type(e).__name__, None)
                if d != (sha, md):
                    wrong.append((p, d))
        sys.settrace(None)
    old_si = sys.getswitchinterval()
    sys.setswitchinterval(1e-6)
    try:
        ths = [threading.Thread(target=worker, args=(t,)) for t in range(4)]
        [t.start() for t in ths]
        [t.join() for t in ths]
    finally:
        sys.setswitchinterval(old_si)
    for p, sha, md in files:
        os.unlink(p)
    if wrong:
        ctx.violation({'kind': 'checksum-depends-on-concurrent-callers'}, {'wrong_digests': len(wrong), 'of': 4 * 6 * 4 * 2, 'first': repr(wrong[0])[:300]},
                      'compute_file_checksum from four threads at once: %d digests are not the digest of the content' % len(wrong))
    ctx.cov['evaluations'] += 4 * 6 * 4 * 2
    ctx.stage('checksums-from-four-threads', digests=4 * 6 * 4 * 2, wrong=len(wrong))
    if drift[0]:
        ctx.note('spec drift (not a violation): %d checksum runs read the file in a pattern other than Files!Read while the digest is right' % drift[0])
    rejected, inv, r = traces.validate(ctx, 'Trace_Files', batch, 'reads')
    ctx.tlc(r, 'Trace_Files read traces', counts_as_states=False)
    ctx.cov['traces_validated_against_impl'] += len(batch) - len(rejected)
    for i in sorted(rejected)[:5]:
        ctx.violation({'kind': 'read-trace'}, {'trace': batch[i]}, 'recorded read loop is not a behaviour of Files!Read: %s' % (batch[i],))
    ctx.stage('read-traces', traces=len(batch), accepted=len(batch) - len(rejected))
    ctx.sample({'read_trace': batch[5]})
    # (b) last_bytes
    m = 0
    for row in tables['last']:
        size, num, ref = row['size'], row['num'], row['ref']
        content = bytes(range(size % 256 + 1))[:size] if size <= 256 else rnd.randbytes(size)
        with open(fpath, 'wb') as fh:
            fh.write(content)
        try:
            got = fileutils.last_bytes(fpath, num)
        except Exception as e:
            got = 'EXC:' + type(e).__name__
        m += 1
        want = (content[ref['start']:ref['start'] + ref['len']], ref['start'])
        if got == want and (type(got) is not tuple or type(got[0]) is not bytes or type(got[1]) is not int):
            # the kinds of the pair are not in the statement (its values are); the module returns (bytes, int)
            ctx.beyond('Files', {'kind': 'last_bytes-result-kinds', 'got': [type(got).__name__] + [type(x).__name__ for x in got]},
                       {'size': size, 'num': num, 'observed': repr(got)[:200]},
                       'last_bytes(size=%d, %d) returns %s of (%s); the module returns a tuple of (bytes, int)' % (
                           size, num, type(got).__name__, ', '.join(type(x).__name__ for x in got)))
        if got != want:
            ctx.violation({'kind': 'last_bytes', 'num_ge_size': num >= size}, {'size': size, 'num': num, 'observed': repr(got), 'expected': repr(want)},
                          'last_bytes(size=%d, %d) -> %r, specification %r' % (size, num, got, want))
    for size in (4095, 4096, 70000):
        content = rnd.randbytes(size)
        with open(fpath, 'wb') as fh:
            fh.write(content)
        for num in (0, 1, size - 1, size, size + 1, 10 ** 9, 2 ** 40, 2 ** 62, 2 ** 63 - 1):
            m += 1
            k = min(num, size)
            try:
                lb = fileutils.last_bytes(fpath, num)
            except Exception as ex:
                lb = 'EXC:' + type(ex).__name__
            if lb != (content[size - k:], size - k):
                ctx.violation({'kind': 'last_bytes-large'}, {'size': size, 'num': num}, 'last_bytes(size=%d, %d) wrong' % (size, num))
    ctx.cov['evaluations'] += m
    ctx.stage('last_bytes', cases=m)
    # (c) file-system transition system: every edge of the graph on a real directory
    res2 = tlc.run('MC_Files', 'MC_Files_fs.cfg', workdir=ctx.work, workers=1)
    ctx.tlc(res2, 'Files fs model: Idempotent, StaysWellFormed')
    edges = [r for r in res2.records if 'op' in r]
    e = 0
    for rec in edges:
        paths = build_state(root, rec['f'])
        target = paths[rec['arg'] - 1]
        before_listing = set()
        for dp, dn, fn in os.walk(root):
            for x in fn:
                before_listing.add(os.path.join(dp, x))
        content = rnd.randbytes(rnd.choice([0, 1, 100]))
        try:
            if rec['op'] == 'ensure_tree':
                out = fileutils.ensure_tree(target)
                got = 'ok' if out is None else 'returned'
            elif rec['op'] == 'delete_if_exists':
                out = fileutils.delete_if_exists(target)
                got = 'ok' if out is None else 'returned'
            else:
                newp = fileutils.write_to_tempfile(content, path=target, suffix='.cfg', prefix='t')
                ok = (newp not in before_listing and os.path.dirname(newp) == target and
                      open(newp, 'rb').read() == content and newp.endswith('.cfg') and os.path.basename(newp).startswith('t'))
                got = 'created' if ok else 'created-wrong'
                if os.path.exists(newp):
                    os.unlink(newp)
        except OSError:
            got = 'raises'
        except Exception as ex:
            got = 'EXC:' + type(ex).__name__
        after = observe_state(paths)
        e += 1
        if got != rec['res'] or after != rec['t']:
            ctx.violation({'kind': 'fs', 'op': rec['op'], 'want': rec['res'], 'got': got},
                          {'state': rec['f'], 'op': rec['op'], 'path_depth': rec['arg'], 'expected': [rec['res'], rec['t']],
                           'observed': [got, after]},
                          '%s(depth %d) in state %s: specification %s -> %s, code %s -> %s' % (
                              rec['op'], rec['arg'], rec['f'], rec['res'], rec['t'], got, after))
        if got == 'ok' and rec['op'] in ('ensure_tree', 'delete_if_exists'):
            # idempotence on the real file system: the same call again
            try:
                (fileutils.ensure_tree if rec['op'] == 'ensure_tree' else fileutils.delete_if_exists)(target)
                again = observe_state(paths)
            except OSError as ex:
                again = 'raises %s' % ex
            if again != after:
                ctx.violation({'kind': 'not-idempotent', 'op': rec['op']}, {'state': rec['f'], 'second': again},
                              'second %s call changed the outcome: %s' % (rec['op'], again))
    ctx.cov['evaluations'] += e
    ctx.cov['distinct_nontrivial'] += e + n
    ctx.stage('fs-edges', edges=e)
    # write_to_tempfile: exactly the content, for contents around the sizes at which an implementation might split the write
    w = 0
    wdir = os.path.join(root, 'wtt')
    for size in (0, 1, 4095, 4096, 4097, 65535, 65536, 65537, 131072, 131073, (1 << 20) + 1) + (() if quick else (3 * (1 << 20) + 5,)):
        content = rnd.randbytes(size)
        # bytes-like content of any kind is written verbatim
        given = [content, bytearray(content), memoryview(content)][w % 3]
        try:
            newp = fileutils.write_to_tempfile(given, path=wdir)
            with open(newp, 'rb') as fh:
                back = fh.read()
            os.unlink(newp)
            got = 'exact' if back == content else 'holds %d of %d bytes%s' % (len(back), size, '' if content.startswith(back) else ', not a prefix')
        except Exception as ex:
            got = 'EXC:' + type(ex).__name__
        w += 1
        if got != 'exact':
            ctx.violation({'kind': 'write_to_tempfile-content', 'size_class': 'le64k' if size <= 65536 else 'gt64k'},
                          {'size': size, 'observed': got}, 'write_to_tempfile(%d bytes): the file %s' % (size, got))
    # the checksum is a function of the content: same path, same size, same mtime, other content
    cpath = os.path.join(ctx.work, 'same_meta.bin')
    for size in (1, 4096, 70000):
        a, b = rnd.randbytes(size), rnd.randbytes(size)
        with open(cpath, 'wb') as fh:
            fh.write(a)
        st = os.stat(cpath)
        d1 = fileutils.compute_file_checksum(cpath)
        with open(cpath, 'wb') as fh:
            fh.write(b)
        os.utime(cpath, ns=(st.st_atime_ns, st.st_mtime_ns))
        d2 = fileutils.compute_file_checksum(cpath)
        w += 1
        if d1 != hashlib.sha256(a).hexdigest() or d2 != hashlib.sha256(b).hexdigest():
            ctx.violation({'kind': 'checksum-follows-metadata'}, {'size': size, 'first_ok': d1 == hashlib.sha256(a).hexdigest()},
                          'compute_file_checksum after the file was rewritten with other content of the same size and its '
                          'modification time restored: digest of the %s content' % ('old' if d2 == d1 else 'wrong'))
    ctx.cov['evaluations'] += w
    ctx.stage('content-exactness', cases=w)
    # what stands at the path: directories, links to them, links to files, dangling links (Files!LinkRef)
    lk = 0
    for row in tables['links']:
        c, ref = row['c'], row['ref']
        base = os.path.join(root, 'links')
        shutil.rmtree(base, ignore_errors=True)
        os.makedirs(base)
        path, tdir, tfile = os.path.join(base, 'p'), os.path.join(base, 'target_dir'), os.path.join(base, 'target_file')
        os.mkdir(tdir)
        with open(tfile, 'w') as fh:
            fh.write('x')
        kind = c['kind']
        if kind == 'dir':
            os.mkdir(path)
        elif kind == 'file':
            with open(path, 'w') as fh:
                fh.write('y')
        elif kind == 'link_to_dir':
            os.symlink(tdir, path)
        elif kind == 'link_to_file':
            os.symlink(tfile, path)
        elif kind == 'dangling_link':
            os.symlink(os.path.join(base, 'nowhere'), path)
        try:
            (fileutils.ensure_tree if c['op'] == 'ensure_tree' else fileutils.delete_if_exists)(path)
            got = 'ok'
        except OSError:
            got = 'raises'
        except Exception as ex:
            got = 'EXC:' + type(ex).__name__
        if os.path.islink(path):
            now = 'dangling_link' if not os.path.exists(path) else ('link_to_dir' if os.path.isdir(path) else 'link_to_file')
        else:
            now = 'dir' if os.path.isdir(path) else ('file' if os.path.isfile(path) else 'missing')
        target_ok = os.path.isdir(tdir) and os.path.isfile(tfile)
        lk += 1
        if (got, now, target_ok) != (ref['res'], ref['path'], ref['target']):
            ctx.violation({'kind': 'links', 'op': c['op'], 'path_kind': kind, 'got': got},
                          {'case': c, 'expected': ref, 'observed': {'res': got, 'path': now, 'target': target_ok}},
                          '%s on a path that is a %s: %s, the path is then %s (targets intact: %s); specification %s' % (
                              c['op'], kind, got, now, target_ok, ref))
    ctx.cov['evaluations'] += lk
    ctx.stage('links', cases=lk)
    # errno filter: every errno injected into the underlying call
    z = 0
    table = {(r['c']['fn'], r['c']['e'], r['c']['isdir']): r['swallowed'] for r in tables['errno']}
    for code in sorted(errno.errorcode):
        name = errno.errorcode[code]
        cls = name if name in ('EEXIST', 'ENOENT') else 'OTHER'
        for isdir in (True, False):
            paths = build_state(root, ['d', 'd' if isdir else 'f', 'm'])
            target = paths[1]
            err = OSError(code, os.strerror(code))
            saved = os.makedirs

            def boom(*a, **kw):
                raise err
            os.makedirs = boom
            try:
                try:
                    fileutils.ensure_tree(target)
                    got = 'swallowed'
                except OSError as ex:
                    got = 'propagated' if ex is err else 'other-error'
            finally:
                os.makedirs = saved
            z += 1
            want = 'swallowed' if table[('ensure_tree', cls, isdir)] else 'propagated'
            if got != want:
                ctx.violation({'kind': 'errno-filter', 'fn': 'ensure_tree', 'errno': cls, 'isdir': isdir, 'got': got},
                              {'errno': name, 'path_is_dir': isdir}, 'ensure_tree with makedirs raising %s on %s: %s, specification %s' % (
                                  name, 'a directory' if isdir else 'a file', got, want))
        # the filter looks at the error the remover reports, not at the path (which may or may not still be there)
        here = os.path.join(root, 'still_here')
        with open(here, 'w') as fh:
            fh.write('x')
        class RemoverError(OSError):
            """an OSError subclass of the remover's own (e.g. from a storage driver): what counts is its errno"""
        for target in ('/nonexistent/x', here, here + '#own-error-class'):
            if target.endswith('#own-error-class'):
                target = here
                err = RemoverError(code, os.strerror(code))
            try:
                fileutils.delete_if_exists(target, remove=boom_factory(err))
                got = 'swallowed'
            except OSError as ex:
                got = 'propagated' if ex is err else 'other-error'
            z += 1
            want = 'swallowed' if table[('delete_if_exists', cls, False)] else 'propagated'
            if got != want:
                ctx.violation({'kind': 'errno-filter', 'fn': 'delete_if_exists', 'errno': cls, 'got': got, 'path_exists': target == here},
                              {'errno': name, 'path_exists': target == here},
                              'delete_if_exists (path %s) with remove raising %s: %s, specification %s' % (
                                  'present' if target == here else 'absent', name, got, want))
    ctx.cov['evaluations'] += z
    ctx.stage('errno-sweep', cases=z, errnos=len(errno.errorcode))
    # binding self-test: a corrupted read trace must be rejected
    good = {'n': 10, 'k': 4, 'ev': [{'req': 4, 'got': 4}, {'req': 4, 'got': 4}, {'req': 4, 'got': 2}, {'req': 4, 'got': 0}]}
    bad = {'n': 10, 'k': 4, 'ev': [{'req': 4, 'got': 4}, {'req': 4, 'got': 4}, {'req': 4, 'got': 0}]}
    rej, _, _ = traces.validate(ctx, 'Trace_Files', [good, bad], 'selftest')
    if rej != {1}:
        raise MachineryError('binding self-test (read traces) failed: %s' % rej)
    ctx.stage('binding-selftest', ok=True)
    ctx.cov['rule'] = ('content lengths 0..200 x chunk sizes {1,2,7,64,1000} (model) plus sizes around every multiple of 4096 / 65536 / '
                       '1 MiB, five hash algorithms, the read loop observed through open(); 192 digests from four threads at once; last_bytes for sizes x n in '
                       '{0,1,size-1,size,size+1,huge}; every edge of the 7-state file-system graph to depth 3 on a real directory '
                       'with the call repeated; every errno of errno.errorcode injected into makedirs / remove')
    shutil.rmtree(root, ignore_errors=True)


def boom_factory(err):
    def remove(p):
        raise err
    return remove
