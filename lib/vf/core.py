"""Check context: work directory, seed, counters, verdicts, evidence."""
import base64
import hashlib
import json
import os
import random
import shutil
import sys
import time
import traceback

ROOT = os.path.dirname(os.path.dirname(os.path.dirname(os.path.abspath(__file__))))
REPO = os.environ.get('VERIF_REPO', '/repo')
KNOWN = os.path.join(ROOT, 'known_findings.json')


def jdefault(o):
    if isinstance(o, (bytes, bytearray)):
        if len(o) > 256:
            return {'b64_head': base64.b64encode(bytes(o[:96])).decode(),
                    'len': len(o),
                    'sha256': hashlib.sha256(bytes(o)).hexdigest()}
        return {'b64': base64.b64encode(bytes(o)).decode()}
    if isinstance(o, (set, frozenset)):
        return sorted(o, key=repr)
    if isinstance(o, tuple):
        return list(o)
    return repr(o)


class Ctx:
    def __init__(self, pid, tier, seed):
        self.pid = pid
        self.tier = tier
        self.seed = seed
        self.rnd = random.Random(seed)
        self.t0 = time.time()
        # one scratch directory per process: concurrent runs of the same check must not share it
        self.work = os.path.join(ROOT, '.work', '%s_%d' % (pid, os.getpid()))
        shutil.rmtree(self.work, ignore_errors=True)
        os.makedirs(self.work, exist_ok=True)
        self.replay_dir = os.path.join(ROOT, 'replays', pid)
        os.makedirs(self.replay_dir, exist_ok=True)
        self.violations = []       # (signature, replay path, text)
        self.violation_counts = {}
        self.beyonds = []
        self.beyond_counts = {}
        self.known_hits = {}       # finding id -> count
        self.cov = {
            'states': 0, 'transitions': 0, 'traces_validated_against_impl': 0,
            'evaluations': 0, 'distinct_nontrivial': 0, 'samples': [],
            'rule': '', 'stages': [], 'tlc_runs': [],
        }
        self.assumptions = []
        self.level = 'model_checking'
        self.notes = []
        try:
            with open(KNOWN) as fh:
                self.known = json.load(fh)
        except FileNotFoundError:
            self.known = {'open': [], 'fixed': []}

    @property
    def quick(self):
        return self.tier == 'quick'

    # -- evidence ---------------------------------------------------------
    def tlc(self, res, label, counts_as_states=True):
        self.cov['tlc_runs'].append(dict(res.summary(), label=label,
                                         coverage=res.coverage or None))
        if counts_as_states:
            self.cov['states'] += res.distinct
            self.cov['transitions'] += res.generated

    def selftest_internal(self, exposed, what, **kw):
        """A binding self-test that works by editing a PRIVATE table or helper of the module under test (to show that
        the harness notices).  If the edit has no effect - the private name is gone or no longer consulted, as after a
        refactoring - that says nothing about the property: it is recorded, not raised."""
        if exposed:
            self.stage('binding-selftest', ok=True, **kw)
        else:
            self.stage('binding-selftest', ok=False, note='not applicable to this tree: %s' % what, **kw)

    def stage(self, name, **kw):
        kw['stage'] = name
        kw['t'] = round(time.time() - self.t0, 2)
        self.cov['stages'].append(kw)
        print('[%s] %6.1fs %s %s' % (self.pid, kw['t'], name, json.dumps(
            {k: v for k, v in kw.items() if k not in ('stage', 't')},
            default=jdefault)[:400]), flush=True)

    def sample(self, s, limit=6):
        if len(self.cov['samples']) < limit:
            self.cov['samples'].append(s)

    def note(self, text):
        self.notes.append(text)
        print('[%s] NOTE %s' % (self.pid, text), flush=True)

    # -- verdicts ---------------------------------------------------------
    def match_known(self, sig):
        """sig: dict. A known finding matches when every key of its
        signature equals the corresponding key of sig."""
        for f in self.known.get('open', []):
            if f.get('property') != self.pid:
                continue
            fs = f.get('signature', {})
            if fs and all(sig.get(k) == v for k, v in fs.items()):
                return f
        return None

    def violation(self, sig, detail, text):
        """Report a contradiction between code and property on a concrete
        case. sig is the structural signature (dict) used both to match the
        known-findings file and to de-duplicate; detail is written to the
        replay file."""
        f = self.match_known(sig)
        if f is not None:
            self.known_hits.setdefault(f['id'], [0, f])[0] += 1
            return False
        key = json.dumps(sig, sort_keys=True, default=jdefault)
        self.violation_counts[key] = self.violation_counts.get(key, 0) + 1
        if self.violation_counts[key] > 1:
            return True            # same structural signature already reported
        if len(self.violations) >= 40:
            self.violations.append((key, None, text))
            return True
        h = hashlib.sha256((key + text).encode()).hexdigest()[:12]
        path = os.path.join(self.replay_dir, h + '.json')
        with open(path, 'w') as fh:
            json.dump({'property': self.pid, 'seed': self.seed, 'tier': self.tier,
                       'signature': sig, 'what': text, 'detail': detail},
                      fh, indent=1, default=jdefault)
        self.violations.append((key, path, text))
        print('[%s] violation: %s' % (self.pid, text[:600]), flush=True)
        return True

    def beyond(self, spec, sig, detail, text):
        """A contradiction between the code and a specification module that models behaviour OUTSIDE the statement
        of this property (spec growth hosted by this check).  It is reported (BEYOND-PROPERTY line, replay file,
        evidence note) but is not a violation of the property: the exit status stays what the property's own
        stages decide.  VERIF_STRICT_GROWTH=1 turns such mismatches into exit status 3."""
        key = json.dumps(dict(sig, spec=spec), sort_keys=True, default=jdefault)
        self.beyond_counts[key] = self.beyond_counts.get(key, 0) + 1
        if self.beyond_counts[key] > 1 or len(self.beyonds) >= 20:
            return
        h = hashlib.sha256((key + text).encode()).hexdigest()[:12]
        path = os.path.join(self.replay_dir, 'beyond_' + h + '.json')
        with open(path, 'w') as fh:
            json.dump({'host_property': self.pid, 'spec_module': spec, 'seed': self.seed, 'tier': self.tier,
                       'signature': sig, 'what': text, 'detail': detail}, fh, indent=1, default=jdefault)
        self.beyonds.append((spec, path, text))
        print('[%s] beyond-property mismatch (%s): %s' % (self.pid, spec, text[:600]), flush=True)

    def finish(self):
        for spec, path, text in self.beyonds:
            self.notes.append('beyond-property mismatch, spec %s (not a violation of %s): %s [%s]' % (
                spec, self.pid, text[:300], path))
        cov = self.cov
        if not cov['samples']:
            cov['samples'] = ['(no case executed)']
        ev = {
            'property_id': self.pid, 'tier': self.tier, 'seed': self.seed,
            'level': self.level, 'coverage': cov,
            'assumptions': self.assumptions,
            'wall_s': round(time.time() - self.t0, 2),
            'violations': len([v for v in self.violations if v[1]]),
            'violation_signatures': self.violation_counts,
            'known_findings_observed': {k: v[0] for k, v in self.known_hits.items()},
            'notes': self.notes,
        }
        # growth checks (G..) are not properties: their evidence lives apart from evidence/<property>.json
        evdir = os.path.join(ROOT, 'evidence' if self.pid.startswith('C') else 'growth')
        if os.environ.get('VERIF_REPO', '/repo').rstrip('/') != '/repo':
            # a run against a scratch copy (seeded change): its evidence must not replace the evidence about /repo
            evdir = os.path.join(ROOT, '.work', 'evidence_scratch')
        os.makedirs(evdir, exist_ok=True)
        with open(os.path.join(evdir, self.pid + '.json'), 'w') as fh:
            json.dump(ev, fh, indent=1, default=jdefault)
        for fid, (n, f) in sorted(self.known_hits.items()):
            print('KNOWN-FINDING: property=%s %s %s (re-observed on %d case(s))' % (
                self.pid, fid, f['what'], n))
        for spec, path, text in self.beyonds:
            print('BEYOND-PROPERTY: host=%s spec=%s replay=%s' % (self.pid, spec, path))
        shown = [v for v in self.violations if v[1]]
        for key, path, text in shown:
            print('VIOLATION property=%s replay=%s' % (self.pid, path))
        print('[%s] %s tier=%s seed=%d wall=%.1fs states=%d evaluations=%d traces=%d' % (
            self.pid, 'FAIL' if shown else ('PASS' if not self.beyonds else 'PASS (%d beyond-property mismatch(es))' % len(self.beyonds)), self.tier, self.seed,
            ev['wall_s'], cov['states'], cov['evaluations'],
            cov['traces_validated_against_impl']), flush=True)
        if not shown and self.beyonds and (os.environ.get('VERIF_STRICT_GROWTH') or not self.pid.startswith('C')):
            return 3      # growth checks (G..) have nothing else to decide: a mismatch is their failure
        return 1 if shown else 0


def main(run, pid):
    import argparse
    ap = argparse.ArgumentParser()
    ap.add_argument('--tier', default=os.environ.get('VERIF_TIER', 'quick'),
                    choices=['quick', 'thorough'])
    ap.add_argument('--seed', type=int,
                    default=int(os.environ.get('VERIF_SEED', '0') or 0))
    ap.add_argument('--replay', default=None)
    args = ap.parse_args(sys.argv[2:])
    from . import tlc as _tlc
    wanted = None
    if args.replay:
        # a replay file names the case by its structural signature and records tier and seed: the check is run again
        # exactly as it was (everything is deterministic under a seed) and says whether that case shows again
        try:
            with open(args.replay) as fh:
                rep = json.load(fh)
            args.tier, args.seed = rep.get('tier', args.tier), int(rep.get('seed', args.seed))
            wanted = json.dumps(rep['signature'], sort_keys=True, default=jdefault)
        except Exception as e:
            print('[%s] MACHINERY FAILURE: unreadable replay file %s: %s' % (pid, args.replay, e), flush=True)
            sys.exit(2)
    ctx = Ctx(pid, args.tier, args.seed)
    ctx.replay = args.replay
    try:
        run(ctx)
        if wanted is not None:
            again = wanted in ctx.violation_counts or wanted in getattr(ctx, 'beyond_counts', {})
            print('REPLAY %s: %s (tier %s, seed %s)' % (args.replay, 'reproduced' if again else 'not reproduced on this tree',
                                                        args.tier, args.seed), flush=True)
        rc = ctx.finish()
    except _tlc.MachineryError as e:
        print('[%s] MACHINERY FAILURE: %s' % (pid, e), flush=True)
        rc = 2
        if any(v[1] for v in ctx.violations):
            # violations found before the machinery broke are still reported
            ctx.note('machinery failure after violations: %s' % str(e)[:300])
            rc = ctx.finish()
    except Exception:
        traceback.print_exc()
        print('[%s] MACHINERY FAILURE (harness exception)' % pid, flush=True)
        rc = 2
        if any(v[1] for v in ctx.violations):
            ctx.note('harness exception after violations')
            rc = ctx.finish()
    finally:
        if not os.environ.get('VERIF_KEEP_WORK'):
            shutil.rmtree(ctx.work, ignore_errors=True)
    sys.exit(rc)
