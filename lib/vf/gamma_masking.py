"""gamma for spec/Masking.tla: abstract segments / trees -> concrete Python values."""
import collections
import collections.abc

CLASS = {
    'letter': 'xqzXQZjvw', 'digit': '0123456789', 'nonascii': 'éüß中Ж', 'punct': '!#%&,-/:;@_~>',
    'equals': '=', 'lt': '<', 'space': ' ', 'tab': '\t', 'newline': '\n',
    'dot': '.', 'star': '*', 'plus': '+', 'qmark': '?', 'caret': '^', 'dollar': '$', 'lparen': '(',
    'rparen': ')', 'lbrack': '[', 'rbrack': ']', 'lbrace': '{', 'rbrace': '}', 'pipe': '|',
    'backslash': '\\',
}
TEMPLATE = {
    'eq': '{k}={v}', 'eq_sp': '{k} = {v}', 'eq_dq': '{k}="{v}"', 'eq_sq': "{k}='{v}'",
    'eq_sp_dq': '{k} = "{v}"', 'json_dq': '"{k}": "{v}"', 'dict_sq': "'{k}': '{v}'",
    'dict_u': "u'{k}': u'{v}'", 'json_tight': '"{k}":"{v}"', 'xml': '<{k}>{v}</{k}>',
    'opt': '--{k} {v}', 'sp_sq': "{k} '{v}'", 'sp_dq': '{k} "{v}"',
    'argv_flag': "'--{k}', '--flag', '{v}'", 'argv_u': "'{k}', '-f', u'{v}'", 'flag': '{k} --flag {v}',
    'argv_flag_us': "'--{k}', '--flag_name', '{v}'", 'flag_us': '{k} --new_value {v}',
}
SANITIZE = ['adminpass', 'admin_pass', 'password', 'admin_password', 'auth_token', 'new_pass',
            'auth_password', 'secret_uuid', 'secret', 'sys_pswd', 'token', 'configdrive',
            'chappassword', 'encrypted_key', 'private_key', 'fernetkey', 'sslkey', 'passphrase',
            'cephclusterfsid', 'octaviaheartbeatkey', 'rabbitcookie', 'cephmanilaclientkey',
            'pacemakerremoteauthkey', 'designaterndckey', 'cephadminkey', 'heatauthencryptionkey',
            'cephclientkey', 'keystonecredential', 'barbicansimplecryptokek', 'cephrgwkey',
            'swifthashsuffix', 'migrationsshkey', 'cephmdskey', 'cephmonkey', 'chapsecret']
NEUTRAL = {'plain_a': 'INFO request 42 done;', 'plain_b': 'user=alice id:7 (ok)',
           'quoted_pair': "'user': 'bob'"}


def compounds(key):
    """Names in which another sanitize key overlaps the front of `key`."""
    out = []
    for j in SANITIZE:
        if j == key:
            continue
        for ov in range(1, min(len(j), len(key))):
            if j.endswith(key[:ov]) and not key.startswith(j):
                out.append(j[:-ov] + key)
    return sorted(set(out))


def spell(key, how, rnd):
    if how == 'lower':
        return key
    if how == 'glued':
        opts = ['x_' + key, 'os-' + key, 'My' + key.capitalize(), 'new' + key] + compounds(key)
        return rnd.choice(opts)
    if how == 'UPPER':
        return key.upper()
    if how == 'Capitalised':
        return key.capitalize()
    return key + rnd.choice(['7', '42', '007'])


def expansions(secret, rnd, samples=3):
    """Concrete strings for a sequence of classes: every member when the
    secret is a single class, seeded samples otherwise."""
    if len(secret) == 1:
        return list(CLASS[secret[0]])
    if len(set(secret)) == 1 and len(secret) <= 2:
        return [c * len(secret) for c in CLASS[secret[0]]]
    out = []
    for _ in range(samples):
        out.append(''.join(rnd.choice(CLASS[c]) for c in secret))
    return out


def render(msg, secrets, mask, rnd_spell):
    """msg: list of segments; secrets: concrete secret per field index (None -> masked)."""
    parts = []
    for i, sg in enumerate(msg):
        if sg['t'] == 'neutral':
            parts.append(NEUTRAL[sg['text']])
        else:
            v = mask if sg['secret'] == ['MASK'] else secrets[i]
            parts.append(TEMPLATE[sg['rend']].format(k=rnd_spell[i], v=v))
    return ' '.join(parts)


# -- trees ---------------------------------------------------------------------
class Bag(dict):
    """a dict subclass of the caller's own"""


class ROMapping(collections.abc.Mapping):
    """A Mapping that is not a dict."""

    def __init__(self, d):
        self._d = dict(d)

    def __getitem__(self, k):
        return self._d[k]

    def __iter__(self):
        return iter(self._d)

    def __len__(self):
        return len(self._d)

    def __eq__(self, other):
        return isinstance(other, ROMapping) and self._d == other._d

    def __repr__(self):
        return 'ROMapping(%r)' % (self._d,)


NEARMISS = ['passwor', 'tokem', 'secre', 'pass_word', 'ssl_key', 'admin-pass', 'auth tokem', 'fernet.key']


def key_value(tok, rnd, used):
    for _ in range(50):
        if tok in ('k_sanitize', 'k_sanitize2'):
            k = rnd.choice(SANITIZE)
            k = rnd.choice([k, k.upper(), k.capitalize(), 'my_' + k, k + '_2', 'X' + k.upper() + 'y', 'os-' + k])
        elif tok == 'k_plain':
            k = rnd.choice(['user', 'home-dir', 'id', 'name', 'flavor', 'Region'])
        elif tok == 'k_nearmiss':
            k = rnd.choice(NEARMISS)
        elif tok == 'k_int':
            k = rnd.randint(0, 99)
        elif tok == 'k_tuple':
            k = ('password', rnd.randint(0, 9))
        else:
            k = rnd.choice([b'password', b'token', b'x'])
        if k not in used:
            used.add(k)
            return k
    raise RuntimeError('no fresh key')


def leaf_value(tok, rnd, mask):
    if tok == 'v_secret_str':
        sec = ''.join(rnd.choice('xqz0123456789') for _ in range(6))
        form = rnd.choice(['--password %s', 'token=%s', '"auth_token": "%s"', "<secret>%s</secret>",
                           'mysql --PASSWORD %s', 'Auth_Token = %s', "{'adminPass' : '%s'}", 'SSLKEY=%s'])
        return form % sec, form % mask
    if tok == 'v_plain_str':
        v = rnd.choice(['admin', '/home/admin', '', 'hello world'])
    elif tok == 'v_bytes':
        v = b'password=abc'
    elif tok == 'v_int':
        v = rnd.randint(-5, 5)
    elif tok == 'v_none':
        v = None
    elif tok == 'v_float':
        v = 1.5
    else:
        v = ['password=abc', {'password': 'x'}, 3]
    return v, v


def build_tree(node, rnd, mask):
    """-> (input value, expected output value) for a tree and its MaskTree image
    (node is the INPUT tree; expectations are derived per the rules by the spec:
    the caller passes the spec's masked tree separately to build_expected)."""
    raise NotImplementedError


def build_pair(tree, masked, rnd, mask):
    """Builds the concrete argument from `tree` and the concrete expected result
    from `masked` (the spec's MaskTree(tree)), sharing keys and leaf choices."""
    if tree['t'] == 'leaf':
        vin, vmasked = leaf_value(tree['v'], rnd, mask)
        if masked['v'] == 'MASK':
            return vin, mask
        if masked['v'] == 'v_secret_str_masked':
            return vin, vmasked
        return vin, vin
    used = set()
    din, dout = {}, {}
    shared = []      # (abstract subtree, concrete argument, concrete expectation) of the nested mappings so far
    for (k_tok, sub), (k2, sub2) in zip(tree['ents'], masked['ents']):
        k = key_value(k_tok, rnd, used)
        reuse = [t for t in shared if t[0] == sub] if sub['t'] == 'map' else []
        if reuse and rnd.random() < 0.6:
            # the SAME mapping object under two keys (a DAG, not a tree): each occurrence is masked like any other
            a, b = reuse[0][1], reuse[0][2]
        else:
            a, b = build_pair(sub, sub2, rnd, mask)
            if sub['t'] == 'map':
                shared.append((sub, a, b))
        din[k] = a
        dout[k] = b
    arg = ROMapping(din) if tree['kind'] == 'mapping' else din
    if tree['kind'] == 'dict' and rnd.random() < 0.15:
        # a dict all the same, of a subclass: what comes back is a plain dict at every level
        arg = collections.OrderedDict(din) if rnd.random() < 0.5 else Bag(din)
    return arg, dout
