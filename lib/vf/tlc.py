"""Thin driver around TLC / SANY / Apalache.

Everything a check needs from the model checker goes through here so that the
numbers that end up in the evidence files are the ones TLC printed on *this*
run (states generated, distinct states, depth, per-action coverage, PrintT
records) and so that a TLC failure is never mistaken for a verdict about the
code (MachineryError -> exit 2).
"""
import json
import os
import re
import shutil
import subprocess
import time

JAR = '/opt/veriftools/tla/tla2tools.jar'
CM = '/opt/veriftools/tla/CommunityModules-deps.jar'
SPEC_DIR = os.path.join(os.path.dirname(os.path.dirname(os.path.dirname(
    os.path.abspath(__file__)))), 'spec')


class MachineryError(Exception):
    """TLC/SANY/bridge failure: the check is broken, not the code."""


class TLCResult:
    def __init__(self):
        self.ok = False            # "No error has been found"
        self.violated = None       # name of violated invariant / property
        self.generated = 0
        self.distinct = 0
        self.depth = 0
        self.wall_s = 0.0
        self.records = []          # parsed PrintT(ToJson(..)) records
        self.coverage = {}         # action name -> (distinct, generated)
        self.output = ''
        self.cmd = ''
        self.postcondition_failed = False

    def summary(self):
        return {'module_cmd': self.cmd, 'states_generated': self.generated,
                'distinct_states': self.distinct, 'depth': self.depth,
                'wall_s': round(self.wall_s, 2), 'ok': self.ok,
                'violated': self.violated}


_RE_STATES = re.compile(
    r'(\d+) states generated, (\d+) distinct states found, (\d+) states left')
_RE_DEPTH = re.compile(r'depth of the complete state graph search is (\d+)')
_RE_INV = re.compile(r'Error: Invariant (\S+) is violated')
_RE_PROP = re.compile(r'Error: Action property (\S+) is violated')
_RE_COV = re.compile(r'^<(\w+) line (\d+), col \d+ to line \d+, col \d+ of '
                     r'module (\w+)>: (\d+):(\d+)')


def _java_cmd(workers, simulate=None, dfs=False, heap='8g'):
    cmd = ['java', '-XX:+UseParallelGC', '-Xmx' + heap, '-Xss64m']
    if dfs:
        cmd.append('-Dtlc2.tool.queue.IStateQueue=StateDeque')
    cmd += ['-cp', JAR + ':' + CM, 'tlc2.TLC']
    return cmd


def parse_records(text, keep=None):
    """PrintT(ToJson(x)) prints a JSON string literal per line."""
    out = []
    for line in text.splitlines():
        if len(line) > 2 and line[0] == '"' and line[-1] == '"':
            try:
                rec = json.loads(json.loads(line))
            except ValueError:
                raise MachineryError('unparsable export line: %r' % line[:200])
            if keep is None or keep(rec):
                out.append(rec)
    return out


def run(module, cfg=None, workdir=None, workers=16, timeout=1500, env=None,
        simulate=None, depth=None, seed=None, coverage=False, dfs=False,
        spec_dir=SPEC_DIR, heap='8g', parse=True, extra=None,
        allow_violation=False, stdout_path=None):
    """Run TLC on spec_dir/module.tla with spec_dir/cfg.

    Returns a TLCResult. Raises MachineryError on parse/semantic errors, on a
    timeout, or on a TLC crash. An invariant violation is *returned* (callers
    decide: on a design model it is a machinery error unless expected; on a
    trace spec it is a rejection).
    """
    cfg = cfg or module + '.cfg'
    workdir = workdir or os.path.join(os.path.dirname(SPEC_DIR), '.work', 'tlc')
    meta = os.path.join(workdir, 'meta_%s_%d' % (
        os.path.splitext(os.path.basename(cfg))[0], os.getpid()))
    shutil.rmtree(meta, ignore_errors=True)
    os.makedirs(meta, exist_ok=True)
    cmd = _java_cmd(workers, dfs=dfs, heap=heap)
    cmd += ['-workers', str(workers), '-metadir', meta, '-noGenerateSpecTE',
            '-config', cfg]
    if coverage:
        cmd += ['-coverage', '1']
    if simulate:
        cmd += ['-simulate', simulate]
        if depth:
            cmd += ['-depth', str(depth)]
    if seed is not None:
        cmd += ['-seed', str(seed)]
    if extra:
        cmd += list(extra)
    cmd.append(module)
    e = dict(os.environ)
    if env:
        e.update({k: str(v) for k, v in env.items()})
    res = TLCResult()
    res.cmd = ' '.join(cmd[cmd.index('tlc2.TLC'):])
    t0 = time.time()
    try:
        if stdout_path:
            with open(stdout_path, 'w') as fh:
                p = subprocess.run(cmd, cwd=spec_dir, env=e, stdout=fh,
                                   stderr=subprocess.STDOUT, timeout=timeout)
            with open(stdout_path, errors='replace') as fh:
                out = fh.read()
        else:
            p = subprocess.run(cmd, cwd=spec_dir, env=e, timeout=timeout,
                               stdout=subprocess.PIPE, stderr=subprocess.STDOUT)
            out = p.stdout.decode('utf-8', 'replace')
    except subprocess.TimeoutExpired:
        subprocess.run(['pkill', '-f', meta], check=False)
        raise MachineryError('TLC timed out after %ss: %s' % (timeout, res.cmd))
    finally:
        shutil.rmtree(meta, ignore_errors=True)
    res.wall_s = time.time() - t0
    res.output = out
    for m in _RE_STATES.finditer(out):
        res.generated, res.distinct = int(m.group(1)), int(m.group(2))
    m = _RE_DEPTH.search(out)
    if m:
        res.depth = int(m.group(1))
    m = _RE_INV.search(out) or _RE_PROP.search(out)
    if m:
        res.violated = m.group(1)
    if 'Postcondition' in out and 'violated' in out or \
            'The postcondition' in out:
        res.postcondition_failed = True
    res.ok = ('No error has been found' in out and not res.violated and
              not res.postcondition_failed)
    if simulate and not res.violated and p.returncode in (0,) and \
            'Error:' not in out:
        res.ok = True
    if coverage:
        for line in out.splitlines():
            m = _RE_COV.match(line.strip())
            if m:
                res.coverage[m.group(1)] = (int(m.group(4)), int(m.group(5)))
    fatal = None
    if not res.ok and not res.violated and not res.postcondition_failed:
        fatal = 'TLC failed'
    for marker in ('Parsing or semantic analysis failed',
                   'Semantic errors', 'java.lang.', 'Error: TLC threw',
                   'Error: Evaluating', 'was not in the domain',
                   'Attempted to', 'The exception was'):
        if marker in out and not res.ok:
            fatal = marker
            break
    if fatal and not (res.violated and allow_violation and
                      fatal == 'TLC failed'):
        if not (res.violated and allow_violation):
            lines = [l for l in out.splitlines() if not l.startswith('"')]
            first = next((i for i, l in enumerate(lines) if l.startswith('Error:')
                          or 'Exception' in l), max(0, len(lines) - 30))
            tail = '\n'.join(l[:300] for l in lines[first:first + 25])
            raise MachineryError('%s: %s\n%s' % (fatal, res.cmd, tail))
    if res.violated and not allow_violation:
        tail = '\n'.join(l for l in out.splitlines()
                         if not l.startswith('"'))[-4000:]
        raise MachineryError('model violates %s (cfg %s)\n%s' % (
            res.violated, cfg, tail))
    if parse:
        res.records = parse_records(out)
    return res


def sany(module, spec_dir=SPEC_DIR):
    p = subprocess.run(['java', '-cp', JAR + ':' + CM, 'tla2sany.SANY',
                        module + '.tla'], cwd=spec_dir,
                       stdout=subprocess.PIPE, stderr=subprocess.STDOUT)
    out = p.stdout.decode('utf-8', 'replace')
    if p.returncode != 0 or 'Semantic errors' in out or \
            'Parse Error' in out or 'Fatal errors' in out or \
            '*** Errors' in out:
        raise MachineryError('SANY rejected %s:\n%s' % (module, out[-2000:]))
    return out


def write_cfg(path, spec='Spec', constants=None, invariants=(), properties=(),
              constraints=(), action_constraints=(), view=None, init=None,
              next_=None, postcondition=None):
    """Write a TLC configuration file (one INVARIANT line per clause)."""
    lines = []
    if init:
        lines += ['INIT %s' % init, 'NEXT %s' % next_]
    else:
        lines.append('SPECIFICATION %s' % spec)
    if constants:
        lines.append('CONSTANTS')
        for k, v in constants.items():
            if isinstance(v, str) and v.startswith('<-'):
                lines.append('  %s %s' % (k, v))
            else:
                lines.append('  %s = %s' % (k, tla_value(v)))
    for x in invariants:
        lines.append('INVARIANT %s' % x)
    for x in properties:
        lines.append('PROPERTY %s' % x)
    for x in constraints:
        lines.append('CONSTRAINT %s' % x)
    for x in action_constraints:
        lines.append('ACTION_CONSTRAINT %s' % x)
    if view:
        lines.append('VIEW %s' % view)
    if postcondition:
        lines.append('POSTCONDITION %s' % postcondition)
    lines.append('CHECK_DEADLOCK FALSE')
    with open(path, 'w') as fh:
        fh.write('\n'.join(lines) + '\n')
    return path


def tla_value(v):
    if isinstance(v, bool):
        return 'TRUE' if v else 'FALSE'
    if isinstance(v, int):
        return str(v)
    if isinstance(v, str):
        return '"%s"' % v
    if isinstance(v, (set, frozenset)):
        return '{' + ', '.join(tla_value(x) for x in sorted(v, key=repr)) + '}'
    if isinstance(v, (list, tuple)):
        return '<<' + ', '.join(tla_value(x) for x in v) + '>>'
    raise ValueError(v)


def apalache(module, init, inv, length, workdir, spec_dir=SPEC_DIR, timeout=600, source=None):
    """Run `apalache-mc check`. Returns 'ok' | 'violation'; anything else raises MachineryError."""
    out_dir = os.path.join(workdir, 'apalache')
    os.makedirs(out_dir, exist_ok=True)
    target = source or (module + '.tla')
    cmd = ['apalache-mc', 'check', '--init=' + init, '--inv=' + inv, '--length=%d' % length,
           '--out-dir=' + out_dir, target]
    try:
        p = subprocess.run(cmd, cwd=spec_dir if source is None else os.path.dirname(source), timeout=timeout,
                           stdout=subprocess.PIPE, stderr=subprocess.STDOUT)
    except subprocess.TimeoutExpired:
        raise MachineryError('apalache timed out: %s' % ' '.join(cmd))
    finally:
        pass
    out = p.stdout.decode('utf-8', 'replace')
    shutil.rmtree(out_dir, ignore_errors=True)
    if 'EXITCODE: OK' in out and 'no error' in out:
        return 'ok'
    if p.returncode == 12 or 'Checker has found an error' in out or 'violat' in out:
        return 'violation'
    raise MachineryError('apalache failed (%s): %s' % (p.returncode, out[-1500:]))


def tlaps(proof_module, workdir, spec_dir=SPEC_DIR, timeout=900):
    """Run the TLA+ proof system on spec/proofs/<proof_module>.tla (in a scratch copy: tlapm writes its cache next
    to the module).  Returns the number of obligations proved; raises MachineryError unless all are."""
    src = os.path.join(spec_dir, 'proofs', proof_module + '.tla')
    wd = os.path.join(workdir, 'tlaps_' + proof_module)
    out = ''
    # the back-end provers run under their own (wall-clock) time limits: on a loaded machine an obligation can time
    # out that is proved in a second otherwise, so a failed attempt is repeated with the limits stretched
    for stretch in (1, 4, 12):
        shutil.rmtree(wd, ignore_errors=True)
        os.makedirs(wd)
        shutil.copy(src, wd)
        cmd = ['tlapm', '--cleanfp', '--stretch', str(stretch), '-I', spec_dir, proof_module + '.tla']
        try:
            p = subprocess.run(cmd, cwd=wd, timeout=min(timeout * stretch, 2700), stdout=subprocess.PIPE, stderr=subprocess.STDOUT)
        except subprocess.TimeoutExpired:
            out = 'tlapm timed out (stretch %d)' % stretch
            continue
        out = p.stdout.decode('utf-8', 'replace')
        shutil.rmtree(wd, ignore_errors=True)
        m = re.search(r'All (\d+) obligations? proved', out)
        if p.returncode == 0 and m:
            return int(m.group(1))
    shutil.rmtree(wd, ignore_errors=True)
    raise MachineryError('tlapm did not prove %s: %s' % (proof_module, out[-1200:]))
