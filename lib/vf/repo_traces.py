"""Run (part of) the repository's own test-suite under vf.repo_recorder and return the recorded traces."""
import json
import os
import subprocess

from vf.tlc import MachineryError

REPO = os.environ.get('VERIF_REPO', '/repo')


def record(ctx, test_paths, what, label):
    out = os.path.join(ctx.work, 'repo_traces_%s.json' % label)
    if os.path.exists(out):
        os.remove(out)
    env = dict(os.environ)
    env.update({'VF_REC_OUT': out, 'VF_REC_WHAT': what, 'PYTHONDONTWRITEBYTECODE': '1',
                'PYTHONPATH': os.pathsep.join([REPO, '/verif/lib', '/verif'])})
    cmd = ['/venv/bin/python', '-m', 'pytest', '-q', '-p', 'no:cacheprovider', '-p', 'vf.repo_recorder',
           '--timeout=600'] + list(test_paths)
    p = subprocess.run(cmd, cwd=REPO, env=env, stdout=subprocess.PIPE, stderr=subprocess.STDOUT, timeout=1200)
    if not os.path.exists(out):
        raise MachineryError('repository tests under the recorder wrote no traces: %s' % p.stdout.decode(errors='replace')[-600:])
    with open(out) as fh:
        rec = json.load(fh)
    rec['pytest_tail'] = p.stdout.decode(errors='replace').strip().splitlines()[-1:]
    return rec
