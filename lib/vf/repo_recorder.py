"""pytest plugin: records traces from the repository's OWN test-suite run.

Loaded with `-p vf.repo_recorder` (PYTHONPATH holds /verif/lib) while pytest runs the
repository's tests from the tree under verification.  Nothing in the repository is
edited: the public entry points are wrapped from outside for the duration of the run,
at the grain of the trace specifications

  Trace_StopWatch      one event per public StopWatch call (+ one `tick` per clock reading)
  Trace_TimeOverride   one event per call on the overridable clock
  Trace_Retention      one event per FileInspector.eat_chunk (bytes held per region)

and the traces are written as JSON to $VF_REC_OUT at the end of the session.  The
repository's tests thereby become workloads whose every step is checked against the
specification, not only against the assertions the tests happen to make.

Clock readings: the StopWatch specification works on integers.  Readings are scaled to
milliseconds; a test that mocks `now` with values that are not whole milliseconds makes
its trace "unrepresentable" (counted, not validated).  The real monotonic clock is
quantised to whole milliseconds *before* the code under test sees it, so that the code
and the trace agree on every reading.
"""
import datetime
import functools
import json
import math
import os
import threading

OUT = os.environ.get('VF_REC_OUT')
REC = {'stopwatch': [], 'clock': [], 'retention': [], 'unrepresentable': {'stopwatch': 0, 'clock': 0},
       'tests': 0}
_local = threading.local()
_current_test = ['?']
BASE = datetime.datetime(2024, 12, 30)
NONE = [-9]
MAX_EVENTS = 400


class Unrepresentable(Exception):
    pass


def sc(x):
    """seconds -> whole milliseconds, or Unrepresentable"""
    if isinstance(x, bool) or not isinstance(x, (int, float)):
        raise Unrepresentable(repr(x))
    v = x * 1000.0
    r = round(v)
    if abs(v - r) > 1e-6 or abs(r) > 2000000000:
        raise Unrepresentable(repr(x))
    return int(r)


# ---------------------------------------------------------------------------
# StopWatch
# ---------------------------------------------------------------------------
def install_stopwatch(timeutils):
    SW = timeutils.StopWatch
    real_now = timeutils.now

    def trace_of(w):
        t = w.__dict__.get('_vf_trace')
        if t is None:
            try:
                dur = -1 if w._duration is None else sc(w._duration)
            except Unrepresentable:
                dur = None
            t = {'dur': dur, 'ev': [], 'test': _current_test[0], 'last': None, 'base': None, 'ok': dur is not None}
            w.__dict__['_vf_trace'] = t
            REC['stopwatch'].append(t)
        return t

    def outer(w, op, arg, fn, encode):
        """run fn() as one public call of watch w"""
        depth = getattr(_local, 'depth', 0)
        if depth:
            return fn()
        t = trace_of(w)
        readings = []
        current = timeutils.now

        def logging_now():
            v = current()
            if current is real_now:
                v = math.floor(v * 1000.0) / 1000.0
            readings.append(v)
            return v
        timeutils.now = logging_now
        _local.depth = 1
        res = None
        try:
            try:
                out = fn()
                res = encode(out, w)
                return out
            except RuntimeError:
                res = {'k': 'err', 'v': 0}
                raise
            except Unrepresentable:
                t['ok'] = False
                raise
            except Exception as e:
                res = {'k': 'raised', 'v': type(e).__name__}
                raise
        finally:
            _local.depth = 0
            if timeutils.now is logging_now:
                timeutils.now = current
            if t['ok'] and len(t['ev']) < MAX_EVENTS:
                try:
                    for v in readings:
                        s = sc(v)
                        if t['base'] is None:
                            t['base'] = s
                            t['last'] = s
                        t['ev'].append({'op': 'tick', 'arg': s - t['last'], 'r': {'k': 'none', 'v': 0}})
                        t['last'] = s
                    if isinstance(res, dict) and res.get('k') == 'unrepresentable':
                        raise Unrepresentable('result')
                    t['ev'].append({'op': op, 'arg': arg, 'r': res if res is not None else {'k': 'none', 'v': 0}})
                except Unrepresentable:
                    t['ok'] = False

    def num(x):
        try:
            return sc(x)
        except Unrepresentable:
            raise

    def enc_self(out, w):
        if out is w:
            return {'k': 'self', 'v': 0}
        if out is None:
            return {'k': 'nil', 'v': 0}
        return {'k': 'other', 'v': repr(out)}

    def enc_num(out, w):
        if out is None:
            return {'k': 'nil', 'v': 0}
        try:
            return {'k': 'int', 'v': num(out)}
        except Unrepresentable:
            return {'k': 'unrepresentable'}

    def enc_bool(out, w):
        return {'k': 'bool', 'v': out} if isinstance(out, bool) else {'k': 'other', 'v': repr(out)}

    def enc_split(out, w):
        try:
            return {'k': 'split', 'v': [num(out.elapsed), num(out.length)]}
        except Unrepresentable:
            return {'k': 'unrepresentable'}

    def enc_splits(out, w):
        try:
            return {'k': 'splits', 'v': [[num(s.elapsed), num(s.length)] for s in out]}
        except Unrepresentable:
            return {'k': 'unrepresentable'}

    def simple(name, op, enc):
        orig = getattr(SW, name)

        @functools.wraps(orig)
        def wrapper(self, *a, **kw):
            return outer(self, op, 0, lambda: orig(self, *a, **kw), enc)
        setattr(SW, name, wrapper)

    for name, op in (('start', 'start'), ('stop', 'stop'), ('resume', 'resume'), ('restart', 'restart'),
                     ('__enter__', 'enter')):
        simple(name, op, enc_self)
    simple('split', 'split', enc_split)
    simple('expired', 'expired', enc_bool)
    simple('has_started', 'has_started', enc_bool)
    simple('has_stopped', 'has_stopped', enc_bool)

    orig_exit = SW.__exit__

    @functools.wraps(orig_exit)
    def exit_wrapper(self, *a):
        return outer(self, 'exit', 0, lambda: orig_exit(self, *a), enc_self)
    SW.__exit__ = exit_wrapper

    orig_elapsed = SW.elapsed

    @functools.wraps(orig_elapsed)
    def elapsed_wrapper(self, maximum=None):
        if maximum is None:
            return outer(self, 'elapsed', 0, lambda: orig_elapsed(self), enc_num)
        try:
            arg = sc(maximum)
        except Unrepresentable:
            trace_of(self)['ok'] = False
            return orig_elapsed(self, maximum=maximum)
        return outer(self, 'elapsed_max', arg, lambda: orig_elapsed(self, maximum=maximum), enc_num)
    SW.elapsed = elapsed_wrapper

    orig_leftover = SW.leftover

    @functools.wraps(orig_leftover)
    def leftover_wrapper(self, return_none=False):
        if return_none:
            return outer(self, 'leftover_none', 0, lambda: orig_leftover(self, return_none=True), enc_num)
        return outer(self, 'leftover', 0, lambda: orig_leftover(self), enc_num)
    SW.leftover = leftover_wrapper

    orig_splits = SW.splits
    SW.splits = property(lambda self: outer(self, 'splits', 0, lambda: orig_splits.fget(self), enc_splits))


# ---------------------------------------------------------------------------
# the overridable clock
# ---------------------------------------------------------------------------
def triple(dt):
    d = dt.replace(tzinfo=None) - BASE
    return [d.days, d.seconds, d.microseconds]


def install_clock(timeutils, state):
    state['trace'] = None

    def override_now():
        ov = timeutils.utcnow.override_time
        if ov is None:
            return NONE
        if isinstance(ov, datetime.datetime):
            return triple(ov)
        return 'LIST'

    def new_trace():
        t = {'ev': [], 'test': _current_test[0], 'ok': True}
        cur = override_now()
        if cur == 'LIST':
            t['ok'] = False
        elif cur != NONE:
            t['ev'].append({'op': 'set', 'arg': cur, 'res': NONE, 'after': cur})
        state['trace'] = t
        REC['clock'].append(t)
        return t
    state['new'] = new_trace

    def log(op, arg, res):
        t = state['trace'] or new_trace()
        after = override_now()
        if after == 'LIST' or arg == 'LIST':
            t['ok'] = False
        if t['ok'] and len(t['ev']) < MAX_EVENTS:
            t['ev'].append({'op': op, 'arg': arg, 'res': res, 'after': after})

    def wrap(name, handler):
        orig = getattr(timeutils, name)

        @functools.wraps(orig)
        def wrapper(*a, **kw):
            depth = getattr(_local, 'cdepth', 0)
            _local.cdepth = depth + 1
            before = override_now()
            try:
                out = orig(*a, **kw)
            except BaseException:
                _local.cdepth = depth
                raise
            _local.cdepth = depth
            if depth == 0:
                try:
                    handler(before, out, a, kw)
                except Exception:
                    (state['trace'] or new_trace())['ok'] = False
            return out
        # attributes such as utcnow.override_time live on the ORIGINAL function object and the library
        # reads them through the module attribute: keep them reachable through the wrapper
        return orig, wrapper

    # utcnow carries the state as a function attribute: it must stay the same object, so it is not replaced;
    # utcnow / utcnow_ts are observed through the two functions that the tests call on the module
    orig_utcnow = timeutils.utcnow

    def h_set(before, out, a, kw):
        after = override_now()
        log('set', after, NONE)

    def h_clear(before, out, a, kw):
        log('clear', NONE, NONE)

    def h_adv_delta(before, out, a, kw):
        td = a[0] if a else kw['timedelta']
        log('advance_delta', [td.days, td.seconds, td.microseconds], NONE)

    def h_adv_seconds(before, out, a, kw):
        secs = a[0] if a else kw['seconds']
        td = datetime.timedelta(0, secs)
        log('advance_seconds', [td.days, td.seconds, td.microseconds], NONE)

    for name, h in (('set_time_override', h_set), ('clear_time_override', h_clear),
                    ('advance_time_delta', h_adv_delta), ('advance_time_seconds', h_adv_seconds)):
        orig, wrapper = wrap(name, h)
        setattr(timeutils, name, wrapper)

    # utcnow: a wrapper object that forwards attribute access to the original function
    class UtcNowProxy:
        def __call__(self, with_timezone=False):
            before = override_now()
            out = orig_utcnow(with_timezone)
            if getattr(_local, 'cdepth', 0) == 0 and before not in (NONE, 'LIST'):
                log('utcnow', NONE, triple(out))
            return out

        def __getattr__(self, name):
            return getattr(orig_utcnow, name)

        def __setattr__(self, name, value):
            setattr(orig_utcnow, name, value)
    timeutils.utcnow = UtcNowProxy()

    orig_ts = timeutils.utcnow_ts

    @functools.wraps(orig_ts)
    def ts_wrapper(microsecond=False):
        before = override_now()
        depth = getattr(_local, 'cdepth', 0)
        _local.cdepth = depth + 1
        try:
            out = orig_ts(microsecond)
        finally:
            _local.cdepth = depth
        if depth == 0 and before not in (NONE, 'LIST'):
            import calendar
            from fractions import Fraction
            epoch0 = calendar.timegm(BASE.timetuple())
            if not microsecond:
                rel = out - epoch0
                res = [rel // 86400, rel % 86400, 0] if isinstance(out, int) else ['not-int']
            else:
                fr = Fraction(out) - epoch0
                secs = int(fr // 1)
                micro = int(round(float(fr - secs) * 1000000))
                if micro == 1000000:
                    secs, micro = secs + 1, 0
                res = [secs // 86400, secs % 86400, micro]
            log('utcnow_ts_micro' if microsecond else 'utcnow_ts', NONE, res)
        return out
    timeutils.utcnow_ts = ts_wrapper


# ---------------------------------------------------------------------------
# inspectors: bytes held per region after every chunk
# ---------------------------------------------------------------------------
def install_retention(fi):
    real = set(fi.ALL_FORMATS.values()) if hasattr(fi, 'ALL_FORMATS') else set()
    orig = fi.FileInspector.eat_chunk

    @functools.wraps(orig)
    def eat(self, chunk):
        try:
            return orig(self, chunk)
        finally:
            if type(self) in real and self.NAME != 'raw':
                t = self.__dict__.get('_vf_trace')
                if t is None:
                    t = {'fmt': self.NAME, 'ev': [], 'test': _current_test[0]}
                    self.__dict__['_vf_trace'] = t
                    REC['retention'].append(t)
                if len(t['ev']) < MAX_EVENTS:
                    try:
                        info = [{'r': nm, 'n': len(r.data)} for nm, r in sorted(self._capture_regions.items())]
                        t['ev'].append({'k': len(chunk), 'info': info})
                    except Exception:
                        pass
    fi.FileInspector.eat_chunk = eat


# ---------------------------------------------------------------------------
_clock_state = {}


def pytest_configure(config):
    if not OUT:
        return
    from oslo_utils import timeutils
    from oslo_utils.imageutils import format_inspector as fi
    what = os.environ.get('VF_REC_WHAT', 'stopwatch,clock,retention').split(',')
    if 'stopwatch' in what:
        install_stopwatch(timeutils)
    if 'clock' in what:
        install_clock(timeutils, _clock_state)
    if 'retention' in what:
        install_retention(fi)


def pytest_runtest_setup(item):
    _current_test[0] = item.nodeid
    REC['tests'] += 1
    if _clock_state:
        _clock_state['trace'] = None


def pytest_sessionfinish(session, exitstatus):
    if not OUT:
        return
    out = {'tests': REC['tests'], 'exitstatus': int(exitstatus)}
    sw = [t for t in REC['stopwatch'] if t['ok'] and t['ev']]
    out['stopwatch'] = [{'dur': t['dur'], 'ev': t['ev'], 'test': t['test']} for t in sw]
    out['stopwatch_unrepresentable'] = len([t for t in REC['stopwatch'] if not t['ok']])
    ck = [t for t in REC['clock'] if t['ok'] and t['ev']]
    out['clock'] = [{'ev': t['ev'], 'test': t['test']} for t in ck]
    out['clock_unrepresentable'] = len([t for t in REC['clock'] if not t['ok']])
    out['retention'] = [t for t in REC['retention'] if t['ev']]
    with open(OUT, 'w') as fh:
        json.dump(out, fh)
