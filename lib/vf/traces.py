"""Batch validation of recorded traces by a Trace_*.tla module.

Convention shared by all trace specs: Traces == JsonDeserialize(IOEnv.TRACE_FILE),
variable tid chosen in TInit, l the next line, CONSTRAINT Done prints
<<"done", tid>> when a trace is consumed to its last line, CONSTRAINT Diag
prints <<"at", tid, l>> when TRACE_DIAG is set (used to find the longest
matched prefix of a rejected trace).  TLC runs with one worker.
"""
import json
import os
import re

from . import tlc


def _run(ctx, module, traces, label, env, cfg):
    path = os.path.join(ctx.work, 'traces_%s_%s.json' % (module, label))
    with open(path, 'w') as fh:
        json.dump(traces, fh)
    e = {'TRACE_FILE': path}
    e.update(env or {})
    res = tlc.run(module, cfg=cfg, workdir=ctx.work, workers=1, env=e,
                  allow_violation=True, parse=False)
    done = set()
    for line in res.output.splitlines():
        if line.startswith('<<"done", '):
            done.add(int(line[len('<<"done", '):].rstrip('>')) - 1)
    os.unlink(path)
    culprit = None
    if res.violated:
        m = re.findall(r'^/\\ tid = (\d+)', res.output, re.M)
        if m:
            culprit = int(m[-1]) - 1
    return done, res, culprit


def validate(ctx, module, traces, label, env=None, cfg=None, max_rounds=6):
    """Returns (rejected indices (0-based), violated invariant or None, TLCResult).

    A trace is rejected when it cannot be consumed to its last line, or when an
    invariant / action property of the module fails on one of its states.  TLC
    stops at the first invariant violation, so the culprit (its tid is in the
    printed counterexample) is set aside and the remaining traces re-validated.
    """
    idx = list(range(len(traces)))
    rejected = set()
    first_inv = None
    res = None
    for _ in range(max_rounds):
        done, res, culprit = _run(ctx, module, [traces[i] for i in idx], label, env, cfg)
        if res.violated and culprit is not None:
            first_inv = first_inv or res.violated
            rejected.add(idx[culprit])
            del idx[culprit]
            if not idx:
                break
            continue
        if res.violated:
            first_inv = first_inv or res.violated
        rejected |= {idx[j] for j in range(len(idx)) if j not in done}
        break
    else:
        # too many invariant-violating traces: everything not yet cleared is suspect
        rejected |= set(idx)
    return rejected, first_inv, res


def diagnose(ctx, module, trace, env=None, cfg=None):
    """Longest matched prefix of one trace: (line number that could not be
    explained (1-based), violated invariant or None)."""
    path = os.path.join(ctx.work, 'trace_diag_%s.json' % module)
    with open(path, 'w') as fh:
        json.dump([trace], fh)
    e = {'TRACE_FILE': path, 'TRACE_DIAG': '1'}
    e.update(env or {})
    res = tlc.run(module, cfg=cfg, workdir=ctx.work, workers=1, env=e,
                  allow_violation=True, parse=False)
    at = 1
    for line in res.output.splitlines():
        if line.startswith('<<"at", 1, '):
            at = max(at, int(line[len('<<"at", 1, '):].rstrip('>')))
    os.unlink(path)
    return at, res.violated
