"""Batch validation of recorded traces by a Trace_*.tla module.

Convention shared by all trace specs: Traces == JsonDeserialize(IOEnv.TRACE_FILE),
variable tid chosen in TInit, l the next line, CONSTRAINT Done prints
<<"done", tid>> when a trace is consumed to its last line, CONSTRAINT Diag
prints <<"at", tid, l>> when TRACE_DIAG is set (used to find the longest
matched prefix of a rejected trace).  TLC runs with one worker.
"""
import json
import os

from . import tlc


def validate(ctx, module, traces, label, env=None, cfg=None):
    """Returns (rejected indices (0-based), violated invariant or None, TLCResult)."""
    path = os.path.join(ctx.work, 'traces_%s_%s.json' % (module, label))
    with open(path, 'w') as fh:
        json.dump(traces, fh)
    e = {'TRACE_FILE': path}
    e.update(env or {})
    res = tlc.run(module, cfg=cfg, workdir=ctx.work, workers=1, env=e,
                  allow_violation=True, parse=False)
    done = set()
    for line in res.output.splitlines():
        if line.startswith('<<"done", '):
            done.add(int(line[len('<<"done", '):].rstrip('>')) - 1)
    os.unlink(path)
    return set(range(len(traces))) - done, res.violated, res


def diagnose(ctx, module, trace, env=None, cfg=None):
    """Longest matched prefix of one trace: (line number that could not be
    explained (1-based), violated invariant or None)."""
    path = os.path.join(ctx.work, 'trace_diag_%s.json' % module)
    with open(path, 'w') as fh:
        json.dump([trace], fh)
    e = {'TRACE_FILE': path, 'TRACE_DIAG': '1'}
    e.update(env or {})
    res = tlc.run(module, cfg=cfg, workdir=ctx.work, workers=1, env=e,
                  allow_violation=True, parse=False)
    at = 1
    for line in res.output.splitlines():
        if line.startswith('<<"at", 1, '):
            at = max(at, int(line[len('<<"at", 1, '):].rstrip('>')))
    os.unlink(path)
    return at, res.violated
