"""Running real inspectors over a byte string under a chunking, observing
after every chunk (the harness-side projection used by C01/C02/C05/C07)."""
import itertools

from oslo_utils.imageutils import format_inspector as fi


def region_obs(insp, data):
    """name -> (offset, length, len(data), complete, faithful)"""
    out = {}
    regs = getattr(insp, '_capture_regions', None)
    if not isinstance(regs, dict):
        # the private table has moved: the public view (names through context_info, regions through region())
        regs = {name: insp.region(name) for name in insp.context_info}
    for name, r in regs.items():
        d = r.data
        faithful = (len(d) == 0) or (r.offset >= 0 and
                                     bytes(data[r.offset:r.offset + len(d)]) == bytes(d))
        out[name] = (r.offset, r.length, len(d), bool(r.complete), faithful,
                     'end' if isinstance(r, fi.EndCaptureRegion) else 'fix')
    return out


def safe(fn):
    try:
        return fn()
    except Exception as e:     # an observation, not a harness failure
        return 'EXC:' + type(e).__name__


def safety_outcome(insp):
    """The outcome of safety_check(); the check is asked twice - it is a verdict about the stream, so asking again
    must give the same answer (an inspector whose answer changes is reported as 'unstable')."""
    first = _safety_outcome_once(insp)
    second = _safety_outcome_once(insp)
    if first != second:
        return ('unstable:%s->%s' % (first[0], second[0]), sorted(set(first[1]) | set(second[1])))
    return first


def _safety_outcome_once(insp):
    try:
        r = insp.safety_check()
        if r is not None:
            return ('returned', [repr(r)])
        return ('ok', [])
    except fi.SafetyCheckFailed as e:
        return ('fail', sorted(e.failures))
    except fi.ImageFormatError:
        return ('rejected', [])
    except Exception as e:
        return ('EXC:' + type(e).__name__, [])


def verdict(insp, err):
    """(safety class, match, complete, size, failing checks); an inspector
    whose eat_chunk raised is 'rejected' as a whole."""
    if err is not None:
        return ('rejected', False, False, 0, [])
    fm = safe(lambda: bool(insp.format_match))
    co = safe(lambda: bool(insp.complete))
    vs = safe(lambda: insp.virtual_size)
    sc, fails = safety_outcome(insp)
    return (sc, fm, co, vs, fails)


def queries(insp):
    """Every public accessor; must not change anything."""
    safe(lambda: insp.format_match)
    safe(lambda: insp.complete)
    safe(lambda: insp.virtual_size)
    safe(lambda: insp.actual_size)
    safe(lambda: insp.context_info)
    safe(lambda: str(insp))
    safety_outcome(insp)


def run(factory, data, chunks, query_at=(), observe=None, step_limit=None, as_view=False, keep_feeding=False):
    """Feed data cut as `chunks` (list of lengths, may contain 0).

    Returns dict(err=type name or None, err_at=index, verdict=..., steps=[...],
    unfaithful=[(step, name, obs)], retained_max=int, insp=object)
    """
    insp = factory()
    pos = 0
    err = None
    err_at = None
    steps = []
    unfaithful = []
    retained_max = 0
    buf = bytearray(max(list(chunks) + [1])) if as_view else None
    for i, k in enumerate(chunks):
        if as_view:
            # the way a readinto() loop hands chunks over: views of ONE buffer that is overwritten by the next read
            buf[:k] = data[pos:pos + k]
            for j in range(k, len(buf)):
                buf[j] = 0xA5
            chunk = memoryview(buf)[:k]
        else:
            chunk = bytes(data[pos:pos + k])
        try:
            insp.eat_chunk(chunk)
        except Exception as e:
            if err is None:
                err = e
                err_at = i
        pos += k
        obs = region_obs(insp, data)
        if err is None:
            for name, o in obs.items():
                if not o[4]:
                    unfaithful.append((i, name, o))
        try:
            retained = sum(insp.context_info.values())
        except Exception:
            retained = -1
        retained_max = max(retained_max, retained)
        if observe is not None:
            observe(i, k, pos, insp, obs, err)
        steps.append((k, pos, obs, err is not None, retained))
        if i in query_at:
            queries(insp)
        if err is not None and not keep_feeding:
            break
    try:
        insp.finish()
    except Exception as e:
        if err is None:
            err = e
            err_at = 'finish'
    final = region_obs(insp, data)
    if err is None:
        for name, o in final.items():
            if not o[4]:
                unfaithful.append(('finish', name, o))
    v = verdict(insp, err)
    return {'err': type(err).__name__ if err is not None else None,
            'err_msg': str(err)[:120] if err is not None else None,
            'err_at': err_at, 'verdict': v, 'steps': steps, 'final': final,
            'unfaithful': unfaithful, 'retained_max': retained_max,
            'insp': insp}


def compositions(n):
    """All compositions of n into positive parts (2^(n-1) of them)."""
    if n == 0:
        yield []
        return
    for mask in range(1 << (n - 1)):
        parts = []
        cur = 1
        for i in range(n - 1):
            if mask >> i & 1:
                parts.append(cur)
                cur = 1
            else:
                cur += 1
        parts.append(cur)
        yield parts


def with_empties(parts, positions):
    out = []
    for i, p in enumerate(parts):
        if i in positions:
            out.append(0)
        out.append(p)
    if len(parts) in positions:
        out.append(0)
    return out
