"""Scaled format programs carried by subclasses of the REAL FileInspector.

These mirror, line for line, the "chain" and "fixed" programs of
spec/CaptureEngine.tla (ChainPost, OnComplete, Match, Size, Failures); all the
engine code they run -- CaptureRegion.capture, EndCaptureRegion, _capture,
eat_chunk (position accounting, post_process, re-presentation of the current
chunk, region_complete callbacks), finish, complete, safety_check -- is the
repository's.
"""
from oslo_utils.imageutils import format_inspector as fi

HDR_END = 3
META_LEN = 4


class ChainInspector(fi.FileInspector):
    NAME = 'chain'

    def _initialize(self):
        self.new_region('ident', fi.CaptureRegion(0, 1))
        self.new_region('header', fi.CaptureRegion(1, 2))
        self.add_safety_check(fi.SafetyCheck.null())

    def post_process(self):
        # same if/elif shape as VHDXInspector.post_process
        if self.region('header').complete and not self.has_region('meta'):
            region = self._find_meta_region()
            if region:
                self.new_region('meta', region)
        elif self.has_region('meta') and not self.has_region('vds'):
            region = self._find_meta_entry()
            if region:
                self.new_region('vds', region)

    def _find_meta_region(self):
        h = self.region('header').data
        if h[0] != 1:
            raise fi.ImageFormatError('scaled: region signature')
        p = h[1]
        if p < HDR_END:
            raise fi.ImageFormatError('scaled: backward metadata pointer')
        return fi.CaptureRegion(p, META_LEN)

    def _find_meta_entry(self):
        m = self.region('meta').data
        if len(m) < 2:
            return None
        if m[0] != 1:
            raise fi.ImageFormatError('scaled: metadata signature')
        cnt = m[1]
        es = 2 + cnt
        if len(m) < es:
            return None
        for i in range(cnt):
            e = m[2 + i]
            if e != 0:
                if e < es:
                    raise fi.ImageFormatError('scaled: backward item pointer')
                self.region('meta').length = len(m)
                return fi.CaptureRegion(self.region('meta').offset + e, 1)
        return None

    @property
    def format_match(self):
        return self.region('ident').data.startswith(b'\x01')

    @property
    def virtual_size(self):
        if not self.has_region('vds') or not self.region('vds').complete:
            return 0
        return self.region('vds').data[0]


class FixedInspector(fi.FileInspector):
    NAME = 'fixed'

    def _initialize(self):
        self.info = {}
        self.new_region('header', fi.CaptureRegion(0, 2))
        self.new_region('opt', fi.CaptureRegion(2, 2, min_length=1))
        self.new_region('tail', fi.EndCaptureRegion(2))
        self.add_safety_check(fi.SafetyCheck('opt', self.check_opt))
        self.add_safety_check(fi.SafetyCheck('tail', self.check_tail))

    def region_complete(self, region_name):
        if region_name == 'header':
            d = self.region('header').data
            self.info = {'magic': d[0], 'size': d[1]}

    @property
    def format_match(self):
        if not self.region('header').complete:
            return False
        return self.info.get('magic') == 1

    @property
    def virtual_size(self):
        if not self.format_match:
            return 0
        return self.info.get('size', 0)

    def check_opt(self):
        d = self.region('opt').data
        if len(d) >= 1 and d[0] == 3:
            raise fi.SafetyViolation('opt')

    def check_tail(self):
        d = self.region('tail').data
        if len(d) >= 1 and d[-1] == 3:
            raise fi.SafetyViolation('tail')


class RelocInspector(fi.FileInspector):
    """VMDK-like: provisional descriptor at the start, relocated by the header;
    late end region; descriptor parsed in region_complete."""
    NAME = 'reloc'
    DESC_OFF = 3
    DESC_MAX = 2

    def _initialize(self):
        self.dtype = 0
        self.new_region('header', fi.CaptureRegion(0, 3, min_length=2))
        self.new_region('desc', fi.CaptureRegion(0, 3, min_length=1))
        self.add_safety_check(fi.SafetyCheck('descriptor', self.check_descriptor))

    def post_process(self):
        # same shape as VMDKInspector.post_process
        if not self.has_region('header') or not self.region('header').complete:
            return
        h = self.region('header').data
        v, num = h[0], h[1]
        if v not in (1, 2):
            raise fi.ImageFormatError('scaled: signature not found')
        if v == 2 and not self.has_region('footer'):
            self.new_region('footer', fi.EndCaptureRegion(2))
            self.add_safety_check(fi.SafetyCheck('footer', self.check_footer))
        if self.region('desc').offset == 0:
            self.delete_region('desc')
            self.new_region('desc', fi.CaptureRegion(self.DESC_OFF, min(num, self.DESC_MAX)))

    def region_complete(self, region_name):
        if region_name == 'desc':
            r = self.region('desc')
            if r.offset == 0:
                self.dtype = 9
            elif len(r.data) == 0:
                self.dtype = 0
            else:
                self.dtype = r.data[0]

    @property
    def format_match(self):
        if self.has_region('header'):
            d = self.region('header').data
            return len(d) >= 1 and d[0] in (1, 2)
        return False

    @property
    def virtual_size(self):
        if self.dtype != 1:
            return 0
        return self.region('header').data[1]

    def check_descriptor(self):
        if self.dtype != 1:
            raise fi.SafetyViolation('descriptor')

    def check_footer(self):
        f = self.region('footer').data
        if len(f) >= 1 and f[0] != self.region('header').data[0]:
            raise fi.SafetyViolation('footer')


PROGRAMS = {'chain': ChainInspector, 'fixed': FixedInspector, 'reloc': RelocInspector}
