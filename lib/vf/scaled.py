"""Scaled format programs carried by subclasses of the REAL FileInspector.

These mirror, line for line, the "chain" and "fixed" programs of
spec/CaptureEngine.tla (ChainPost, OnComplete, Match, Size, Failures); all the
engine code they run -- CaptureRegion.capture, EndCaptureRegion, _capture,
eat_chunk (position accounting, post_process, re-presentation of the current
chunk, region_complete callbacks), finish, complete, safety_check -- is the
repository's.
"""
from oslo_utils.imageutils import format_inspector as fi

HDR_END = 3
META_LEN = 4


class ChainInspector(fi.FileInspector):
    NAME = 'chain'

    def _initialize(self):
        self.new_region('ident', fi.CaptureRegion(0, 1))
        self.new_region('header', fi.CaptureRegion(1, 2))
        self.add_safety_check(fi.SafetyCheck.null())

    def post_process(self):
        # same if/elif shape as VHDXInspector.post_process
        if self.region('header').complete and not self.has_region('meta'):
            region = self._find_meta_region()
            if region:
                self.new_region('meta', region)
        elif self.has_region('meta') and not self.has_region('vds'):
            region = self._find_meta_entry()
            if region:
                self.new_region('vds', region)

    def _find_meta_region(self):
        h = self.region('header').data
        if h[0] != 1:
            raise fi.ImageFormatError('scaled: region signature')
        p = h[1]
        if p < HDR_END:
            raise fi.ImageFormatError('scaled: backward metadata pointer')
        return fi.CaptureRegion(p, META_LEN)

    def _find_meta_entry(self):
        m = self.region('meta').data
        if len(m) < 2:
            return None
        if m[0] != 1:
            raise fi.ImageFormatError('scaled: metadata signature')
        cnt = m[1]
        es = 2 + cnt
        if len(m) < es:
            return None
        for i in range(cnt):
            e = m[2 + i]
            if e != 0:
                if e < es:
                    raise fi.ImageFormatError('scaled: backward item pointer')
                self.region('meta').length = len(m)
                return fi.CaptureRegion(self.region('meta').offset + e, 1)
        return None

    @property
    def format_match(self):
        return self.region('ident').data.startswith(b'\x01')

    @property
    def virtual_size(self):
        if not self.has_region('vds') or not self.region('vds').complete:
            return 0
        return self.region('vds').data[0]


class FixedInspector(fi.FileInspector):
    NAME = 'fixed'

    def _initialize(self):
        self.info = {}
        self.new_region('header', fi.CaptureRegion(0, 2))
        self.new_region('opt', fi.CaptureRegion(2, 2, min_length=1))
        self.new_region('tail', fi.EndCaptureRegion(2))
        self.add_safety_check(fi.SafetyCheck('opt', self.check_opt))
        self.add_safety_check(fi.SafetyCheck('tail', self.check_tail))

    def region_complete(self, region_name):
        if region_name == 'header':
            d = self.region('header').data
            self.info = {'magic': d[0], 'size': d[1]}

    @property
    def format_match(self):
        if not self.region('header').complete:
            return False
        return self.info.get('magic') == 1

    @property
    def virtual_size(self):
        if not self.format_match:
            return 0
        return self.info.get('size', 0)

    def check_opt(self):
        d = self.region('opt').data
        if len(d) >= 1 and d[0] == 3:
            raise fi.SafetyViolation('opt')

    def check_tail(self):
        d = self.region('tail').data
        if len(d) >= 1 and d[-1] == 3:
            raise fi.SafetyViolation('tail')


PROGRAMS = {'chain': ChainInspector, 'fixed': FixedInspector}
