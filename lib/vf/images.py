"""Harness-side image builders (gamma for the image layouts of ImageRef.tla).

Every builder produces the bytes of one image from an abstract layout (a dict
as exported by TLC) plus a random generator for the fields the layout leaves
open ("irrelevant fields are randomised per seed").  Builders know nothing
about the code under test: they follow the on-disk format descriptions quoted
in format_inspector.py's comments / the public specifications.

Each returns (data: bytes, boundaries: sorted list of structure boundaries
used to derive the cut points of the chunkings).
"""
import struct
import uuid

TOK = {
    '0': 0, '1': 1, '2': 2, '511': 511, '512': 512, '513': 513,
    '2^16': 1 << 16, '2^31-1': (1 << 31) - 1, '2^31': 1 << 31,
    '2^32-1': (1 << 32) - 1, '2^32': 1 << 32, '2^32+1': (1 << 32) + 1,
    '2^40': 1 << 40, '2^63-1': (1 << 63) - 1, '2^63': 1 << 63,
    '2^64-1': (1 << 64) - 1, '10G': 10 << 30, '2^16-1': (1 << 16) - 1,
    '2^55-1': (1 << 55) - 1, '2^55': 1 << 55, '2048': 2048, '2^20': 1 << 20,
    '2^64-2': (1 << 64) - 2,
}


def tok(t):
    if isinstance(t, int):
        return t
    if t.isdigit():
        return int(t)
    return TOK[t]


def rnd_bytes(rnd, n):
    return bytes(rnd.getrandbits(8) for _ in range(n)) if n < 4096 else rnd.randbytes(n)


def pad_to(buf, n, rnd=None, fill=0):
    if len(buf) >= n:
        return buf
    if rnd is not None and fill is None:
        return buf + rnd_bytes(rnd, n - len(buf))
    return buf + bytes([fill]) * (n - len(buf))


# -- qcow2 --------------------------------------------------------------------
def qcow2(L, rnd):
    magic = b'QFI\xfb' if L.get('magic', True) else b'QFI\xfa'
    ver = tok(L.get('version', 3))
    bf = tok(L.get('bf', '0'))
    size = tok(L.get('size', '10G'))
    feat = 0
    for b in L.get('feat', []):
        feat |= 1 << b
    hdr = bytearray(rnd_bytes(rnd, 512) if L.get('noise', True) else bytes(512))
    hdr[0:4] = magic
    hdr[4:8] = struct.pack('>I', ver & 0xffffffff)
    hdr[8:16] = struct.pack('>Q', bf)
    hdr[24:32] = struct.pack('>Q', size)
    hdr[72:80] = struct.pack('>Q', feat)
    total = L.get('total', 1024)
    data = pad_to(bytes(hdr), total, rnd, None)[:total]
    return data, [4, 8, 16, 32, 72, 80, 104, 512]


# -- qed ----------------------------------------------------------------------
def qed(L, rnd):
    hdr = bytearray(rnd_bytes(rnd, 512))
    hdr[0:4] = b'QED\x00' if L.get('magic', True) else b'QEE\x00'
    total = L.get('total', 1024)
    return pad_to(bytes(hdr), total, rnd, None)[:total], [4, 512]


# -- vhd ----------------------------------------------------------------------
def vhd(L, rnd):
    hdr = bytearray(rnd_bytes(rnd, 512))
    hdr[0:8] = b'conectix' if L.get('magic', True) else b'conectiy'
    hdr[40:48] = struct.pack('>Q', tok(L.get('size', '10G')))
    total = L.get('total', 1024)
    return pad_to(bytes(hdr), total, rnd, None)[:total], [8, 40, 48, 512]


# -- vdi ----------------------------------------------------------------------
def vdi(L, rnd):
    hdr = bytearray(rnd_bytes(rnd, 512))
    hdr[0x40:0x44] = struct.pack('<I', 0xbeda107f if L.get('magic', True) else 0xbeda107e)
    hdr[0x170:0x178] = struct.pack('<Q', tok(L.get('size', '10G')))
    total = L.get('total', 1024)
    return pad_to(bytes(hdr), total, rnd, None)[:total], [0x40, 0x44, 0x170, 0x178, 512]


# -- iso ----------------------------------------------------------------------
def iso(L, rnd):
    sysarea = bytearray(32768) if L.get('zero_sysarea', True) else bytearray(rnd_bytes(rnd, 32768))
    hdr = bytearray(rnd_bytes(rnd, 2048))
    hdr[0] = L.get('dtype', 1)
    sig = {'CD001': b'CD001', 'NSR02': b'NSR02', 'NSR03': b'NSR03', 'bad': b'CD002'}[L.get('sig', 'CD001')]
    hdr[1:6] = sig
    blocks = tok(L.get('blocks', '2048'))
    bs = tok(L.get('bs', '2048'))
    hdr[80:84] = struct.pack('<L', blocks)
    hdr[84:88] = struct.pack('>L', blocks)
    hdr[128:130] = struct.pack('<H', bs)
    hdr[130:132] = struct.pack('>H', bs)
    total = L.get('total', 32768 + 2048 + 512)
    data = pad_to(bytes(sysarea) + bytes(hdr), total, rnd, None)[:total]
    return data, [32768, 32769, 32774, 32768 + 80, 32768 + 132, 32768 + 2048]


# -- gpt / mbr ------------------------------------------------------------------
def mbr_entry(e, rnd):
    """e: dict(boot, type, chs_ok, lba_ok)"""
    boot = {'00': 0x00, '80': 0x80, 'bad': 0x01, 'bad7f': 0x7f}[e.get('boot', '00')]
    typ = {'00': 0x00, 'EE': 0xEE, 'other': 0x83, 'other2': 0x0c}[e.get('type', '00')]
    if typ == 0xEE:
        chs = (0x00, 0x02, 0x00) if e.get('chs_ok', True) else (0x00, 0x01, 0x00)
        lba = 1 if e.get('lba_ok', True) else 2
    else:
        chs = (rnd.getrandbits(8), rnd.getrandbits(8), rnd.getrandbits(8))
        lba = rnd.getrandbits(32)
    end = (rnd.getrandbits(8), rnd.getrandbits(8), rnd.getrandbits(8))
    return struct.pack('<B3BB3BII', boot, chs[0], chs[1], chs[2], typ,
                       end[0], end[1], end[2], lba, rnd.getrandbits(32))


def gpt(L, rnd):
    sec = bytearray(rnd_bytes(rnd, 512))
    # keep the boot code from looking like a FAT VBR unless asked
    if L.get('fat', False):
        sec[0x10] = 2
        sec[0x15] = 0xF8
    else:
        sec[0x10] = L.get('num_fats', 0)
        sec[0x15] = 0xF0
    ents = L.get('entries', [{'boot': '00', 'type': 'EE'}, {}, {}, {}])
    for i in range(4):
        sec[446 + 16 * i:446 + 16 * (i + 1)] = mbr_entry(ents[i] if i < len(ents) else {}, rnd)
    sec[510:512] = struct.pack('<H', 0xAA55 if L.get('sig', True) else 0xAA54)
    total = L.get('total', 2048)
    return pad_to(bytes(sec), total, rnd, None)[:total], [0x10, 0x15, 446, 462, 478, 494, 510, 512]


# -- luks ---------------------------------------------------------------------
def luks(L, rnd):
    hdr = bytearray(rnd_bytes(rnd, 592))
    hdr[0:6] = b'LUKS\xba\xbe' if L.get('magic', True) else b'LUKS\xba\xbf'
    hdr[6:8] = struct.pack('>h', L.get('version', 1))
    hdr[8:40] = pad_to(b'aes', 32)
    hdr[40:72] = pad_to(b'xts-plain64', 32)
    hdr[72:104] = pad_to(b'sha256', 32)
    hdr[104:108] = struct.pack('>I', tok(L.get('payload', 4)))
    total = L.get('total', 4096)
    return pad_to(bytes(hdr), total, rnd, None)[:total], [6, 8, 104, 108, 592]


# -- raw ----------------------------------------------------------------------
def raw(L, rnd):
    total = L.get('total', 1024)
    kind = L.get('kind', 'random')
    if kind == 'zero':
        return bytes(total), []
    if kind == 'text':
        return (b'The quick brown fox jumps over the lazy dog.\n' * (total // 45 + 1))[:total], []
    data = bytearray(rnd_bytes(rnd, total))
    # make sure no signature appears by accident
    for off, l in ((0, 8), (0x40, 4), (510, 2)):
        if total >= off + l:
            data[off:off + l] = b'\x01' * l
    return bytes(data), []


# -- vhdx ---------------------------------------------------------------------
def guid_bytes(s):
    return uuid.UUID(s).bytes_le


METAREGION = '8B7CA206-4790-4B9A-B8FE-575F050F886E'
BAT_REGION = '2DC27766-F623-4200-9D64-115E9BFD4A08'
VIRTUAL_DISK_SIZE = '2FA54224-CD1B-4876-B211-5DBED83BF4B8'
FILE_PARAMS = 'CAA16737-FA36-4D43-B3B6-33F0AA44E76B'
HDR_OFF = 192 * 1024
HDR_END = 256 * 1024


def vhdx(L, rnd):
    """Layout keys: ident(bool) regi(bool) rcount(int or None=auto) rpad(int pad entries
    before the metadata entry) rmeta(bool: metadata entry present) meta_off(int)
    msig(bool) mcount(int or None) mpad(int) mvds(bool) item_off(int) item_len(int)
    size(tok) total(int)"""
    meta_off = L.get('meta_off', 320 * 1024)
    item_off = L.get('item_off', 64 * 1024)
    total = L.get('total')
    buf = bytearray(HDR_OFF)
    buf[0:8] = b'vhdxfile' if L.get('ident', True) else b'vhdxfilf'
    buf[8:32] = rnd_bytes(rnd, 24)
    # region table
    ents = []
    for _ in range(L.get('rpad', 0)):
        ents.append(guid_bytes(BAT_REGION) + struct.pack('<QII', 3 << 20, 1 << 20, 1))
    if L.get('rmeta', True):
        ents.append(guid_bytes(METAREGION) + struct.pack('<QII', meta_off, tok(L.get('meta_len', '1048576')) & 0xffffffff, 1))
    for _ in range(L.get('rpost', 0)):
        ents.append(guid_bytes(BAT_REGION) + struct.pack('<QII', 3 << 20, tok(L.get('rpost_len', '1048576')) & 0xffffffff, 1))
    rcount = L.get('rcount')
    if rcount is None:
        rcount = len(ents)
    rt = struct.pack('<IIII', 0x69676572 if L.get('regi', True) else 0x69676573,
                     rnd.getrandbits(32), rcount, 0) + b''.join(ents)
    rt = pad_to(rt, 64 * 1024)[:64 * 1024]
    buf += rt
    # metadata table
    ments = []
    for _ in range(L.get('mpad', 0)):
        ments.append(guid_bytes(FILE_PARAMS) + struct.pack('<III', 65536 + 8, 8, 0) + b'\0' * 4)
    if L.get('mvds', True):
        ments.append(guid_bytes(VIRTUAL_DISK_SIZE) +
                     struct.pack('<III', item_off & 0xffffffff, L.get('item_len', 8) & 0xffffffff,
                                 tok(L.get('item_flags', '0')) & 0xffffffff) + b'\0' * 4)
    for _ in range(L.get('mpost', 0)):
        ments.append(guid_bytes(FILE_PARAMS) + struct.pack('<III', 65536 + 8, 8, 0) + b'\0' * 4)
    mcount = L.get('mcount')
    if mcount is None:
        mcount = len(ments)
    mt = (b'metadata' if L.get('msig', True) else b'metadatb') + struct.pack('<HH', 0, mcount & 0xffff) + \
        b'\0' * 20 + b''.join(ments)
    size = struct.pack('<Q', tok(L.get('size', '10G')))
    place = {}
    # a pointer back into the region-table window is refused by the inspector; the table is written there all the same
    # (behind the region entries), so that nothing but the pointer check stands between the stream and a verdict
    if meta_off >= HDR_END or meta_off >= HDR_OFF + 16 + 32 * len(ents):
        place[meta_off] = mt
        io = meta_off + item_off
        if io >= meta_off + len(mt):
            place[io] = size
    end = max([HDR_END] + [o + len(b) for o, b in place.items()])
    want = total if total is not None else end + 4096
    out = bytearray(pad_to(bytes(buf), max(want, len(buf))))
    if len(out) < end:
        out = bytearray(pad_to(bytes(out), end))
    for o, b in sorted(place.items()):
        out[o:o + len(b)] = b
    out = bytes(out[:want]) if total is not None else bytes(out)
    bounds = [8, 32, HDR_OFF, HDR_OFF + 16, HDR_OFF + 16 + 32 * len(ents), HDR_END,
              meta_off, meta_off + 32, meta_off + 32 + 32 * len(ments), meta_off + 65536,
              meta_off + item_off, meta_off + item_off + 8]
    return out, sorted(b for b in set(bounds) if 0 < b < len(out))


# -- vmdk ---------------------------------------------------------------------
LINE = {
    'comment': b'# Disk DescriptorFile',
    'blank': b'',
    'version': b'version=1',
    'cid': b'CID=fffffffe',
    'parent': b'parentCID=ffffffff',
    'ddb': b'ddb.virtualHWVersion = "4"',
    'ddb2': b'ddb.geometry.cylinders = "20"',
    'extent_rw': b'RW 2048 SPARSE "disk.vmdk"',
    'extent_rdonly': b'RDONLY 2048 SPARSE "disk.vmdk"',
    'extent_noaccess': b'NOACCESS 2048 ZERO',
    'extent_path': b'RW 2048 FLAT "/etc/passwd" 0',
    'extent_relpath': b'RW 2048 FLAT "../../etc/passwd" 0',
    'junk': b'this line is not understood',
    'junk_rwx': b'RWX 2048 SPARSE "disk.vmdk"',
    'junk_eq_space': b'some thing=value',
    'ct_mono': b'createType="monolithicSparse"',
    'ct_stream': b'createType="streamOptimized"',
    'ct_upper': b'CREATETYPE="MONOLITHICSPARSE"',
    'ct_flat': b'createType="monolithicFlat"',
    'ct_vmfs': b'createType="vmfs"',
    'ct_long': b'createType="' + b'a' * 80 + b'"',
    'ct_unterminated': b'createType="monolithicSparse',
    'nonascii': b'caf\xc3\xa9=1',
    'nonascii_start': b'\xff',
}
GD_AT_END = 0xffffffffffffffff


def vmdk_sparse_header(sig=b'KDMV', ver=1, flags=3, sectors=2048, grain=128, desc_sec=1,
                       desc_num=20, gtes=512, rgd=0, gd=0, rnd=None):
    h = struct.pack('<4sIIQQQQIQQ', sig, ver, flags, sectors, grain, desc_sec, desc_num,
                    gtes, rgd, gd)
    rest = 512 - len(h)
    return h + (rnd_bytes(rnd, rest) if rnd is not None else b'\0' * rest)


def vmdk_descriptor(lines):
    return b'\n'.join(LINE[x] if isinstance(x, str) else x for x in lines) + b'\n'


def vmdk(L, rnd):
    """Layout keys: sig(bool) ver(int) desc_sec(tok) desc_num(tok or int) sectors(tok)
    lines(list of line classes) footer(None or dict of perturbations) total(int)
    desc_pad('nul'|'none')"""
    lines = L.get('lines', ['comment', 'version', 'cid', 'parent', 'ct_mono', 'blank',
                            'extent_rw', 'blank', 'ddb'])
    desc = vmdk_descriptor(lines)
    desc_num = tok(L.get('desc_num', 20))
    if L.get('fill') == 'exact' and any(str(x).startswith('ct_') for x in lines) and 0 < desc_num * 512 < (1 << 20):
        # the text fills the announced sectors to the last byte - no NUL to look for - and ends, without a newline,
        # in the createType line: every byte of the region is significant
        ct = [x for x in lines if str(x).startswith('ct_')][0]
        head = vmdk_descriptor([x for x in lines if x is not ct])
        last = LINE[ct]
        room = desc_num * 512 - len(head) - len(last)
        if room >= 3:
            desc = head + b'# ' + b'x' * (room - 3) + b'\n' + last
    desc_sec = tok(L.get('desc_sec', 1))
    sectors = tok(L.get('sectors', '2048'))
    footer = L.get('footer')
    gd = GD_AT_END if footer is not None else tok(L.get('gd', 21)) & 0xffffffffffffffff
    ver = L.get('ver', 1)
    sig = b'KDMV' if L.get('sig', True) else b'KDMW'
    kw = dict(sig=sig, ver=ver, sectors=sectors, desc_sec=desc_sec, desc_num=desc_num, gd=gd)
    hdr = vmdk_sparse_header(rnd=rnd if L.get('noise', True) else None, **kw)
    body = hdr + desc
    desc_cap = min(desc_num * 512, (1 << 20) - 1)
    if L.get('desc_pad', 'nul') == 'nul':
        body = pad_to(body, 512 + max(desc_cap, len(desc)) if desc_cap < (1 << 20) - 1 else 512 + len(desc) + 512)
    total = L.get('total')
    bounds = [4, 8, 12, 20, 28, 36, 44, 64, 65, 512, 512 + len(desc), 512 + desc_cap]
    if footer is not None:
        fkw = dict(kw)
        fkw['gd'] = footer.get('gd', 4096)
        if footer.get('gd_at_end'):
            fkw['gd'] = GD_AT_END
        if 'sig' in footer:
            fkw['sig'] = footer['sig']
        if 'ver' in footer:
            fkw['ver'] = footer['ver']
        if 'desc_sec' in footer:
            fkw['desc_sec'] = footer['desc_sec']
        if 'desc_num' in footer:
            fkw['desc_num'] = footer['desc_num']
        fhdr = vmdk_sparse_header(rnd=None, **fkw)
        m_val, m_size, m_type = footer.get('m_val', 1), footer.get('m_size', 0), footer.get('m_type', 3)
        m_pad = b'\0' * 496 if footer.get('m_pad', True) else b'\0' * 495 + b'\1'
        marker = struct.pack('<QII', m_val, m_size, m_type) + m_pad
        e_val, e_size, e_type = footer.get('e_val', 0), footer.get('e_size', 0), footer.get('e_type', 0)
        e_pad = b'\0' * 496 if footer.get('e_pad', True) else b'\1' + b'\0' * 495
        eos = struct.pack('<QII', e_val, e_size, e_type) + e_pad
        data_len = (total - 1536) if total is not None else len(body) + 2048
        data_len = max(data_len, 0)
        body = pad_to(body, data_len, rnd, None)[:data_len] if data_len >= len(body) else body[:data_len]
        body += marker + fhdr + eos
        bounds += [len(body) - 1536, len(body) - 1024, len(body) - 512]
        out = body
    else:
        want = total if total is not None else len(body) + 2048
        out = pad_to(body, want, rnd, None)[:want]
    if L.get('fill') == 'text' and len(out) > 512:
        # no NUL anywhere after the sparse header (up to the footer structures): padding and data area are text
        end = len(out) - 1536 if footer is not None else len(out)
        out = out[:512] + out[512:end].replace(b'\0', b'x') + out[end:]
    return out, sorted(b for b in set(bounds) if 0 < b < len(out))


def vmdk_text(L, rnd):
    """Text-only descriptor file (no sparse header)."""
    lines = L.get('lines', ['comment', 'version', 'cid', 'parent', 'ct_mono', 'blank',
                            'extent_rw', 'blank', 'ddb'])
    desc = vmdk_descriptor(lines)
    total = L.get('total')
    if total is not None and total > len(desc):
        desc = desc + b'#' + b'x' * (total - len(desc) - 2) + b'\n'
    return desc, [4, 64, 512]


BUILDERS = {'qcow2': qcow2, 'qed': qed, 'vhd': vhd, 'vdi': vdi, 'iso': iso, 'gpt': gpt,
            'luks': luks, 'raw': raw, 'vhdx': vhdx, 'vmdk': vmdk, 'vmdk_text': vmdk_text}


def build(fmt, layout, rnd):
    return BUILDERS[fmt](layout, rnd)
