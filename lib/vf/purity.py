"""Order independence of helpers whose result is a function of their arguments.

A check wraps the helpers it exercises with `Recorder` for the duration of its replay stages; every call the
harness makes (arguments, outcome) is remembered (sampled when there are very many).  `replay` then makes the
same calls once more in the REVERSE order and compares each outcome with the one seen the first time.  The
specification gives one answer per argument tuple, so two different answers to one question mean that (at least)
one of them contradicts it: state has leaked from one call into another (a cache keyed on too little, a shared
default, an exhausted iterator, an encoder that was never reset).
"""
import copy
import functools


def _freeze(v):
    if isinstance(v, (list, dict, set, bytearray)):
        try:
            return copy.deepcopy(v)
        except Exception:
            return v
    return v


def _snap(x):
    """a private copy of mutable containers; everything else (strings, numbers, sentinels, objects whose identity is
    part of the question) is kept as it is"""
    if isinstance(x, (list, dict, set, bytearray)):
        return copy.deepcopy(x)
    if isinstance(x, tuple):
        return tuple(_snap(e) for e in x)
    return x


def _outcome(fn, a, kw):
    try:
        r = fn(*a, **kw)
    except BaseException as e:           # noqa: the kind of failure is the observation
        return ('raises', type(e).__name__, None)
    return ('returns', type(r).__name__, _freeze(r), _repr(r))


def _repr(r):
    try:
        return repr(r)[:2000]
    except Exception:
        return None


def _same(x, y):
    if x[0] != y[0] or x[1] != y[1]:
        return False
    try:
        if x[2] == y[2]:
            return True
    except Exception:
        pass
    # what the answers looked like when they were given (the harness may have edited a mutable answer since: the
    # "caller owns what it gets" steps do exactly that)
    if len(x) > 3 and len(y) > 3 and x[3] is not None:
        return x[3] == y[3]
    return repr(x[2]) == repr(y[2])


def _library_root():
    import os
    import sys
    m = sys.modules.get('oslo_utils')
    return os.path.dirname(os.path.abspath(m.__file__)) if m is not None else '\0'


def _yield_on_line(frame, event, arg):
    if event == 'line':
        import time
        time.sleep(0)       # gives the interpreter lock away: another thread runs before the next line of this one
    return _yield_on_line


def _yield_in_library(frame, event, arg):
    if frame.f_code.co_filename.startswith(_ROOT[0] or _ROOT.__setitem__(0, _library_root()) or _ROOT[0]):
        return _yield_on_line
    return None


_ROOT = [None]


class Recorder:
    def __init__(self, module, names, limit=40000, every=1, again_every=5):
        self.module, self.names = module, [n for n in names if hasattr(module, n)]
        self.limit, self.every = limit, max(1, every)
        self.again_every = again_every
        self.paused = False     # set while the harness itself changes the environment the helpers read (e.g. sys.stdin)
        self.twice = []         # (name, args, kwargs, first, second): asked twice in a row, answers differ
        self.asked_twice = 0
        self.calls = []
        self.seen = 0
        self.saved = {}

    def __enter__(self):
        for name in self.names:
            orig = getattr(self.module, name)
            self.saved[name] = orig

            def make(name, orig):
                @functools.wraps(orig)
                def wrapper(*a, **kw):
                    if self.paused:
                        return orig(*a, **kw)
                    self.seen += 1
                    keep = len(self.calls) < self.limit and self.seen % self.every == 0
                    if keep:
                        try:
                            a0, kw0 = _snap(a), {k: _snap(v) for k, v in kw.items()}
                        except Exception:
                            keep = False
                    try:
                        r = orig(*a, **kw)
                    except BaseException as e:      # noqa
                        if keep:
                            self.calls.append((name, orig, a0, kw0, ('raises', type(e).__name__, None)))
                        raise
                    if keep:
                        first = ('returns', type(r).__name__, _freeze(r), _repr(r))
                        self.calls.append((name, orig, a0, kw0, first))
                        if self.again_every and len(self.calls) % self.again_every == 0:
                            # the very same question once more, immediately (a "last call" memo would answer it)
                            self.asked_twice += 1
                            second = _outcome(orig, _snap(a0), {k: _snap(v) for k, v in kw0.items()})
                            if not _same(first, second) and len(self.twice) < 20:
                                self.twice.append((name, a0, kw0, first, second))
                    return r
                return wrapper
            setattr(self.module, name, make(name, orig))
        return self

    def __exit__(self, *exc):
        for name, orig in self.saved.items():
            setattr(self.module, name, orig)
        return False

    def replay(self, ctx, label):
        """the recorded calls once more, last first"""
        n = 0
        bad = 0
        for name, a, kw, first, second in self.twice:
            bad += 1
            ctx.violation({'kind': 'answer-changes-when-asked-twice-in-a-row', 'fn': name, 'first': first[:2], 'second': second[:2]},
                          {'function': name, 'args': repr(a)[:600], 'kwargs': repr(kw)[:300],
                           'first_answer': repr(first[:3])[:600], 'second_answer': repr(second[:3])[:600]},
                          '%s%s answered %s and, asked again at once, %s' % (name, repr(a)[:200], repr(first[:3])[:160], repr(second[:3])[:160]))
        for name, fn, a, kw, first in reversed(self.calls):
            try:
                a1, kw1 = _snap(a), {k: _snap(v) for k, v in kw.items()}
            except Exception:
                continue
            second = _outcome(fn, a1, kw1)
            n += 1
            if not _same(first, second):
                bad += 1
                ctx.violation({'kind': 'answer-depends-on-earlier-calls', 'fn': name, 'first': first[:2], 'second': second[:2]},
                              {'function': name, 'args': repr(a)[:600], 'kwargs': repr(kw)[:300],
                               'first_answer': repr(first[:3])[:600], 'answer_when_asked_again_in_reverse_order': repr(second[:3])[:600]},
                              '%s%s answered %s the first time and %s when the same questions were asked again in reverse order' % (
                                  name, repr(a)[:200], repr(first[:3])[:160], repr(second[:3])[:160]))
        # ... and once more from four threads at once, one helper at a time (all four inside the SAME helper with
        # different arguments): an answer does not depend on who else is asking
        import sys
        import threading
        byname = {}
        for c in self.calls:
            byname.setdefault(c[0], []).append(c)
        conc = []
        asked = 0
        old_si = sys.getswitchinterval()
        lock = threading.Lock()
        try:
            sys.setswitchinterval(1e-6)
            for name in sorted(byname):
                allc = byname[name]
                sample = allc[::max(1, len(allc) // 600)][:600]
                if len(sample) < 2:
                    continue
                import random
                random.Random(len(allc)).shuffle(sample)    # questions of every stage of the check next to each other
                asked += 16 * len(sample)
                for in_step, yielding in ((False, False), (True, False), (True, True), (False, True)):
                    barrier = threading.Barrier(4)

                    def worker(k, sample=sample, in_step=in_step, yielding=yielding, barrier=barrier):
                        # four rotations of the same list (at any moment the threads ask different questions) and all
                        # four in step (the same question from several threads at nearly the same moment); each once
                        # left to the interpreter's own switching and once with the thread giving way after every
                        # LINE it executes inside oslo_utils (a trace function that sleeps for no time), which makes
                        # the interleaving independent of how busy the machine is
                        off = 0 if in_step else (k * len(sample)) // 4
                        barrier.wait()
                        if yielding:
                            sys.settrace(_yield_in_library)
                        try:
                            for name_, fn, a, kw, first in sample[off:] + sample[:off]:
                                second = _outcome(fn, _snap(a), {x: _snap(v) for x, v in kw.items()})
                                if not _same(first, second):
                                    with lock:
                                        conc.append((name_, a, kw, first, second))
                        finally:
                            sys.settrace(None)
                    ths = [threading.Thread(target=worker, args=(k,)) for k in range(4)]
                    [t.start() for t in ths]
                    [t.join() for t in ths]
        finally:
            sys.setswitchinterval(old_si)
        seen_fn = set()
        for name, a, kw, first, second in conc:
            if name in seen_fn:
                continue
            seen_fn.add(name)
            bad += 1
            ctx.violation({'kind': 'answer-depends-on-concurrent-callers', 'fn': name},
                          {'function': name, 'args': repr(a)[:600], 'kwargs': repr(kw)[:300],
                           'answer_alone': repr(first[:3])[:600], 'answer_with_three_other_threads_calling': repr(second[:3])[:600],
                           'differing_answers': sum(1 for c in conc if c[0] == name)},
                          '%s%s answered %s alone and %s while three other threads were calling the same helper' % (
                              name, repr(a)[:200], repr(first[:3])[:160], repr(second[:3])[:160]))
        sample = [None] * (asked // 2)
        ctx.cov['evaluations'] += n + 2 * len(sample)
        ctx.stage('order-independence-' + label, calls_recorded=len(self.calls), calls_seen=self.seen, replayed=n, asked_twice_in_a_row=self.asked_twice, asked_from_four_threads=2 * len(sample), differing=bad)
        self.calls = []
        return bad
