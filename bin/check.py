import importlib
import logging
import sys

from vf import core


logging.disable(logging.CRITICAL)


def main():
    if len(sys.argv) < 2:
        print('usage: check <ID> [--tier quick|thorough] [--seed N]')
        sys.exit(2)
    pid = sys.argv[1].upper()
    try:
        mod = importlib.import_module('checks.%s' % pid.lower())
    except ImportError as e:
        print('no check for %s: %s' % (pid, e))
        sys.exit(2)
    core.main(mod.run, pid)


main()
