#!/venv/bin/python
"""Regenerates /verif/MANIFEST.json from the table below (single source)."""
import json
import os

ROOT = os.path.dirname(os.path.dirname(os.path.abspath(__file__)))

TRUST = ('TLC/SANY (and Apalache where named), the JSON bridge between TLC and the Python harness, '
         'the concretisation tables (gamma) and the harness-side image builders; the binding self-test '
         'run on every invocation (a corrupted trace and a deliberately wrong stub must be rejected) '
         'guards the bridge. ')

CHECKS = {
    'C18': dict(
        technique='TLA+ reference function (spec/SpecsMatcher.tla: tokeniser with longest-operator-first, decimal parser to hundredths, lexicographic string order over a rank table, operator table) with the laws NumLaws / StrLaws / OrLaws / AllInLaws / RangeLaws / RangeOrderError / InGrammar checked by TLC on every enumerated case; every case rendered in several whitespace layouts and executed against specs_matcher.match',
        category='model_checking',
        text='The documented operator table is an executable TLA+ definition; TLC enumerates 16.5k/106k cases (every operator x operand '
             'pairs incl. negative, equal, adjacent and decimal values; strings over letters, digits and punctuation; <or> and '
             '<all-in> with every 1..5-operand sequence; <range-in> with the four bracket combinations and values on, inside and '
             'outside both ends; the no-operator fallback) and checks the algebraic relations between operators (= is >=, strict and '
             'weak differ exactly at equality, <or> is the disjunction of s==, ...). Each case is rendered in 3/8 whitespace layouts '
             'and the result or exception type of match() compared; a second, Python-level evaluation of the same reference guards '
             'the bridge.',
        design_ref='6/C18',
        note=TRUST + 'Built by a sub-agent from the C10 template and reviewed. Values containing blanks, non-list values for <all-in>, '
             'non-numerals under numeric operators and operands starting with an operator are outside the stated grammar.'),
    'C16': dict(
        technique='TLA+ codecs on code-point / byte sequences (spec/Text.tla: UTF-8 encoder and validating decoder, UTF-16 with BOM, Latin-1, ASCII; error policies) with RoundTrip / StrictFailsExactly / IgnoreNeverFails checked by TLC on every text up to length 3 over 12 boundary code points; branch contracts SafeDecode / SafeEncode / ToUtf8; to_slug as a transducer over 13 character classes with SlugAlphabet / SlugSingleHyphens / SlugIdempotent; every case executed and compared byte for byte',
        category='model_checking',
        text='The four modelled encodings are specified independently of Python\'s codecs, and TLC proves on the specification that '
             'decoding inverts encoding for every representable text, that strict encoding fails exactly on unrepresentable code '
             'points and that ignore/replace never fail. 17k cases (round trips, three error policies, bytes produced under one '
             'encoding and handed over under another: UTF-8 fallback, transcoding unless the two names agree case-insensitively, '
             'empty input, type contract) are replayed with encoding names in random letter case and compared byte for byte, '
             'including object identity where the contract says the argument is returned. to_slug is compared with the transducer '
             'on all 31k/400k class sequences (two concretisations each), plus alphabet, single hyphens and idempotence on the '
             'concrete output.',
        design_ref='6/C16',
        note=TRUST + 'cp1252, shift_jis, koi8-r, utf-32, big5, iso8859-15 are held to the branch contract and the round trip through '
             'Python\'s own codec only (table-driven encodings are not transcribed into TLA+).'),
    'C20': dict(
        technique='TLA+ transition systems (spec/Files.tla): the checksum read loop (Read; invariants Tiled, WholeContent, OnlyLastShort) over every content length 0..200 x chunk size, and a file-system model over nested paths with ensure_tree / delete_if_exists / write_to_tempfile (Idempotent, StaysWellFormed) plus the errno filter table; real read calls observed through open() and validated by Trace_Files; every fs edge executed on a scratch directory; every errno injected',
        category='model_checking',
        text='TLC proves that the read loop feeds exactly the content (pieces tile [0, n), only the last is short) for 1005 (length, '
             'chunk) pairs; compute_file_checksum is then run on real files of those and of the property\'s sizes (around every '
             'multiple of 4096 / 65536 / 1 MiB, five algorithms) with the read() calls recorded through the file object and '
             'validated as behaviours of Files!Read, and the digest compared with hashlib over the whole content. last_bytes is a '
             'TLA+ function checked on sizes x n in {0,1,size-1,size,size+1,huge}. The 7-state file-system graph is explored to '
             'depth 3 and each of its 189 edges is executed on a real directory (result, resulting tree, repeated call); every '
             'errno in errno.errorcode is injected into makedirs / remove and must be swallowed or propagated as the table says.',
        design_ref='6/C20',
        note=TRUST + 'The digest function itself is hashlib on both sides.'),
    'C17': dict(
        technique='TLA+ model (spec/Versions.tla): dotted versions as base-1000 digit sequences with lexicographic order; PEP 440 versions as [epoch, release, pre, post, dev] records with the normative ordering as a TLA+ operator (Trichotomy / Antisymmetric / LexTotal and the PEP 440 landmark chain checked by TLC); CompatRef and PredRef; all enumerated cases rendered and executed against convert_version_to_int/_str/_tuple, is_compatible, VersionPredicate',
        category='model_checking',
        text='The radix-1000 encoding is specified without big numbers (the integer is the digit sequence; gamma evaluates it), so '
             'round trip and order preservation are exact statements about sequences; TLC enumerates 5.6k component tuples (string and '
             'tuple form, six suffix classes), 3.1k equal-length pairs, malformed texts, all 3.9k ordered pairs of a 60-element '
             'PEP 440 lattice x same_major and 13k predicate conjunctions, checking that the reference order is a strict total order '
             'and satisfies the PEP 440 landmark chain; the harness renders versions and predicates (random blanks) and compares '
             'values, booleans and ValueError exactly; 20k/400k random component tuples repeat round trip and order.',
        design_ref='6/C17',
        note=TRUST + 'Components >= 1000 and blank-padded components are outside the statement.'),
    'C19': dict(
        technique='TLA+ reference functions (spec/Split.tla: SplitPath over the /-separated fields of the rendered path; Encode/Quote and SplitRef parser over character classes for split_by_commas) with 13 invariants (result length, None padding, validity conditions, SplitRef(Encode(xs)) = xs, malformed => ValueError) checked by TLC on four enumerated families (paths x minsegs x maxsegs x rest_with_last, item lists, all character sequences up to length 6/7, malformed quoting patterns); every case rendered and executed',
        category='model_checking',
        text='split_path is specified on the fields of the path text (0..7 segments over plain/empty/dotted/spaced, leading and '
             'trailing slash, minsegs 1..4, maxsegs None/0/min-1..min+2, rest_with_last) - 104k/286k cases - and split_by_commas as a '
             'writer (Encode) and a parser (SplitRef) over eight character classes with the inverse law checked by TLC; the harness '
             'renders every case (two renderings per path class), compares result lists / ValueError exactly, and checks every '
             'character sequence up to length 6/7 and eight malformed-quoting patterns.',
        design_ref='6/C19',
        note=TRUST + 'Left open by the property and not compared: blanks outside quotes, backslash + ordinary character inside '
             'quotes, control/non-ASCII characters; maxsegs=0 is read as not given (as the function does).'),
    'C14': dict(
        technique='TLA+ decision tables (spec/Scalars.tla) for bool_from_string / is_valid_boolstr / is_int_like / validate_integer / check_string_length / is_uuid_like with the relations BoolStrAgrees, BoolIgnoresPadCase, CanonImpliesLiteral, CanonIsLiteral checked by TLC; character-level recognisers of integer literals and canonical renderings over every string up to length 5/6; every row and string rendered and executed',
        category='model_checking',
        text='Each function has an independent table or recogniser in TLA+ written from its docstring; TLC enumerates the rows (25 '
             'words x 4 casings x 5 paddings x strict x 4 defaults; 26 integer literals x form x bounds at lo-1/lo/hi/hi+1; lengths '
             '0..6 x min x max incl. None and 0; hex strings of length 30..34 x 7 decorations x corruptions; non-string subjects) and '
             'all 37k/300k strings over {-,+,0,1,9,_,space,.}, checks the cross-function relations the property states, and the '
             'harness compares value / exception type / result type of every call; 10k generate_uuid draws must be uuid-like.',
        design_ref='6/C14',
        note=TRUST + 'Non-ASCII digits and full-width letters are outside the generators.'),
    'C15': dict(
        technique='byte-level TLA+ model (spec/Eui64.tla: MAC = 6 bytes, address = 16 bytes, FlipUL, Eui64, NetPart masking, MacOf) with FlipInvolution / RoundTrip / NetworkKept / MarkerInserted checked by TLC on every (prefix, length, MAC) of the bounded family; decision tables for error classes, parse_host_port/escape_ipv6 and urlsplit/params; every case rendered to text and compared as integers / component-wise, urllib.parse as second oracle',
        category='model_checking',
        text='The modified EUI-64 construction is specified on byte sequences (no 128-bit arithmetic in TLC) and its algebra - the '
             'inverse recovers the MAC, the network part is the prefix masked to its length, ff:fe is inserted, the U/L flip is an '
             'involution - is checked by TLC for 6 prefixes x 12 lengths x 243 boundary-pattern MACs; the harness renders prefix and '
             'MAC in several spellings and compares get_ipv6_addr_by_EUI64 / get_mac_addr_by_ipv6 with the model, then repeats the '
             'round trip on random 48-bit MACs and prefixes. Error classes (IPv4 prefix, malformed, non-string), host:port round '
             'trips for seven host kinds, and 19k URLs (scheme, userinfo, IPv6 literals, ports, paths, six query shapes, fragments, '
             'allow_fragments) are TLA+ tables replayed against the code and urllib.parse.',
        design_ref='6/C15',
        note=TRUST + 'Prefixes longer than /64 or with bits in the interface half, and IPv4 networks as prefix, are outside the statement.'),
    'C12': dict(
        technique='TLA+ state machine of the overridable clock (spec/TimeOverride.tla: instants as <<day, second, microsecond>> triples with carry arithmetic; SetOverride / Clear / AdvanceDelta / AdvanceSeconds / UtcNow / UtcNowTs) model-checked with TLC and every edge of the bounded graph executed on timeutils and TimeFixture; comparison / normalisation cases (now x relative t x offset x form x threshold incl. exact boundary) enumerated by TLC with NormalizeRight and BoundaryStrict; recorded clock traces validated by Trace_TimeOverride',
        category='model_checking',
        text='UtcNowIsOverride, AdvanceExact, QueriesLeaveClock and Normalised are checked by TLC on all call sequences to depth 3 '
             'over a lattice of instants chosen around every carry (microsecond, second, midnight, year end) and ten durations; '
             'each of the 14k transitions is replayed on the real functions (directly and through TimeFixture) comparing result '
             'and the override afterwards. 60k comparison cases - t given as naive, aware (nine offsets up to +-23:59) or ISO '
             'text, thresholds zero, negative, fractional and exactly at the boundary - are decided by the TLA+ triple arithmetic '
             'and compared with is_older_than / is_newer_than / is_soon / normalize_time / parse_isotime. Marshalling round trips, '
             'the leap-second cap and named zones are checked on random instants; recorded clock traces are validated in TLC.',
        design_ref='6/C12',
        note=TRUST + 'Calendar arithmetic (ordinal <-> y/m/d, zone databases) is datetime/zoneinfo on both sides; utcnow_ts with '
             'microseconds is compared to within 0.5 us; list-valued overrides are outside the statement.'),
    'C11': dict(
        technique='TLA+ recognisers over token descriptions (spec/Net.tla: IPv4, IPv6 with :: / embedded IPv4 / scope, CIDR, MAC, integer ranges) enumerated by TLC (62k cases) plus a character-level dotted-quad recogniser over every string up to length 7; every case rendered and put to the validators; the standard library ipaddress parser as a second oracle that must agree with the recogniser wherever it defines the answer; random strings for totality',
        category='model_checking',
        text='Each validator has a declarative recogniser in TLA+; TLC enumerates the grammar families of the property (1..5 parts x 22 '
             'octet spellings, 0..9 groups with every :: placement, scope ids of length 0..17, 0..2 slashes x 14 prefix spellings, '
             '4..8 MAC groups x separators, integers around each range end as str/int/padded/signed) and all 336k/2.4M strings up to '
             'length 7 over a small alphabet for dotted quads. The harness renders each case, compares the truthiness of the '
             'validator with the recogniser, cross-checks the recogniser against ipaddress (a disagreement is a machinery error), '
             'and calls every validator on 20k/300k random strings (NUL, %, /, non-ASCII) to show they answer rather than raise.',
        design_ref='6/C11',
        note=TRUST + 'is_valid_ip is only exercised with canonical four-part quads for IPv4 (it deliberately accepts inet_aton '
             'spellings); is_valid_ipv6_cidr accepts a bare address (asserted by the repository test); netaddr leniencies outside '
             'the grammar are not generated.'),
    'C09': dict(
        technique='TLA+ interpreter of handler-body programs (spec/ExcHelpers.tla): a behaviour is a program, TLC state graph = all programs over 10 operations up to length 4/5 with their outcome (what propagates, logger calls); invariants CompletesReraises / CompletesSilent / BodyRaisePropagates / NeverInvents; each program compiled to Python and run against save_and_reraise_exception with 5 exception classes (identity, traceback tail, logger.error count); decision tables for exception_filter, remove_path_on_error, raise_with_cause replayed',
        category='model_checking',
        text='The property quantifies over programs; the specification makes every step of a behaviour one operation of the handler '
             'body, so TLC enumerates all 8k (quick) / 80k (thorough) bodies x initial reraise flag and checks the clauses on the '
             'abstract interpreter. The harness compiles every program to a real closure, runs it under a real except block for '
             'plain, argument-requiring, chained, pre-traced and BaseException-derived originals, and compares the identity of '
             'the propagated object, the innermost traceback entry (must be the original raise) and the number of logger.error '
             'calls with the model. exception_filter (context manager, decorator, bound method, direct call in and out of the '
             'handler x 5 predicate results), remove_path_on_error and raise_with_cause are TLA+ decision tables replayed the same way.',
        design_ref='6/C09',
        note=TRUST + 'Bodies that call force_reraise()/capture() directly are compared on propagation and logging only.'),
    'C04': dict(
        technique='TLA+ reference model of messages as segment sequences (spec/Masking.tla: 35 keys, 4 spellings, 16 renderings, Carries table, Mask) with SecretGone / RestUnchanged / NoKeyIdentity / Idempotent checked by TLC on every enumerated message; every message rendered to text (each character class expanded to every member) and compared with mask_password',
        category='model_checking',
        text='TLC enumerates 6k abstract messages - every key x spelling x rendering, every secret shape over the character classes '
             'a rendering can carry (each regex metacharacter its own class), fields between neutral text and pairs of fields - '
             'and checks the algebraic clauses on the reference Mask. The harness renders message and Mask(message) with every '
             'member of each class and six masks (backslashes included) and requires mask_password(text, mask) to equal the '
             'rendering of Mask(message), to be idempotent and to contain no secret.',
        design_ref='6/C04',
        note=TRUST + "Secrets never contain quotes or leading/trailing white space; '--key value' does not carry '='. Open finding F5 "
             "(wildcard pattern deletes text after a dict-style field) is listed in known_findings.json."),
    'C08': dict(
        technique='TLA+ reference MaskTree over abstract trees (spec/Masking.tla, Tree section) enumerated by TLC for all trees of depth <= 2 (92k) with TreeSameKeys / TreeMasksUnderKey / TreeResultIsDict; every tree built as a concrete nested mapping (dict and non-dict Mapping, str/int/tuple/bytes keys) and compared with mask_dict_password, including deep and identity comparison of the argument before/after',
        category='model_checking',
        text='The rule table of the property (Mapping test first, sanitize-key substring match, mask_password on other strings, '
             'everything else untouched, fresh dict) is the recursive operator MaskTree; TLC enumerates every tree of depth <= 2 over '
             'six key classes and seven value classes and checks the structural clauses. Each tree is concretised with seeded keys '
             '(all 35 sanitize keys in several spellings and positions, near misses, non-string keys) and the real function must '
             'return exactly the concretised MaskTree, a dict at every level with the same keys, and leave the argument and every '
             'object reachable from it unmodified; random trees to depth 4 / width 5 and TypeError for non-mappings complete it.',
        design_ref='6/C08',
        note=TRUST + 'Trees deeper than 2 are generated by the harness from the same token sets and judged by the same per-entry rule.'),
    'C10': dict(
        technique='TLA+ reference grammar and arithmetic (spec/Units.tla, result symbolic base^exp) enumerated by TLC: every character sequence up to length 4/5 over a 14-symbol alphabet, the token-level grammar (sign x magnitude x 22 prefixes + foreign x unit x unit system), QemuImgInfo size shapes; documentation tables checked as ASSUME; every case executed on string_to_bytes / QemuImgInfo with exact rational comparison',
        category='model_checking',
        text='The specification is an independent, executable definition of the function written from its docstring; TLC enumerates '
             'the whole bounded input space (41k/579k strings x 3 unit systems, 15k token cases, 360 qemu size fields), checks that '
             'the admission tables equal the documented lists and that only well-formed texts get a value, and exports each case with '
             'its symbolic result, which the harness evaluates with fractions.Fraction and compares with the code: error class '
             'exactly, value exactly where binary64 can represent it (else 2^-50 relative), return_int as the ceiling.',
        design_ref='6/C10',
        note=TRUST + "Trailing newline (regexp '$') and Unicode digits are outside the generators (observation O1)."),
    'C03': dict(
        technique='TLA+ decision function over abstract contents (spec/Detect.tla: Match per inspector, FormatsOf, Decide) with the clauses Exclusive / MultiIsError / RawOnlyAlone / AllowedOnly / Total checked by TLC on every content x allowed_formats; every content realised as bytes and read through the real InspectWrapper under six read sizes with the decision sampled after every read (no-revision) and after close, plus detect_file_format',
        category='model_checking',
        text='TLC enumerates 20k abstract contents (every feasible subset of the nine signatures and the FAT look-alike on four '
             'backgrounds at 22 lengths straddling every decision point, and a family of allowed_formats sets) and checks the '
             'clauses of the property on the decision function itself. Each content is built and read through the real wrapper '
             'with read sizes 1/17/512/4096/64K/1M; format/formats after close and detect_file_format must equal the specification, '
             'a decision reported mid-stream must never change afterwards, and no exception other than ImageFormatError may escape; '
             'arbitrary mutated/polyglot/unstructured files are checked for totality and no-revision.',
        design_ref='6/C03',
        note=TRUST + 'format_match semantics are modelled as shipped (prefix tests for VHD/VHDX/LUKS/VMDK; errored inspectors are '
             'still consulted - F4/O6).'),
    'C06': dict(
        technique='TLA+ model of the pipe (spec/InspectWrapper.tla: StartRead / Feed(i) in any order / EndRead / Exhaust / Close, per-inspector fault scripts) model-checked with TLC; every script replayed on the real InspectWrapper with stub inspectors against the set of outcomes the model admits; real-inspector runs with injected faults recorded at the same grain and validated by Trace_InspectWrapper',
        category='model_checking',
        text='Transparent, Isolation, NeverFedAgain, ErroredExactly, AbortPoint, NoReadAfterAbort, FinishAll and FedAll are checked by '
             'TLC for 3 inspectors, every fault placement / completion index / match flag, both source flavours, with and without an '
             'expected format, under every inspector order (the code iterates a set). Each script is then executed on the real '
             'wrapper (stubs subclass the real FileInspector and are installed through ALL_FORMATS) and the observed (bytes returned, '
             'exception, reads consumed, reads reaching each inspector, errored set, finish calls) must be one of the outcomes the '
             'model admits. Real inspectors on real and hostile content, with a fault injected at every (inspector, read) position, '
             'are traced at the grain start/feed/end and validated as behaviours of the same actions.',
        design_ref='6/C06',
        note=TRUST + 'BaseException subclasses that are not Exception are out of scope; log output is not compared.'),
    'C02': dict(
        technique='TLA+ aggregator transition system (spec/SafetyCheck.tla: Construct/Begin/Gate/RunCheck/Conclude) model-checked with TLC and every terminal state replayed on a real FileInspector with scripted checks; trait tables as TLA+ reference functions (spec/ImageRef.tla) with the declarative Unsafe list checked against the operational Ref (FailClosed, CleanAccepted) by TLC, every layout built and streamed; CLI exit status on a stratified sample; exception injection into every shipped check',
        category='model_checking',
        text='FailClosed / ErrorIsFailure / RefusedWhenUnfit are invariants of the aggregator model over every (complete, match, '
             'per-check outcome) combination and every check order; all 260 terminal states x 8 exception types are replayed on the '
             'real safety_check. ImageRef.tla holds, per format, the operational reference and - independently - the property\'s '
             'list of unsafe traits; TLC proves on ~11k layouts that the reference never accepts an unsafe, incomplete or '
             'non-matching layout and accepts every clean one, and each layout (each of the 64 feature bits, all versions, every '
             'ordered pair of descriptor line classes, every footer perturbation, all 6561 boot-flag x type MBR tables, '
             'truncations) is built and streamed through the real inspector under three chunkings with outcome and failing check '
             'names compared. The CLI is run on the same images.',
        design_ref='6/C02',
        note=TRUST + 'A check returning a reason string instead of raising is treated as passed by the code (modelled, not claimed). '
             'CLI exit status is not asserted where the inspector raises while streaming (F4/O6). Text-descriptor VMDK is F1.'),
    'C05': dict(
        technique='TLA+ MemoryBound invariant on the capture-engine model (TLC, every stream x chunking); retention caps per format/region in spec/ImageRef.tla with ASSUME CapsWithinBound evaluated by TLC; hostile layouts enumerated by TLC, streamed through the real inspectors, per-chunk context_info validated by Trace_Retention',
        category='model_checking',
        text='The engine-level reason for the bound (a region never holds more than its declared length, an end region never more '
             'than its window) is an invariant of CaptureEngine.tla checked exhaustively in the small scope. The format-level reason '
             '(every region length is capped by a constant whatever the image announces) is the Cap/Bound table of ImageRef.tla, '
             'whose sums TLC checks against the property bounds. The code is bound by streaming TLC-enumerated hostile layouts '
             '(descriptor sector counts up to 2^64-1, item lengths up to 2^32-1, table counts 2047/2048/65535, 3 MiB streams) and '
             'mutated/polyglot/unstructured images under giant, 1 MiB, 64 KiB, 4 KiB, boundary and random chunkings, checking the '
             'bound after every chunk and validating the recorded per-region retention traces against caps and growth rule in TLC.',
        design_ref='6/C05',
        note=TRUST + 'Memory is sum(context_info.values()) as the property states; interpreter overhead is out of scope.'),
    'C07': dict(
        technique='TLA+ reference ImageRef!Ref (size as symbolic token) and CarrierEnd per layout, enumerated by TLC; real inspectors streamed under boundary-derived chunkings with virtual_size sampled after every chunk; samples validated by Trace_Size (unknown => 0, known => declared); engine-level ZeroWhileUnknown invariant in CaptureEngine',
        category='model_checking',
        text='For every layout TLC exports the declared size (symbolically) and the stream position from which it is known. The real '
             'inspectors are streamed over the built images (all size tokens x admissible layouts: VHDX entry order/padding 0..2046, '
             'metadata placement, item offsets; VMDK descriptor lengths; ISO block sizes; truncations) and over random 64-bit sizes, '
             'with virtual_size sampled after every chunk: it must be 0 before the carrier is complete and the declared size from '
             'then on, under every chunking tried; the sampled sequences are also validated by the two-state trace spec in TLC.',
        design_ref='6/C07',
        note=TRUST + '64-bit arithmetic is Python on both sides (TLC integers are 32-bit; sizes are tokens/decimal strings in the '
             'spec). LUKS virtual_size on streams shorter than its header is not sampled.'),
    'C01': dict(
        technique='TLA+ capture-engine model (spec/CaptureEngine.tla) checked with TLC over every stream x every chunking in a small scope; the same exhaustive set executed on the real engine against the TLC-exported reference; recorded engine traces validated by Trace_CaptureEngine; real-scale layouts enumerated by TLC from spec/ImageRef.tla with reference verdicts, plus an agreement oracle over mutated/truncated/polyglot images and InspectWrapper read sizes',
        category='model_checking',
        text='Faithful, EndFaithful and ChunkIndependent (Verdict = Ref(stream)) are invariants of CaptureEngine.tla, checked by TLC '
             'for every stream of length 7/8 over a 4-symbol alphabet under every chunking incl. empty chunks, for two format programs; '
             'TLC also refutes each pinned-code deviation (D1, D7, F2) at design level. The real CaptureRegion/EndCaptureRegion/'
             'FileInspector code is then run on the same exhaustive (stream, chunking) set with queries interleaved and compared with the '
             'TLC-exported reference, and sampled runs are validated step by step as behaviours of the spec. At real scale TLC '
             'enumerates ~11k layouts of the ten formats with their reference verdicts; each built image is streamed under boundary-'
             'derived chunkings (giant, 1-byte, every boundary +-1, pairs, random, empty chunks) and must agree with the reference and '
             'with itself; images outside the reference families are held to the agreement oracle alone.',
        design_ref='6/C01',
        note=TRUST + 'Raising ImageFormatError and refusing the safety check are one verdict class; the number of bytes retained '
             'beyond what the verdict needs is spec drift, not a violation. Open findings F1, F3, F4 are listed in known_findings.json.'),
    'C13': dict(
        technique='TLA+ state machine (spec/StopWatch.tla) model-checked with TLC; labelled state graph replayed into the real StopWatch (all edges + all paths to depth 4/6); recorded call traces validated by Trace_StopWatch',
        category='model_checking',
        text='Every clause of the property is an invariant or action property of StopWatch.tla and is checked '
             'exhaustively on the bounded instance (4 durations, ticks {0,1,3,-2}, clock window). The code is bound '
             'in both directions: every transition of the exported graph and every call/tick path up to depth 4 '
             '(quick) or 6 (thorough) is executed on the real object with results and observable state compared '
             'after each step, and thousands of long random traces recorded from the real object are validated '
             'line by line against the same actions. That is the history quantifier of the property, enumerated.',
        design_ref='6/C13',
        note=TRUST + 'Clock readings are integers carried exactly by floats; elapsed(maximum<0) is masked.'),
}

PENDING = {}


def main():
    props = [json.loads(l) for l in open(os.path.join(ROOT, 'properties.jsonl'))]
    checks = []
    na = []
    for p in props:
        pid = p['id']
        c = CHECKS.get(pid)
        if c is None:
            na.append({'property_id': pid, 'reason': PENDING.get(
                pid, 'TLA+ module and conformance harness for this property are designed (DESIGN.md section 6) '
                     'but not built yet; not claimed until the check exists and passes on the unchanged tree')})
            continue
        checks.append({
            'property_id': pid,
            'quick_cmd': 'bin/check %s --tier quick' % pid,
            'thorough_cmd': 'bin/check %s --tier thorough' % pid,
            'evidence_file': 'evidence/%s.json' % pid,
            'replay_cmd_template': 'bin/check %s --replay {path}' % pid,
            'engine': 'tlc+conformance',
            'level_claimed': {'category': c['category'], 'text': c['text'],
                              'design_ref': 'DESIGN.md section ' + c['design_ref']},
            'level_note': c['note'],
            'technique': c['technique'],
        })
    man = {
        'version': 1,
        'setup_cmd': 'bin/setup',
        'hooks': {
            'guard': 'OSLO_UTILS_VERIF',
            'enable': 'export OSLO_UTILS_VERIF=1 (set by bin/check); no source hooks are needed: every '
                      'observation is made through public APIs or harness-side wrappers',
            'baseline_off_cmd': 'cd /repo && env -u OSLO_UTILS_VERIF /venv/bin/python -m pytest -ra -q '
                                '-p no:cacheprovider --timeout=900 --continue-on-collection-errors',
            'source_commits': [],
            'add_only': True,
        },
        'engines': [{
            'name': 'tlc+conformance',
            'path': 'bin/check',
            'serves_properties': sorted(CHECKS),
            'kind_free_text': 'explicit TLA+ specifications (spec/*.tla) checked with TLC 1.8; spec->code replay of '
                              'TLC-generated behaviours/cases into the real code and code->spec validation of recorded '
                              'traces by Trace_*.tla; Apalache for inductive fragments',
        }],
        'checks': checks,
        'not_applicable': na,
        'notes': 'exit codes: 0 held, 1 VIOLATION line(s), 2 machinery failure (never a verdict). '
                 'known_findings.json lists open findings by structural signature and fixed ones by commit.',
    }
    with open(os.path.join(ROOT, 'MANIFEST.json'), 'w') as fh:
        json.dump(man, fh, indent=1)
        fh.write('\n')
    print('MANIFEST.json: %d checks, %d not_applicable' % (len(checks), len(na)))


if __name__ == '__main__':
    main()
