#!/venv/bin/python
"""usage: bin/fill_cost.py <quick evidence dir> <thorough evidence dir>   -> rewrites the table of DESIGN.md 13.9"""
import subprocess, sys
q = subprocess.run(['/verif/bin/cost_table.py', sys.argv[1]], stdout=subprocess.PIPE).stdout.decode()
t = subprocess.run(['/verif/bin/cost_table.py', sys.argv[2]], stdout=subprocess.PIPE).stdout.decode()
p = '/verif/DESIGN.md'
s = open(p).read()
a, b = s.index('<!-- COST-BEGIN -->'), s.index('<!-- COST-END -->')
body = '<!-- COST-BEGIN -->\n**quick tier** (the growth rows G01-G07 are the same in both tables: they have one tier)\n\n' + q + '\n**thorough tier**\n\n' + t + '\n'
open(p, 'w').write(s[:a] + body + s[b:])
