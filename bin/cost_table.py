#!/venv/bin/python
"""Print a markdown table of what the last run of every check covered (from evidence/*.json and growth/*.json)."""
import glob, json, os, sys
rows = []
EV = sys.argv[1] if len(sys.argv) > 1 else '/verif/evidence'
for p in sorted(glob.glob(EV + '/C*.json')) + sorted(glob.glob('/verif/growth/G*.json')):
    e = json.load(open(p))
    c = e['coverage']
    rows.append((e['property_id'], e['tier'], e['wall_s'], c.get('states', 0), c.get('evaluations', 0),
                 c.get('traces_validated_against_impl', 0), len(c.get('tlc_runs', [])), len(c.get('stages', []))))
print('| check | tier | wall s | TLC distinct states | code executions | traces validated | TLC runs | stages |')
print('|---|---|---|---|---|---|---|---|')
for r in rows:
    print('| %s | %s | %.0f | %d | %d | %d | %d | %d |' % r)
print()
print('total wall %.0f s' % sum(r[2] for r in rows))
