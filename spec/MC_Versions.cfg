SPECIFICATION Spec
INVARIANT Trichotomy
INVARIANT Antisymmetric
INVARIANT EqIsKeyEq
INVARIANT LexTotal
CONSTRAINT Emit
CHECK_DEADLOCK FALSE
