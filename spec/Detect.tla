------------------------------- MODULE Detect -------------------------------
(***************************************************************************)
(* Format detection (InspectWrapper.formats / format, detect_file_format;   *)
(* format_inspector.py:1404-1466, 1493-1512) as a decision function over     *)
(* abstract contents: a background (zero / random / text / text with a late  *)
(* non-ASCII byte) of a given length on which signatures are overlaid.  Six  *)
(* of the nine signatures live at offset 0 and exclude each other; VDI       *)
(* (0x40), the MBR signature (510) and ISO (32769) can accompany any of them.*)
(* Match(f, c) is what inspector f's format_match says once the whole        *)
(* content has been streamed and finished -- as the code computes it (e.g.   *)
(* VHD/VHDX/LUKS/VMDK are prefix tests that do not need a complete header).  *)
(* TLC enumerates contents x allowed_formats and checks the clauses of C03   *)
(* on the decision function; the harness realises every content and compares.*)
(***************************************************************************)
EXTENDS Integers, FiniteSets, TLC

VARIABLE c

Formats == {"raw", "qcow2", "vhd", "vhdx", "vmdk", "vdi", "qed", "iso", "gpt", "luks"}
\* "vmdk_text": the content is a text-only VMDK descriptor carrying createType="..." (no KDMV
\* header).  It is recognised when the first read covers it (finding F1 for shorter reads), needs
\* the 64 bytes after which the sparse-header region is examined, and only while the bytes captured are text
\* (an overlaid signature with a non-ASCII byte inside the content ends that: VDI's first byte, DEL, at offset 64,
\* the FAT media byte, the MBR signature at 511).
\* "vmdk_text_longtype": the same text, but the value of createType is 70 characters long: no sub-format has such a
\* name, the inspector does not take the text for a descriptor, and no other format claims it -- once the closing quote
\* (byte 82) is there: a value that is not closed at all is taken as it stands (contents of 64 and 65 bytes).
ZeroSigs == {"none", "qcow2", "qed", "vhd", "vhdx", "vmdk", "luks", "vmdk_text", "vmdk_text_longtype"}
Bgs == {"zero", "random", "text", "text_nonascii"}
\* lengths on both sides of every inspector's decision point
Lens == {0, 3, 4, 5, 6, 7, 8, 63, 64, 65, 511, 512, 513, 591, 592, 593,
         34815, 34816, 34817, 262143, 262144, 262145}

\* is signature s physically inside a content of length n?
Present(s, n) == CASE s = "qcow2" -> n >= 4 [] s = "qed" -> n >= 4 [] s = "vhd" -> n >= 8
                   [] s = "vhdx" -> n >= 8 [] s = "vmdk" -> n >= 4 [] s = "luks" -> n >= 6
                   [] s = "vmdk_text" -> n >= 64
                   [] s = "vdi" -> n >= 68 [] s = "gpt" -> n >= 512 [] s = "iso" -> n >= 32774
                   [] OTHER -> FALSE
TextSig(x) == x.zero \in {"vmdk_text", "vmdk_text_longtype"}
Sig(f, x) == (x.zero = f) \/ (f = "vmdk" /\ TextSig(x)) \/ (f = "vdi" /\ x.vdi) \/ (f = "gpt" /\ x.gpt) \/ (f = "iso" /\ x.iso)

Match(f, x) ==
  CASE f = "raw"   -> TRUE
    [] f = "qcow2" -> x.zero = "qcow2" /\ x.n >= 512
    [] f = "qed"   -> x.zero = "qed" /\ x.n >= 512
    [] f = "vhd"   -> x.zero = "vhd" /\ x.n >= 8
    [] f = "vhdx"  -> x.zero = "vhdx" /\ x.n >= 8
    [] f = "vmdk"  -> \/ (x.zero = "vmdk" /\ x.n >= 4)
                      \/ (TextSig(x) /\ x.n >= 64 /\ ~(x.vdi /\ x.n >= 65) /\ ~x.fat /\ ~(x.gpt /\ x.n >= 512)
                          /\ (x.zero = "vmdk_text_longtype" => x.n < 83))
    [] f = "luks"  -> x.zero = "luks" /\ x.n >= 6
    [] f = "vdi"   -> x.vdi /\ x.n >= 512
    [] f = "gpt"   -> x.gpt /\ ~x.fat /\ x.n >= 512
    [] f = "iso"   -> x.iso /\ x.n >= 34816

Effective(x) == IF x.allowed = {} THEN Formats ELSE x.allowed \cap Formats
Matches(x) == {f \in Effective(x) \ {"raw"} : Match(f, x)}

\* InspectWrapper.formats after close(): list of names, never raw with others
FormatsOf(x) == IF Matches(x) # {} THEN Matches(x)
                ELSE IF "raw" \in Effective(x) THEN {"raw"} ELSE {}
\* InspectWrapper.format after close(): a format, or ImageFormatError
Decide(x) == IF Cardinality(FormatsOf(x)) > 1 THEN "ImageFormatError:multiple"
             ELSE IF FormatsOf(x) = {} THEN "ImageFormatError:none"
             ELSE CHOOSE f \in FormatsOf(x) : TRUE

(* The same decision as a function of what the inspectors SAY (complete / format_match per   *)
(* inspector, whether the stream was finished): this is InspectWrapper.formats/format itself, *)
(* used to validate recorded runs of the real wrapper (Trace_Detect).                         *)
FromSignals(insp, complete, match, finished) ==
  LET nonraw == insp \ {"raw"}
      allc == \A i \in nonraw : complete[i]
      m == {i \in nonraw : match[i]}
  IN IF ~allc /\ ~finished THEN "None"
     ELSE IF Cardinality(m) > 1 THEN "ImageFormatError"
     ELSE IF Cardinality(m) = 1 THEN CHOOSE i \in m : TRUE
     ELSE IF "raw" \in insp THEN "raw" ELSE "ImageFormatError"

AllowedFamily == {{}} \cup {Formats \ {"raw"}} \cup {{f} : f \in Formats}
                 \cup {{"raw", f} : f \in Formats \ {"raw"}}
                 \cup {{"qcow2", "vmdk"}, {"iso", "gpt", "raw"}, {"vhd", "vhdx", "vdi"}, {"nosuchformat"}}

Contents == {[zero |-> z, vdi |-> v, gpt |-> g, fat |-> ft, iso |-> i, bg |-> b, n |-> n, allowed |-> {}] :
                z \in ZeroSigs, v \in BOOLEAN, g \in BOOLEAN, ft \in BOOLEAN, i \in BOOLEAN, b \in Bgs, n \in Lens}
WithAllowed == {[x EXCEPT !.allowed = a] :
                   x \in {y \in Contents : y.bg \in {"zero", "text"} /\ y.n \in {8, 512, 34816, 262144} /\ ~y.fat},
                   a \in AllowedFamily}

Init == c \in Contents \cup WithAllowed
Next == FALSE /\ UNCHANGED c
Spec == Init /\ [][Next]_c

(* C03 on the decision function *)
Exclusive == (Decide(c) \in Formats \ {"raw"}) =>
                /\ Sig(Decide(c), c) /\ (Present(Decide(c), c.n) \/ TextSig(c))
                /\ \A g \in Effective(c) \ {"raw", Decide(c)} : ~Match(g, c)
MultiIsError == Cardinality(Matches(c)) >= 2 => Decide(c) = "ImageFormatError:multiple"
RawOnlyAlone == /\ ("raw" \in FormatsOf(c) => FormatsOf(c) = {"raw"} /\ Matches(c) = {})
                /\ (Decide(c) = "raw" => "raw" \in Effective(c))
AllowedOnly == FormatsOf(c) \subseteq Effective(c)
Total == Decide(c) \in Formats \cup {"ImageFormatError:multiple", "ImageFormatError:none"}
=============================================================================
