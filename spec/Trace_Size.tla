----------------------------- MODULE Trace_Size -----------------------------
(* C07, code -> spec: virtual_size sampled after every chunk of a well-formed *)
(* image.  The size is "unknown" until the stream position reaches the end of *)
(* the structure that carries it (ImageRef!CarrierEnd), then "known" for      *)
(* good:  unknown => 0 (six structured formats), known => the declared size.  *)
(* Sizes are 64-bit and beyond, TLC integers are 32-bit: sizes travel as      *)
(* decimal strings and are only compared for equality.                        *)
(* One trace = [fmt, carrier, declared, lenbased, ev: <<[pos, vs]>>]          *)
EXTENDS Integers, Sequences, TLC, Json, IOUtils

Traces == JsonDeserialize(IOEnv.TRACE_FILE)
Sized == {"qcow2", "vhd", "vdi", "iso", "vhdx", "vmdk"}

VARIABLES pos, known, vs, tid, l
tvars == <<pos, known, vs, tid, l>>
T == Traces[tid]
Ev == T.ev[l]

TInit == tid \in 1..Len(Traces) /\ pos = 0 /\ known = (Traces[tid].carrier <= 0) /\ vs = "0" /\ l = 1

Sample == /\ Ev.pos >= pos
          /\ pos' = Ev.pos
          /\ known' = (Ev.pos >= T.carrier)
          /\ vs' = Ev.vs
TNext == l <= Len(T.ev) /\ l' = l + 1 /\ UNCHANGED tid /\ Sample
TSpec == TInit /\ [][TNext]_tvars

Done == (l = Len(T.ev) + 1) => PrintT(<<"done", tid>>)
Diag == IF "TRACE_DIAG" \in DOMAIN IOEnv THEN PrintT(<<"at", tid, l>>) ELSE TRUE

\* 0 for as long as the carrying structure has not been captured
ZeroWhileUnknown == (T.fmt \in Sized /\ ~known /\ l > 1) => vs = "0"
\* once captured it is the declared size (formats whose size is the stream
\* length are compared at the end only: lenbased traces carry the expected
\* value per sample instead)
SizeRight == (known /\ l > 1 /\ ~T.lenbased) => vs = T.declared
\* a known size never changes again
Stable == [][(known /\ known' /\ ~T.lenbased /\ l > 1) => vs' = vs]_tvars
=============================================================================
