-------------------------- MODULE Trace_StopWatch --------------------------
(* code -> spec: validates batches of traces recorded from the real          *)
(* oslo_utils.timeutils.StopWatch against StopWatch's actions.  One trace =  *)
(* [dur, ev: <<[op, arg, r: [k, v]]>>]; every line must be explained by the  *)
(* spec action of the same name producing the logged result, and every       *)
(* invariant of StopWatch is evaluated on every state of every trace.        *)
EXTENDS Integers, Sequences, TLC, Json, IOUtils

Traces == JsonDeserialize(IOEnv.TRACE_FILE)
TNoDur == -1

VARIABLES st, started, stopped, splits, dur, clock, mono, op, arg, res, tid, l

S == INSTANCE StopWatch WITH Durations <- {}, Steps <- {}, Maxima <- {},
                             NoDur <- TNoDur
tvars == <<st, started, stopped, splits, dur, clock, mono, op, arg, res, tid, l>>
T == Traces[tid]
Ev == T.ev[l]

TInit == /\ tid \in 1..Len(Traces)
         /\ st = "none" /\ started = 0 /\ stopped = 0 /\ splits = <<>>
         /\ dur = Traces[tid].dur /\ clock = 0 /\ mono = TRUE
         /\ op = "init" /\ arg = 0 /\ res = S!R("none", 0) /\ l = 1

\* the logged result must be the one the action produces
Logged == /\ op' = Ev.op /\ res'.k = Ev.r.k /\ res'.v = Ev.r.v

Is(o) == Ev.op = o
TNext == /\ l <= Len(T.ev) /\ l' = l + 1 /\ UNCHANGED tid
         /\ \/ (Is("tick") /\ S!Tick(Ev.arg))
            \/ (Is("start") /\ S!Start) \/ (Is("stop") /\ S!Stop)
            \/ (Is("resume") /\ S!Resume) \/ (Is("restart") /\ S!Restart)
            \/ (Is("split") /\ S!Split) \/ (Is("elapsed") /\ S!ElapsedOp)
            \/ (Is("elapsed_max") /\ S!ElapsedMax(Ev.arg))
            \/ (Is("leftover") /\ S!Leftover)
            \/ (Is("leftover_none") /\ S!LeftoverNone)
            \/ (Is("expired") /\ S!Expired)
            \/ (Is("has_started") /\ S!HasStarted)
            \/ (Is("has_stopped") /\ S!HasStopped)
            \/ (Is("splits") /\ S!SplitsOp)
            \/ (Is("enter") /\ S!Enter) \/ (Is("exit") /\ S!Exit)
         /\ Logged
TSpec == TInit /\ [][TNext]_tvars

\* acceptance: every trace consumed to its last line
Done == (l = Len(T.ev) + 1) => PrintT(<<"done", tid>>)
Diag == IF "TRACE_DIAG" \in DOMAIN IOEnv THEN PrintT(<<"at", tid, l>>) ELSE TRUE

NonNegative == S!NonNegative
ElapsedIsDistance == S!ElapsedIsDistance
MaxRespected == S!MaxRespected
LeftoverRight == S!LeftoverRight
ExpiredRight == S!ExpiredRight
SplitsMonotone == S!SplitsMonotone
TypeOK == S!TypeOK
IllegalPreserves == S!IllegalPreserves
IllegalExactly == S!IllegalExactly
QueriesPure == S!QueriesPure
RestartClears == S!RestartClears
=============================================================================
