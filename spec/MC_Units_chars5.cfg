INIT InitChars
NEXT Next
CONSTANTS L = 5
INVARIANT WellFormedOnly
CONSTRAINT EmitChars
CHECK_DEADLOCK FALSE
