SPECIFICATION FairSpec
CONSTANT MaxLen = 5
PROPERTY EventuallyReleased
PROPERTY EventuallyQuiescent
CHECK_DEADLOCK FALSE
