---------------------------- MODULE TimeArithInd ----------------------------
(***************************************************************************)
(* The triple arithmetic of TimeOverride (Norm / Add / Sub / Less on        *)
(* <<day, second, microsecond>>) for UNBOUNDED integers, for Apalache.      *)
(* TLC evaluates these operators on a lattice of instants; here the clauses *)
(* the clock model rests on are discharged for every day number and every   *)
(* duration:                                                                *)
(*   Normal(Add(a, d))                      the result is normalised         *)
(*   Sub(Add(a, d), a) = Norm(d)            advancing is exact (AdvanceExact)*)
(*   Value(Add(a, d)) = Value(a) + Value(d) the triple arithmetic is         *)
(*                                          arithmetic on microseconds       *)
(*   Less(a, b) <=> Value(a) < Value(b)     the order is the numeric order   *)
(* Checked with: apalache-mc check --init=Init --inv=Inv --length=0         *)
(* (the variables are unconstrained apart from a, b being normalised).       *)
(***************************************************************************)
EXTENDS Integers

VARIABLES
  \* @type: Int;
  a1,
  \* @type: Int;
  a2,
  \* @type: Int;
  a3,
  \* @type: Int;
  b1,
  \* @type: Int;
  b2,
  \* @type: Int;
  b3,
  \* @type: Int;
  d1,
  \* @type: Int;
  d2,
  \* @type: Int;
  d3

\* the operators of TimeOverride, on components (Apalache prefers flat integers to tuples here)
NU(t3) == t3 % 1000000
S1(t2, t3) == t2 + (t3 - NU(t3)) \div 1000000
NS(t2, t3) == S1(t2, t3) % 86400
ND(t1, t2, t3) == t1 + (S1(t2, t3) - NS(t2, t3)) \div 86400
Value(t1, t2, t3) == (t1 * 86400 + t2) * 1000000 + t3
Normal(t1, t2, t3) == t2 >= 0 /\ t2 < 86400 /\ t3 >= 0 /\ t3 < 1000000
Less(x1, x2, x3, y1, y2, y3) == x1 < y1 \/ (x1 = y1 /\ x2 < y2) \/ (x1 = y1 /\ x2 = y2 /\ x3 < y3)

Init == /\ a1 \in Int /\ a2 \in 0..86399 /\ a3 \in 0..999999
        /\ b1 \in Int /\ b2 \in 0..86399 /\ b3 \in 0..999999
        /\ d1 \in Int /\ d2 \in Int /\ d3 \in Int
Next == UNCHANGED <<a1, a2, a3, b1, b2, b3, d1, d2, d3>>

\* Add(a, d) componentwise
S(x) == x
R1 == ND(a1 + d1, a2 + d2, a3 + d3)
R2 == NS(a2 + d2, a3 + d3)
R3 == NU(a3 + d3)
\* Sub(Add(a, d), a)
Q1 == ND(R1 - a1, R2 - a2, R3 - a3)
Q2 == NS(R2 - a2, R3 - a3)
Q3 == NU(R3 - a3)

Inv == /\ Normal(R1, R2, R3)
       /\ Value(R1, R2, R3) = Value(a1, a2, a3) + Value(d1, d2, d3)
       /\ Q1 = ND(d1, d2, d3) /\ Q2 = NS(d2, d3) /\ Q3 = NU(d3)
       /\ (Less(a1, a2, a3, b1, b2, b3) <=> Value(a1, a2, a3) < Value(b1, b2, b3))
\* a deliberately wrong clause (the carry forgotten): must be refuted
WrongInv == R2 = (a2 + d2) % 86400
=============================================================================
