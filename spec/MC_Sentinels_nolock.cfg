SPECIFICATION Spec
CONSTANTS
  Threads = {"t1", "t2", "t3"}
  Names = {"foo", "bar"}
  UseLock = FALSE
INVARIANT Agreement
INVARIANT Distinct
INVARIANT Mutex
PROPERTY Stable
CHECK_DEADLOCK FALSE
