SPECIFICATION TSpec
CONSTRAINT Done
CONSTRAINT Diag
INVARIANT Transparent
INVARIANT Isolation
INVARIANT NeverFedAgain
INVARIANT ErroredExactly
INVARIANT FinishAll
INVARIANT FedAll
CHECK_DEADLOCK FALSE
