SPECIFICATION Spec
CONSTANTS MaxLen = 6
INVARIANT CompletesReraises
INVARIANT CompletesSilent
INVARIANT BodyRaisePropagates
INVARIANT NeverInvents
INVARIANT LoggedAtMostOnce
CONSTRAINT Emit
CHECK_DEADLOCK FALSE
