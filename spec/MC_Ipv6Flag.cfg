SPECIFICATION Spec
CONSTANT Depth = 4
INVARIANT AnswerStable
INVARIANT ReadAtMostOnce
CONSTRAINT Export
CHECK_DEADLOCK FALSE
