------------------------------- MODULE Units -------------------------------
(***************************************************************************)
(* strutils.string_to_bytes as a reference function, written from its       *)
(* docstring: text = [sign] number [prefix] unit.  The result is symbolic -- *)
(* [neg, mant (the digits as written), base in {1000, 1024}, exp 0..10,     *)
(* bits] -- and is evaluated by the harness with exact rationals (TLC        *)
(* integers are 32-bit; 1024^10 is not).  Two enumerations:                  *)
(*   Chars : every character sequence up to length L over a 14-symbol        *)
(*           alphabet (all of them, well-formed or not)                      *)
(*   Toks  : sign x magnitude class x every prefix (22 + foreign) x unit x   *)
(*           unit system x return_int                                        *)
(* and QemuImgInfo's human-readable size shapes behind the same arithmetic.  *)
(***************************************************************************)
EXTENDS Naturals, Sequences, TLC

CONSTANTS L            \* maximal length of the character-level enumeration

VARIABLES s, tk
vars == <<s, tk>>

Alpha == {"+", "-", "0", "1", "5", ".", "k", "K", "M", "i", "b", "B", "t", " "}
Digits == {"0", "1", "5"}

(* -- documentation tables ---------------------------------------------- *)
Letters == <<"K", "M", "G", "T", "P", "E", "Z", "Y", "R", "Q">>   \* exponent = position
LetterSet == {Letters[i] : i \in 1..Len(Letters)}
ExpOf(c) == IF c = "k" THEN 1 ELSE CHOOSE i \in 1..Len(Letters) : Letters[i] = c
\* prefixes (first letter, has trailing i) admitted per unit system
Admits(sys, c, hasI) ==
  CASE sys = "IEC"   -> c \in LetterSet                        \* K, Ki, M, Mi, ...
    [] sys = "SI"    -> (c = "k" \/ c \in LetterSet \ {"K"}) /\ ~hasI
    [] sys = "mixed" -> c = "k" \/ c \in LetterSet
    [] OTHER -> FALSE
BaseOf(sys, hasPrefix, hasI) ==
  CASE sys = "IEC" -> 1024 [] sys = "SI" -> 1000
    [] OTHER -> IF hasPrefix /\ ~hasI THEN 1000 ELSE 1024     \* mixed
ValueError == [err |-> "ValueError"]
Val(neg, mant, base, exp, bits) ==
  [err |-> "none", neg |-> neg, mant |-> mant, base |-> base, exp |-> exp, bits |-> bits]

(* -- character level ------------------------------------------------------ *)
RECURSIVE DigRun(_, _)
DigRun(q, i) == IF i <= Len(q) /\ q[i] \in Digits THEN DigRun(q, i + 1) ELSE i

Parse(q, sys) ==
  IF sys \notin {"IEC", "SI", "mixed"} THEN ValueError ELSE
  LET i0 == IF Len(q) >= 1 /\ q[1] \in {"+", "-"} THEN 2 ELSE 1
      i1 == DigRun(q, i0)
      hasDot == i1 <= Len(q) /\ q[i1] = "."
      i2 == IF hasDot THEN DigRun(q, i1 + 1) ELSE i1
      fracDigits == IF hasDot THEN i2 - (i1 + 1) ELSE 0
      intDigits == i1 - i0
      numOK == IF hasDot THEN fracDigits >= 1 ELSE intDigits >= 1
      c == IF i2 <= Len(q) THEN q[i2] ELSE " "
      hasI0 == i2 + 1 <= Len(q) /\ q[i2 + 1] = "i"
      isP == c \in {"k"} \cup LetterSet
      \* a prefix is consumed only if the system admits it (else the text must be a bare unit)
      hasI == isP /\ hasI0 /\ Admits(sys, c, TRUE)
      hasP == isP /\ (hasI \/ Admits(sys, c, FALSE))
      i4 == IF hasP THEN (IF hasI THEN i2 + 2 ELSE i2 + 1) ELSE i2
      rest == SubSeq(q, i4, Len(q))
      unit == IF rest = <<"b">> THEN "b" ELSE IF rest = <<"B">> THEN "B"
              ELSE IF rest = <<"b", "i", "t">> THEN "bit" ELSE "bad"
  IN IF ~numOK \/ unit = "bad" THEN ValueError
     ELSE Val(i0 = 2 /\ q[1] = "-", SubSeq(q, i0, i2 - 1), BaseOf(sys, hasP, hasI),
              IF hasP THEN ExpOf(c) ELSE 0, unit # "B")

(* -- token level ---------------------------------------------------------- *)
Signs == {"", "+", "-"}
MagOK == {"0", "1", "12", "1.5", ".5", "007", "0.125", "3.0", "123456789012345678", "1000.001"}
MagBad == {"", "5.", "1..2", "1e3", "0x10", " 1", "1 ", ".", "1,5", "--1"}
Prefixes == {"", "k", "ki"} \cup {Letters[i] : i \in 1..10} \cup {Letters[i] \o "i" : i \in 1..10}
Foreign == {"m", "g", "Kb", "D", "ii", "iK", "Mk", "KI", "mi"}
UnitsOK == {"b", "bit", "B"}
UnitsBad == {"", "bits", "Bit", "byte", "bb", "o", "Bi"}
\* the three documented systems and names that are none of them - also the empty name and (gamma: "none_object",
\* "zero_object") values that are not names at all: an unknown unit system is refused, it is not a default
Systems == {"IEC", "SI", "mixed", "unknown", "iec", "", "none_object", "zero_object"}

\* TLC strings are atomic: prefix spellings are looked up in a table
PTable == {<<"k", "k", FALSE>>, <<"ki", "k", TRUE>>}
          \cup {<<Letters[i], Letters[i], FALSE>> : i \in 1..10}
          \cup {<<Letters[i] \o "i", Letters[i], TRUE>> : i \in 1..10}
PInfo(p) == CHOOSE t \in PTable : t[1] = p
First(p) == PInfo(p)[2]
HasI(p) == PInfo(p)[3]
RefTok(sign, mag, prefix, unit, sys) ==
  IF sys \notin {"IEC", "SI", "mixed"} THEN ValueError
  ELSE IF mag \notin MagOK \/ unit \notin UnitsOK THEN ValueError
  ELSE IF prefix = "" THEN Val(sign = "-", mag, BaseOf(sys, FALSE, FALSE), 0, unit # "B")
  ELSE IF prefix \in Foreign THEN ValueError
  ELSE LET c == First(prefix)
           hasI == HasI(prefix)
       IN IF ~Admits(sys, c, hasI) THEN ValueError
          ELSE Val(sign = "-", mag, BaseOf(sys, TRUE, hasI), ExpOf(c), unit # "B")

Toks == {[sign |-> sg, mag |-> m, prefix |-> p, unit |-> u, sys |-> y] :
            sg \in Signs, m \in MagOK, p \in Prefixes \cup Foreign, u \in UnitsOK, y \in Systems}
   \cup {[sign |-> sg, mag |-> m, prefix |-> p, unit |-> u, sys |-> y] :
            sg \in {"", "-"}, m \in MagBad, p \in {"", "K", "Mi"}, u \in {"b", "B"}, y \in {"IEC", "SI", "mixed"}}
   \cup {[sign |-> "", mag |-> m, prefix |-> p, unit |-> u, sys |-> y] :
            m \in {"1", "1.5"}, p \in {"", "K", "k", "Gi"}, u \in UnitsBad, y \in {"IEC", "SI", "mixed"}}

(* -- QemuImgInfo human-readable sizes: "N", "N unit", "N (M bytes)", exponent *)
(* notation; an explicit "(M bytes)" figure takes precedence; a one-letter     *)
(* unit means that letter + B; everything goes through IEC with return_int     *)
QemuCases ==
  {[mag |-> m, unit |-> u, bytes |-> b] :
      m \in {"0", "1", "64", "1.5", "96", "2048", "0.5", "1e+03", "2.5e+03", "1E-01"},
      u \in {"", "K", "M", "G", "T", "KB", "MiB", "B", "k", "Kb", "Mib", "bit", "Kibit"},
      b \in {"", "0", "67108864", "1"}}
QemuRef(q) ==
  IF q.bytes # "" THEN [k |-> "int", v |-> q.bytes]
  ELSE IF q.unit = "" THEN [k |-> "intof", v |-> q.mag]        \* int(magnitude) (exponent notation rendered %.0f)
  ELSE LET u == IF q.unit \in {"K", "M", "G", "T", "k"} THEN q.unit \o "B" ELSE q.unit
       IN [k |-> "s2b", v |-> u]                                 \* string_to_bytes(mag + u, IEC, return_int)

(* -- enumeration ----------------------------------------------------------- *)
Init == s = <<>> /\ tk \in Toks
Next == Len(s) < L /\ (\E c \in Alpha : s' = Append(s, c)) /\ UNCHANGED tk
Spec == Init /\ [][Next]_vars
InitChars == s = <<>> /\ tk = [sign |-> "", mag |-> "", prefix |-> "", unit |-> "", sys |-> ""]
InitToks == s = <<>> /\ tk \in Toks
NoNext == FALSE /\ UNCHANGED vars
InitQemu == s = <<>> /\ tk \in QemuCases

(* C10 on the model: the admission tables are the documentation's lists, and   *)
(* the two references agree wherever both apply                               *)
IECList == {"K", "Ki", "M", "Mi", "G", "Gi", "T", "Ti", "P", "Pi", "E", "Ei", "Z", "Zi", "Y", "Yi", "R", "Ri", "Q", "Qi"}
SIList == {"k", "M", "G", "T", "P", "E", "Z", "Y", "R", "Q"}
ASSUME DocTables ==
  /\ \A p \in Prefixes \ {""} : Admits("IEC", First(p), HasI(p)) <=> p \in IECList
  /\ \A p \in Prefixes \ {""} : Admits("SI", First(p), HasI(p)) <=> p \in SIList
  /\ \A p \in Prefixes \ {""} : Admits("mixed", First(p), HasI(p))
  /\ \A p \in Prefixes \ {""} : BaseOf("mixed", TRUE, HasI(p)) = (IF HasI(p) THEN 1024 ELSE 1000)
\* everything outside the grammar is ValueError: a result other than ValueError
\* implies a well-formed number and a unit
WellFormedOnly == \A y \in {"IEC", "SI", "mixed"} :
                    Parse(s, y).err = "none" => (Len(s) >= 2 /\ s[Len(s)] \in {"b", "B", "t"})
=============================================================================
