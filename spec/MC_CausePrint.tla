--------------------------- MODULE MC_CausePrint ---------------------------
EXTENDS CausePrint, Json
\* one record per finished walk (printed from a state constraint, as in the other MC modules)
Export == pc = "done" =>
            PrintT(ToJson([kind |-> kind, cause |-> cause, indent |-> indent, show |-> show, out |-> out]))
=============================================================================
