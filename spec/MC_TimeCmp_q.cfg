INIT CmpInit
NEXT CmpNext
CONSTANTS
  Days = {1}
  Secs = {0, 86399}
  Micros = {0, 999999}
  MaxDepth = 0
INVARIANT NormOK
CONSTRAINT EmitCmp
CHECK_DEADLOCK FALSE
