SPECIFICATION Spec
CONSTANTS
  RetryDelay = 0
  SameLogDelay = 0
  MaxFailures = 5
  Msgs = {1, 2}
  Jitter = {0, 1, 3}
INVARIANT Accounted
INVARIANT OneSleepPerFailure
PROPERTY ChangeLoggedAtOnce
PROPERTY Throttled
CONSTRAINT Emit
CHECK_DEADLOCK FALSE
