------------------------------ MODULE Masking ------------------------------
(***************************************************************************)
(* strutils.mask_password / mask_dict_password as reference functions.      *)
(*                                                                         *)
(* A message is a sequence of segments:                                     *)
(*   [t |-> "neutral", text |-> tok]               text that holds no key   *)
(*   [t |-> "field", key, spell, rend, secret]     one secret in one of the *)
(*                                                 supported renderings     *)
(* secret is a sequence of character CLASSES (the harness expands a class   *)
(* to every member for single-class secrets and to seeded samples for       *)
(* longer ones) or <<"MASK">> once masked.  Mask(msg) replaces exactly the   *)
(* secret of every field; rendering (gamma, lib side) turns both the         *)
(* message and Mask(message) into text, and mask_password(text) must equal   *)
(* the rendering of Mask(message).                                          *)
(*                                                                         *)
(* mask_dict_password works on trees (Tree section below).                  *)
(***************************************************************************)
EXTENDS Integers, Sequences, FiniteSets, TLC

VARIABLE case

\* the sanitize list of the property (35 keys)
Keys == {"adminpass", "admin_pass", "password", "admin_password", "auth_token", "new_pass",
         "auth_password", "secret_uuid", "secret", "sys_pswd", "token", "configdrive",
         "chappassword", "encrypted_key", "private_key", "fernetkey", "sslkey", "passphrase",
         "cephclusterfsid", "octaviaheartbeatkey", "rabbitcookie", "cephmanilaclientkey",
         "pacemakerremoteauthkey", "designaterndckey", "cephadminkey", "heatauthencryptionkey",
         "cephclientkey", "keystonecredential", "barbicansimplecryptokek", "cephrgwkey",
         "swifthashsuffix", "migrationsshkey", "cephmdskey", "cephmonkey", "chapsecret"}
ASSUME Cardinality(Keys) = 35

Spellings == {"lower", "UPPER", "Capitalised", "digits"}     \* digits: key followed by 1-3 digits
\* "glued": the key is immediately preceded by other word characters (x_password,
\* os-token) including the compounds in which two sanitize keys overlap
\* (new_pass + password = new_password, adminpass + passphrase = adminpassphrase).
\* The prefix is neutral text; renderings that anchor the key on '<' or '--' do not
\* support it.
GluedOK == {"eq", "eq_sp", "eq_dq", "eq_sq", "eq_sp_dq", "json_dq", "dict_sq", "dict_u", "json_tight",
            "sp_sq", "sp_dq", "argv_flag", "argv_u", "flag", "argv_flag_us", "flag_us"}

\* the supported renderings (k = key as spelled, v = secret)
Renderings == {"eq",            \* k=v
               "eq_sp",         \* k = v
               "eq_dq",         \* k="v"
               "eq_sq",         \* k='v'
               "eq_sp_dq",      \* k = "v"
               "json_dq",       \* "k": "v"
               "dict_sq",       \* 'k': 'v'
               "dict_u",        \* u'k': u'v'
               "json_tight",    \* "k":"v"
               "xml",           \* <k>v</k>
               "opt",           \* --k v
               "sp_sq",         \* k 'v'
               "sp_dq",         \* k "v"
               "argv_flag",     \* '--k', '--flag', 'v'
               "argv_u",        \* 'k', '-f', u'v'
               "flag",          \* k --flag v
               "argv_flag_us",  \* '--k', '--flag_name', 'v'     (an option name with an underscore)
               "flag_us"}       \* k --flag_name v
Quoted == {"eq_dq", "eq_sq", "eq_sp_dq", "json_dq", "dict_sq", "dict_u", "json_tight",
           "sp_sq", "sp_dq", "argv_flag", "argv_u", "argv_flag_us"}
DictStyle == {"json_dq", "dict_sq", "dict_u", "json_tight"}

\* character classes of a secret; each regex metacharacter is its own class
Meta == {"dot", "star", "plus", "qmark", "caret", "dollar", "lparen", "rparen", "lbrack", "rbrack",
         "lbrace", "rbrace", "pipe", "backslash"}
Classes == {"letter", "digit", "nonascii", "punct", "equals", "lt", "space", "tab", "newline"} \cup Meta
\* which classes a rendering can carry: never a quote; white space only inside
\* quoted / XML renderings; "--k v" stops at '='; XML stops at '<'
Carries(r, c) == /\ (c \in {"space", "tab", "newline"} => r \in Quoted \cup {"xml"})
                 /\ (c = "equals" => r # "opt")
                 /\ (c = "lt" => r # "xml")

Neutral(x) == [t |-> "neutral", text |-> x]
Field(k, sp, r, sec) == [t |-> "field", key |-> k, spell |-> sp, rend |-> r, secret |-> sec]
Masked == <<"MASK">>

MaskSeg(sg) == IF sg.t = "field" THEN [sg EXCEPT !.secret = Masked] ELSE sg
Mask(msg) == [i \in 1..Len(msg) |-> MaskSeg(msg[i])]

\* neutral tokens: "plain" has no quote character, "quoted" is further quoted text
NeutralToks == {"plain_a", "plain_b", "quoted_pair"}

SecretShapes == {<<c>> : c \in Classes}
                \cup {<<"letter", c, "digit">> : c \in Classes}
                \cup {<<c, c>> : c \in Meta}
                \cup {<<"letter", "letter", "letter", "letter", "letter", "letter", "letter", "letter">>}
                \* up to the 40 characters the property speaks of: uniform, alternating, and with one metacharacter inside
                \cup {[i \in 1..n |-> "letter"] : n \in {16, 39, 40}}
                \cup {[i \in 1..40 |-> IF i % 2 = 0 THEN "digit" ELSE "letter"]}
                \cup {[i \in 1..40 |-> IF i = 20 THEN c ELSE "letter"] : c \in {"dot", "dollar", "backslash", "nonascii", "equals", "lt"}}
OkSecret(r, sec) == \A i \in 1..Len(sec) : Carries(r, sec[i])
                    \* a secret does not start or end with white space (it would be
                    \* indistinguishable from the rendering's own padding)
                    /\ sec[1] \notin {"space", "tab", "newline"} /\ sec[Len(sec)] \notin {"space", "tab", "newline"}

\* families of messages
Alone == {<<Field(k, sp, r, s)>> : k \in Keys, sp \in Spellings, r \in Renderings,
                                   s \in {<<"letter", "digit", "letter">>}}
SecretsAll == {<<Field("password", "lower", r, s)>> : r \in Renderings, s \in SecretShapes}
              \cup {<<Field(k, "lower", r, s)>> : k \in {"token", "secret_uuid", "cephmonkey"},
                                                 r \in {"eq", "json_dq", "xml", "opt"}, s \in SecretShapes}
Secrets == {m \in SecretsAll : OkSecret(m[1].rend, m[1].secret)}
Glued == {<<Field(k, "glued", r, <<"letter", "digit", "letter">>)>> : k \in Keys, r \in GluedOK}
InContext == {<<Neutral(a), Field(k, sp, r, <<"letter", "digit">>), Neutral(b)>> :
                 a \in NeutralToks, b \in NeutralToks, k \in {"password", "auth_token", "sslkey", "chapsecret"},
                 sp \in {"lower", "UPPER"}, r \in Renderings}
TwoFields == {<<Field(k1, "lower", r1, <<"letter", "digit">>), Neutral("plain_a"),
                Field(k2, "Capitalised", r2, <<"digit", "letter">>)>> :
                 k1 \in {"password", "token"}, k2 \in {"admin_pass", "secret"}, r1 \in Renderings, r2 \in Renderings}
\* the same key several times in one message, in the same rendering (every occurrence is masked,
\* the text between them is kept)
SameKey == {<<Field(k, "lower", r, <<"letter", "digit">>), Neutral("plain_a"), Field(k, "UPPER", r, <<"digit", "letter">>)>> :
               k \in {"password", "sslkey", "chapsecret"}, r \in Renderings \ DictStyle}
           \cup {<<Field(k, "lower", r, <<"letter", "digit">>), Neutral("plain_b"), Field(k, "lower", r, <<"digit", "digit">>),
                  Neutral("plain_a"), Field(k, "digits", r, <<"letter", "letter">>)>> :
               k \in {"token", "chapsecret"}, r \in Renderings \ DictStyle}
\* the same key in two different renderings of one message (each occurrence is masked on its own:
\* a rendering that matched must not stop another one from being looked for)
SameKeyMixed == {<<Field(k, "lower", r1, <<"letter", "digit">>), Neutral("plain_a"), Field(k, "lower", r2, <<"digit", "letter">>)>> :
                   k \in {"password", "auth_token"}, r1 \in Renderings \ DictStyle, r2 \in Renderings \ DictStyle}
NoKey == {<<Neutral(a), Neutral(b)>> : a \in NeutralToks, b \in NeutralToks}

Messages == Alone \cup Secrets \cup Glued \cup InContext \cup TwoFields \cup SameKey \cup SameKeyMixed \cup NoKey

\* Known limitation of the pinned code (finding F5, see DESIGN.md): after a dict/JSON
\* style field, any later quote character in the message makes the "wildcard"
\* pattern delete text.  The flag lets the harness attach the finding's signature.
HasQuote(sg) == \/ (sg.t = "neutral" /\ sg.text = "quoted_pair")
                \/ (sg.t = "field" /\ sg.rend \in Quoted)
QuoteAfterDictField(msg) ==
  \E i \in 1..Len(msg) : msg[i].t = "field" /\ msg[i].rend \in DictStyle
                         /\ \E j \in (i + 1)..Len(msg) : HasQuote(msg[j])

Init == case \in Messages
Next == FALSE /\ UNCHANGED case
Spec == Init /\ [][Next]_case

(* C04 on the model *)
SecretGone == \A i \in 1..Len(Mask(case)) : Mask(case)[i].t = "field" => Mask(case)[i].secret = Masked
RestUnchanged == /\ Len(Mask(case)) = Len(case)
                 /\ \A i \in 1..Len(case) :
                      IF case[i].t = "neutral" THEN Mask(case)[i] = case[i]
                      ELSE [Mask(case)[i] EXCEPT !.secret = case[i].secret] = case[i]
NoKeyIdentity == (\A i \in 1..Len(case) : case[i].t = "neutral") => Mask(case) = case
Idempotent == Mask(Mask(case)) = Mask(case)
CarriedOnly == \A i \in 1..Len(case) : case[i].t = "field" => OkSecret(case[i].rend, case[i].secret)

-----------------------------------------------------------------------------
(* mask_dict_password: trees.  A mapping is a sequence of <<key token, value>> *)
(* (keys distinct); a value is a leaf token or a nested mapping.               *)
KeyToks == {"k_sanitize",      \* str containing a sanitize key (spelling/position chosen by gamma)
            "k_plain",         \* str without any sanitize key
            "k_nearmiss",      \* str that is one character away from a sanitize key
            "k_int", "k_tuple", "k_bytes"}
LeafToks == {"v_secret_str",   \* str that embeds a secret field (masked by mask_password)
             "v_plain_str", "v_bytes", "v_int", "v_none", "v_list", "v_float"}
MapKinds == {"dict", "mapping"}     \* dict or a non-dict collections.abc.Mapping

Leaf(x) == [t |-> "leaf", v |-> x]
Map(kind, ents) == [t |-> "map", kind |-> kind, ents |-> ents]

RECURSIVE MaskTree(_)
MaskTree(n) ==
  IF n.t = "leaf" THEN n
  ELSE Map("dict",      \* the result is always a fresh dict
           [i \in 1..Len(n.ents) |->
              LET k == n.ents[i][1]
                  v == n.ents[i][2]
              IN IF v.t = "map" THEN <<k, MaskTree(v)>>                      \* Mapping test comes first
                 ELSE IF k \in {"k_sanitize", "k_sanitize2"} THEN <<k, Leaf("MASK")>>
                 ELSE IF v.v = "v_secret_str" THEN <<k, Leaf("v_secret_str_masked")>>
                 ELSE <<k, v>>])

\* all trees of depth <= D with at most W entries per mapping, keys distinct
RECURSIVE Trees(_)
Leaves == {Leaf(x) : x \in LeafToks}
Trees(d) ==
  IF d = 0 THEN Leaves
  ELSE LET sub == Trees(d - 1) IN
       sub \cup {Map(kd, <<>>) : kd \in MapKinds}          \* empty mappings, dict and non-dict
           \cup {Map(kd, <<<<k1, v1>>>>) : kd \in MapKinds, k1 \in KeyToks, v1 \in sub}
           \cup {Map(kd, <<<<k1, v1>>, <<k2, v2>>>>) :
                    kd \in {"dict"}, k1 \in {"k_sanitize", "k_plain"}, k2 \in {"k_nearmiss", "k_int", "k_sanitize2"},
                    v1 \in sub, v2 \in {Leaf("v_secret_str"), Leaf("v_int")} \cup {m \in sub : m.t = "map" /\ Len(m.ents) = 1}}

InitTrees == case \in {m \in Trees(2) : m.t = "map"}
SameKeys(a, b) == /\ Len(a.ents) = Len(b.ents)
                  /\ \A i \in 1..Len(a.ents) : a.ents[i][1] = b.ents[i][1]
TreeSameKeys == SameKeys(case, MaskTree(case))
\* every value under a sanitize key that is not itself a mapping is the mask
TreeMasksUnderKey == \A i \in 1..Len(case.ents) :
                        (case.ents[i][1] \in {"k_sanitize", "k_sanitize2"} /\ case.ents[i][2].t = "leaf")
                           => MaskTree(case).ents[i][2] = Leaf("MASK")
TreeResultIsDict == MaskTree(case).kind = "dict"
=============================================================================
