----------------------------- MODULE Trace_Files -----------------------------
(* code -> spec: the read calls compute_file_checksum actually issued (seen    *)
(* through the file object handed out by open()), validated against            *)
(* Files!Read: every read asks for the chunk size and gets min(chunk,          *)
(* remaining); the loop stops at the first empty read.                         *)
(* One trace = [n, k, ev: <<[req, got]>>].                                     *)
EXTENDS Integers, Sequences, TLC, Json, IOUtils

Traces == JsonDeserialize(IOEnv.TRACE_FILE)
VARIABLES n, k, pos, pieces, done, fs, op, arg, res, depth, tid, l
F == INSTANCE Files WITH MaxLen <- 0
tvars == <<n, k, pos, pieces, done, fs, op, arg, res, depth, tid, l>>
T == Traces[tid]
Ev == T.ev[l]

TInit == /\ tid \in 1..Len(Traces) /\ n = Traces[tid].n /\ k = Traces[tid].k
         /\ pos = 0 /\ pieces = <<>> /\ done = FALSE
         /\ fs = <<"x">> /\ op = "none" /\ arg = 0 /\ res = "none" /\ depth = 0 /\ l = 1
TNext == /\ l <= Len(T.ev) /\ l' = l + 1 /\ UNCHANGED tid
         /\ Ev.req = k /\ F!Read
         /\ pos' = pos + Ev.got
         /\ (Ev.got = 0 <=> done')
TSpec == TInit /\ [][TNext]_tvars
\* acceptance: consumed to the last line AND the loop really finished there
Done == (l = Len(T.ev) + 1 /\ done) => PrintT(<<"done", tid>>)
Diag == IF "TRACE_DIAG" \in DOMAIN IOEnv THEN PrintT(<<"at", tid, l>>) ELSE TRUE
Tiled == F!Tiled
WholeContent == F!WholeContent
=============================================================================
