------------------------------ MODULE MC_Units ------------------------------
EXTENDS Units, Json
EmitChars == PrintT(ToJson([s |-> s, iec |-> Parse(s, "IEC"), si |-> Parse(s, "SI"), mixed |-> Parse(s, "mixed")]))
EmitToks == PrintT(ToJson([t |-> tk, ref |-> RefTok(tk.sign, tk.mag, tk.prefix, tk.unit, tk.sys)]))
EmitQemu == PrintT(ToJson([q |-> tk, ref |-> QemuRef(tk)]))
=============================================================================
