--------------------------- MODULE MC_TimeOverride ---------------------------
EXTENDS TimeOverride, Json
\* 1969-12-31 relative to the base date 2024-12-30: the clock before the epoch
D1969 == -20088
MCDays == {0, 1, 2, D1969}
View == <<override, depth>>
Emit == PrintT(ToJson([f |-> override, op |-> op', arg |-> arg', res |-> res', t |-> override']))
=============================================================================
