--------------------------- MODULE MC_TimeOverride ---------------------------
EXTENDS TimeOverride, Json
View == <<override, depth>>
Emit == PrintT(ToJson([f |-> override, op |-> op', arg |-> arg', res |-> res', t |-> override']))
=============================================================================
