SPECIFICATION Spec
CONSTANTS
  N = 8
  Alpha = {0,1,3,4}
  Fmt = "chain"
  Dev = {}
INVARIANT Faithful
INVARIANT EndFaithful
INVARIANT ChunkIndependent
INVARIANT ErrIsRejected
INVARIANT MemoryBound
INVARIANT ZeroWhileUnknown
PROPERTY NoDataAfterFinish
PROPERTY QueriesArePure
PROPERTY PosMonotone
CHECK_DEADLOCK FALSE
