SPECIFICATION Spec
CONSTRAINT Export
CHECK_DEADLOCK FALSE
