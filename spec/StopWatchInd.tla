---------------------------- MODULE StopWatchInd ----------------------------
(***************************************************************************)
(* The arithmetic core of StopWatch for UNBOUNDED clock readings, for       *)
(* Apalache.  TLC explores StopWatch.tla with a handful of clock steps;     *)
(* here the clauses of C13 that speak about "any monotonic clock readings"  *)
(* are shown for every integer reading by an inductive invariant:           *)
(*   IndInit => IndInv  is not needed (Init is a state of IndInv),          *)
(*   Init => IndInv                      (--init=Init    --length=0)        *)
(*   IndInv /\ Next => IndInv'           (--init=IndInit --length=1)        *)
(* IndInv implies: while running, elapsed = clock - started exactly (the    *)
(* clamp at 0 never bites); while stopped, elapsed = stopped - started; the *)
(* elapsed values of successive splits never decrease.                      *)
(* The clock here only moves forward (Tick(d), d >= 0): that is the         *)
(* hypothesis of those clauses; clocks that go backwards are explored by    *)
(* TLC in StopWatch.tla (elapsed is then clamped).                          *)
(***************************************************************************)
EXTENDS Integers

VARIABLES
  \* @type: Str;
  st,
  \* @type: Int;
  started,
  \* @type: Int;
  stopped,
  \* @type: Int;
  clock,
  \* @type: Int;
  nsplits,
  \* @type: Int;
  lastSplit,
  \* @type: Int;
  prevSplit

Max(a, b) == IF a > b THEN a ELSE b
Elapsed == IF st = "stopped" THEN Max(0, stopped - started)
           ELSE IF st = "started" THEN Max(0, clock - started) ELSE 0

Init == st = "none" /\ started = 0 /\ stopped = 0 /\ clock \in Int /\ nsplits = 0 /\ lastSplit = 0 /\ prevSplit = 0

Tick == \E d \in Nat : clock' = clock + d /\ UNCHANGED <<st, started, stopped, nsplits, lastSplit, prevSplit>>
\* start(): only from none or stopped; clears the splits
Start == st \in {"none", "stopped"} /\ st' = "started" /\ started' = clock /\ nsplits' = 0 /\ lastSplit' = 0 /\ prevSplit' = 0
         /\ UNCHANGED <<stopped, clock>>
\* restart(): stop if running, then start
Restart == st' = "started" /\ started' = clock /\ nsplits' = 0 /\ lastSplit' = 0 /\ prevSplit' = 0
           /\ stopped' = (IF st = "started" THEN clock ELSE stopped) /\ UNCHANGED clock
Stop == st = "started" /\ st' = "stopped" /\ stopped' = clock /\ UNCHANGED <<started, clock, nsplits, lastSplit, prevSplit>>
Resume == st = "stopped" /\ st' = "started" /\ UNCHANGED <<started, stopped, clock, nsplits, lastSplit, prevSplit>>
Split == st = "started" /\ nsplits' = nsplits + 1 /\ prevSplit' = (IF nsplits = 0 THEN 0 ELSE lastSplit)
         /\ lastSplit' = Elapsed /\ UNCHANGED <<st, started, stopped, clock>>
Next == Tick \/ Start \/ Restart \/ Stop \/ Resume \/ Split

IndInv == /\ st \in {"none", "started", "stopped"}
          /\ started \in Int /\ stopped \in Int /\ clock \in Int /\ nsplits \in Int /\ lastSplit \in Int /\ prevSplit \in Int
          /\ nsplits >= 0
          /\ (st = "none" => nsplits = 0)
          /\ (st # "none" => started <= clock)
          /\ (st = "stopped" => started <= stopped /\ stopped <= clock)
          /\ (nsplits = 0 => lastSplit = 0 /\ prevSplit = 0)
          /\ (nsplits > 0 => 0 <= prevSplit /\ prevSplit <= lastSplit /\ lastSplit <= Elapsed)
\* an arbitrary state satisfying the invariant (Apalache picks the values)
IndInit == /\ st \in {"none", "started", "stopped"} /\ started \in Int /\ stopped \in Int /\ clock \in Int
           /\ nsplits \in Int /\ lastSplit \in Int /\ prevSplit \in Int
           /\ IndInv

(* what the invariant gives *)
ElapsedIsDistance == /\ (st = "started" => Elapsed = clock - started)
                     /\ (st = "stopped" => Elapsed = stopped - started)
                     /\ Elapsed >= 0
SplitsMonotone == nsplits > 0 => prevSplit <= lastSplit
Goal == IndInv /\ ElapsedIsDistance /\ SplitsMonotone
\* deliberately too strong (resume does not forget the pause): must be refuted
WrongGoal == IndInv /\ (st = "started" => clock - started <= 5 \/ stopped = 0)
=============================================================================
