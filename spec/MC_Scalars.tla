----------------------------- MODULE MC_Scalars -----------------------------
EXTENDS Scalars, Json
Out == CASE c.k = "bool" -> [bool |-> BoolRef(c), boolstr |-> BoolStrRef(c)]
         [] c.k = "boolobj" -> [bool |-> BoolObjRef(c)]
         [] c.k = "int" -> [intlike |-> IntLikeRef(c), validate |-> ValidateRef(c)]
         [] c.k = "intobj" -> [none |-> TRUE]
         [] c.k = "len" -> [len |-> LenRef(c)]
         [] c.k = "uuid" -> [uuid |-> UuidRef(c)]
         [] c.k = "uuidobj" -> [uuid |-> FALSE]
Emit == PrintT(ToJson([c |-> c, ref |-> Out]))
EmitChars == PrintT(ToJson([s |-> str, lit |-> ParseInt(str), canon |-> Canon(str)]))
=============================================================================
