----------------------------- MODULE MC_ExcTables -----------------------------
(* exception_filter / remove_path_on_error / raise_with_cause decision tables  *)
(* of ExcHelpers, exported case by case                                        *)
EXTENDS Json, TLC, Integers, Sequences
VARIABLE tc
E == INSTANCE ExcHelpers WITH MaxLen <- 0, prog <- <<>>, flag0 <- FALSE, reraise <- FALSE, saved <- 0,
                              done <- FALSE, propagates <- 0, logged <- 0, direct <- FALSE
Cases == {[k |-> "filter", c |-> x, ref |-> E!FilterRef(x)] : x \in E!FilterCases}
         \cup {[k |-> "remove", c |-> x, ref |-> E!RemoveRef(x)] : x \in E!RemoveCases}
         \cup {[k |-> "cause", c |-> x, ref |-> [cause |-> E!CauseRef(x)]] : x \in E!CauseCases}
Init == tc \in Cases
Next == FALSE /\ UNCHANGED tc
Emit == PrintT(ToJson(tc))
\* suppression is decided by the predicate alone, and a raising body is never lost
FilterExact == tc.k = "filter" => (tc.ref.propagates = "none" <=> (tc.c.body = "ok" \/ tc.c.pred \in {"True", "truthy"}))
RemoveThenReraise == (tc.k = "remove" /\ tc.c.body = "raises_exception") => tc.ref.removed
=============================================================================
