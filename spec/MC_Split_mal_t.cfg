INIT InitMal
NEXT NoNext
CONSTANTS
  LFull = 0
  LLong = 0
  CL = 0
  Wide = TRUE
INVARIANT MalformedRejected
CONSTRAINT EmitMal
CHECK_DEADLOCK FALSE
