------------------------------- MODULE NetEnv -------------------------------
(***************************************************************************)
(* netutils helpers that consult the environment, as decision procedures    *)
(* over an abstract environment (growth, G03):                              *)
(*  get_my_ipv4 / get_my_ipv6: connected-socket name, else the first        *)
(*    default route's interface, else the loopback address;                 *)
(*  set_tcp_keepalive: the socket options set, in order.                    *)
(***************************************************************************)
EXTENDS Integers, Sequences, FiniteSets, TLC
VARIABLE c

(* ---- get_my_ipv4 / get_my_ipv6 --------------------------------------------- *)
Routes == {"default:eth0", "default:eth1", "default:ghost", "other:eth0"}      \* destination : interface
IsDefault(r) == r \in {"default:eth0", "default:eth1", "default:ghost"}
Iface(r) == CASE r \in {"default:eth0", "other:eth0"} -> "eth0" [] r = "default:eth1" -> "eth1" [] OTHER -> "ghost"
Tables == {<<>>} \cup {<<a>> : a \in Routes} \cup {<<a, b>> : a \in Routes, b \in Routes}
\* addresses an interface carries, in the order psutil lists them: 4 / 6 are families, the index tells them apart
AddrLists == {<<>>, <<"4a">>, <<"6a">>, <<"4a", "6a">>, <<"6a", "4a">>, <<"4a", "4b">>, <<"6a", "6b", "4a">>, <<"other">>}
Fam(a) == IF a \in {"4a", "4b"} THEN 4 ELSE IF a \in {"6a", "6b"} THEN 6 ELSE 0
AddrCases == {[t |-> "addr", fam |-> f, connect |-> cn, table |-> tb, eth0 |-> e0, eth1 |-> e1, psutil |-> ps] :
                f \in {4, 6}, cn \in {"ok", "oserror"}, tb \in Tables \cup {<<"missing">>},
                e0 \in AddrLists, e1 \in {<<>>, <<"4a", "6a">>}, ps \in {"ok", "raises"}}
RECURSIVE FirstDefault(_)
FirstDefault(tb) == IF tb = <<>> THEN "none" ELSE IF IsDefault(Head(tb)) THEN Iface(Head(tb)) ELSE FirstDefault(Tail(tb))
RECURSIVE FirstOfFam(_, _)
FirstOfFam(as, f) == IF as = <<>> THEN "none" ELSE IF Fam(Head(as)) = f THEN Head(as) ELSE FirstOfFam(Tail(as), f)
\* result: "sock" (the connected socket's own address), "lo" (loopback), or eth0:<addr> / eth1:<addr>
AddrRef(x) ==
  IF x.connect = "ok" THEN <<"sock">>
  ELSE IF x.table = <<"missing">> THEN <<"lo">>
  ELSE LET i == FirstDefault(x.table) IN
    IF i = "none" THEN <<"lo">>
    ELSE IF x.psutil = "raises" THEN <<"lo">>
    ELSE IF i = "ghost" THEN <<"lo">>                          \* an interface psutil does not know
    ELSE LET a == FirstOfFam(IF i = "eth0" THEN x.eth0 ELSE x.eth1, x.fam)
         IN IF a = "none" THEN <<"lo">> ELSE <<i, a>>

(* ---- set_tcp_keepalive -------------------------------------------------------- *)
Opts == {"idle", "intvl", "cnt"}
KaCases == {[t |-> "keepalive", on |-> o, idle |-> i, intvl |-> n, cnt |-> k, has |-> h] :
              o \in {"true", "false", "one", "none"}, i \in BOOLEAN, n \in BOOLEAN, k \in BOOLEAN, h \in SUBSET Opts}
\* the calls made on the socket, in order; "TypeError" when the switch is not a boolean (1 and None are not)
KaRef(x) ==
  IF x.on \in {"one", "none"} THEN [err |-> "TypeError", calls |-> <<>>]
  ELSE IF x.on = "false" THEN [err |-> "none", calls |-> <<"keepalive=false">>]
  ELSE [err |-> "none",
        calls |-> <<"keepalive=true">> \o (IF x.idle /\ "idle" \in x.has THEN <<"idle">> ELSE <<>>)
                  \o (IF x.intvl /\ "intvl" \in x.has THEN <<"intvl">> ELSE <<>>)
                  \o (IF x.cnt /\ "cnt" \in x.has THEN <<"cnt">> ELSE <<>>)]

Cases == AddrCases \cup KaCases
Init == c \in Cases
Next == FALSE /\ UNCHANGED c
Spec == Init /\ [][Next]_c
\* never an address of the wrong family, and loopback exactly when nothing better is known
RightFamily == (c.t = "addr" /\ Len(AddrRef(c)) = 2) => Fam(AddrRef(c)[2]) = c.fam
\* a switched-off keepalive sets nothing else
OffSetsNothingElse == (c.t = "keepalive" /\ c.on = "false") => Len(KaRef(c).calls) = 1
=============================================================================
