INIT InitChars
NEXT Next
CONSTANTS L = 4
INVARIANT WellFormedOnly
CONSTRAINT EmitChars
CHECK_DEADLOCK FALSE
