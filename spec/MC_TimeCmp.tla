------------------------------ MODULE MC_TimeCmp ------------------------------
EXTENDS TimeOverride, Json
VARIABLE cc
CmpInit == cc \in CmpCases /\ Init
CmpNext == FALSE /\ UNCHANGED <<vars, cc>>
EmitCmp == PrintT(ToJson([c |-> cc, tutc |-> TUtc(cc), local |-> Local(cc), older |-> Older(cc), newer |-> Newer(cc), soon |-> Soon(cc)]))
NormOK == NormalizeRight(cc)
=============================================================================
