SPECIFICATION Spec
CONSTANTS
  Days <- MCDays
  Secs = {0, 1, 43200, 86399}
  Micros = {0, 1, 999999}
  MaxDepth = 3
VIEW View
INVARIANT UtcNowIsOverride
INVARIANT Normalised
PROPERTY QueriesLeaveClock
PROPERTY AdvanceExact
ACTION_CONSTRAINT Emit
CHECK_DEADLOCK FALSE
