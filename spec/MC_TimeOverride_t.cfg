SPECIFICATION Spec
CONSTANTS
  Days = {0, 1, 2}
  Secs = {0, 1, 43200, 86399}
  Micros = {0, 1, 999999}
  MaxDepth = 3
VIEW View
INVARIANT UtcNowIsOverride
INVARIANT Normalised
PROPERTY QueriesLeaveClock
PROPERTY AdvanceExact
ACTION_CONSTRAINT Emit
CHECK_DEADLOCK FALSE
