SPECIFICATION TSpec
CONSTRAINT Done
CONSTRAINT Diag
INVARIANT TypeOK
INVARIANT NonNegative
INVARIANT ElapsedIsDistance
INVARIANT MaxRespected
INVARIANT LeftoverRight
INVARIANT ExpiredRight
INVARIANT SplitsMonotone
PROPERTY IllegalPreserves
PROPERTY IllegalExactly
PROPERTY QueriesPure
PROPERTY RestartClears
CHECK_DEADLOCK FALSE
