SPECIFICATION Spec
CONSTRAINT Export
INVARIANT SilentWhenDone
INVARIANT AllIsDefault
INVARIANT OrderFree
INVARIANT MissingSound
CHECK_DEADLOCK FALSE
