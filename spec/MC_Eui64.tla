------------------------------ MODULE MC_Eui64 ------------------------------
EXTENDS Eui64, Json
Out == CASE c.k = "eui" -> [addr |-> Address(c.net, c.plen, c.mac)]
         [] c.k = "err" -> [outcome |-> ErrRef(c)]
         [] c.k = "hp" -> [hp |-> HpRef(c), escaped |-> EscapeRef(c.host)]
         [] c.k = "url" -> [last |-> ParamsRef(c.query, TRUE), all |-> ParamsRef(c.query, FALSE)]
Emit == PrintT(ToJson([c |-> c, ref |-> Out]))
=============================================================================
