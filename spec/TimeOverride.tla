---------------------------- MODULE TimeOverride ----------------------------
(***************************************************************************)
(* oslo_utils.timeutils: the overridable clock (utcnow / utcnow_ts /        *)
(* set_time_override / advance_time_delta / advance_time_seconds /          *)
(* clear_time_override, lines 93-183, and fixture.TimeFixture), the three   *)
(* comparisons (is_older_than, is_newer_than, is_soon), normalize_time and  *)
(* marshall_now / unmarshall_time.                                          *)
(*                                                                         *)
(* TLC integers are 32-bit, so an instant is never one number: it is the    *)
(* triple <<day, second, microsecond>> with Python's normalisation          *)
(* (0 <= second < 86400, 0 <= microsecond < 10^6); day 0 is a base date the *)
(* harness picks so that days 0..2 straddle a year end.  A duration is a    *)
(* triple of the same shape (day may be negative).  Zone offsets are        *)
(* minutes east of UTC.                                                     *)
(***************************************************************************)
EXTENDS Integers, Sequences, TLC

CONSTANTS Days, Secs, Micros      \* the lattice of instants
          , MaxDepth              \* length of call sequences on the clock

VARIABLES override,   \* "none" (<<-1>>) or an instant
          depth, op, arg, res
vars == <<override, depth, op, arg, res>>

None == <<-9>>
Lattice == {<<d, s, u>> : d \in Days, s \in Secs, u \in Micros}

\* normalise a triple (carry microseconds into seconds, seconds into days)
Norm(t) == LET u == t[3] % 1000000
               s1 == t[2] + (t[3] - u) \div 1000000
               s == s1 % 86400
               d == t[1] + (s1 - s) \div 86400
           IN <<d, s, u>>
Add(a, b) == Norm(<<a[1] + b[1], a[2] + b[2], a[3] + b[3]>>)
Sub(a, b) == Norm(<<a[1] - b[1], a[2] - b[2], a[3] - b[3]>>)
Less(a, b) == \/ a[1] < b[1]
              \/ (a[1] = b[1] /\ a[2] < b[2])
              \/ (a[1] = b[1] /\ a[2] = b[2] /\ a[3] < b[3])
Leq(a, b) == a = b \/ Less(a, b)

\* durations used by advance and as thresholds
Deltas == {<<0, 0, 0>>, <<0, 0, 1>>, <<0, 0, -1>>, <<0, 1, 0>>, <<0, -1, 0>>, <<0, 86399, 999999>>,
           <<1, 0, 0>>, <<-1, 0, 0>>, <<0, 0, 500000>>, <<0, 3600, 0>>}

Init == override = None /\ depth = 0 /\ op = "init" /\ arg = None /\ res = None
Ret(o, a, r) == op' = o /\ arg' = a /\ res' = r /\ depth' = depth + 1

SetOverride(t) == override' = t /\ Ret("set", t, None)
Clear == override' = None /\ Ret("clear", None, None)
\* jumps of many centuries that carry a microsecond: still exact (a timedelta, not a float)
FarDeltas == {<<739000, 0, 1>>, <<739000, 3600, 999999>>, <<2900000, 0, 1>>}
\* advance_time_delta(timedelta) / advance_time_seconds(seconds): exact addition
AdvanceDelta(d) == override # None /\ override' = Add(override, d) /\ Ret("advance_delta", d, None)
AdvanceSeconds(d) == override # None /\ override' = Add(override, d) /\ Ret("advance_seconds", d, None)
\* utcnow() / utcnow_ts() return the overridden instant and leave it alone
UtcNow == override # None /\ UNCHANGED override /\ Ret("utcnow", None, override)
UtcNowTs(micro) == override # None /\ UNCHANGED override
                   /\ Ret(IF micro THEN "utcnow_ts_micro" ELSE "utcnow_ts", None,
                          IF micro THEN override ELSE <<override[1], override[2], 0>>)

Next == depth < MaxDepth /\
        \/ (\E t \in Lattice : SetOverride(t)) \/ Clear
        \/ (\E d \in Deltas : AdvanceDelta(d) \/ AdvanceSeconds(d))
        \/ (\E d \in FarDeltas : override # None /\ override[1] >= 0 /\ override[1] <= 2 /\ AdvanceDelta(d))
        \/ UtcNow \/ UtcNowTs(TRUE) \/ UtcNowTs(FALSE)
Spec == Init /\ [][Next]_vars

(* C12, clock part *)
UtcNowIsOverride == op \in {"utcnow", "utcnow_ts_micro"} => res = override
QueriesLeaveClock == [][op' \in {"utcnow", "utcnow_ts", "utcnow_ts_micro"} => override' = override]_vars
AdvanceExact == [][op' \in {"advance_delta", "advance_seconds"} => Sub(override', override) = Norm(arg')]_vars
Normalised == override # None => (override[2] >= 0 /\ override[2] < 86400 /\ override[3] >= 0 /\ override[3] < 1000000)

-----------------------------------------------------------------------------
(* Comparisons under an overridden clock; t is given relative to now, in a    *)
(* zone with the given offset, as naive (offset must be 0), aware or ISO text *)
Offsets == {0, 1, -1, 60, -60, 90, -90, 1439, -1439}
Forms == {"naive", "aware", "iso"}
Rel == {<<0, 0, 0>>, <<0, 0, 1>>, <<0, 0, -1>>, <<0, 1, 0>>, <<0, -1, 0>>, <<1, 0, 0>>, <<-1, 0, 0>>,
        <<0, 0, 500000>>, <<0, -3600, 0>>}
Thresholds == {<<0, 0, 0>>, <<0, 0, 1>>, <<0, 1, 0>>, <<0, -1, 0>>, <<0, 0, 500000>>, <<1, 0, 0>>,
               <<0, 0, 999999>>, <<0, 3600, 0>>, <<0, 0, -1>>}
\* instants centuries away from the clock (year 1 .. year 9999 relative to the base
\* date): the gap exceeds / equals / falls short of a whole-second threshold by one
\* microsecond -- exactness at microsecond resolution over the representable range
FarDays == {739000, -739000, 2912000}      \* year 4048, year 1, year 9997 from the base date
FarRel == {<<d, 0, u>> : d \in FarDays, u \in {0, 1, -1}}
FarCases == {[now |-> <<1, 0, 0>>, rel |-> r, off |-> o, form |-> f,
              thr |-> <<IF r[1] < 0 THEN -r[1] ELSE r[1], 0, 0>>] :
               r \in FarRel, o \in {0, 90, -1439}, f \in Forms}
\* the ends of the representable range (datetime.min / datetime.max relative to the base date):
\* the comparisons are differences of instants and must not need an instant outside the range
MaxInstant == <<2912809, 86399, 999999>>
MinInstant == <<-739249, 0, 0>>
EdgeCases == {[now |-> Sub(MaxInstant, <<0, 30, 0>>), rel |-> <<0, 30, 0>>, off |-> 0, form |-> f, thr |-> s] :
                f \in {"naive", "aware"}, s \in {<<0, 60, 0>>, <<0, 30, 0>>, <<0, 29, 999999>>, <<0, -1, 0>>}}
        \cup {[now |-> Add(MinInstant, <<0, 30, 0>>), rel |-> <<0, -30, 0>>, off |-> 0, form |-> f, thr |-> s] :
                f \in {"naive", "aware"}, s \in {<<0, 60, 0>>, <<0, 30, 0>>, <<0, 29, 999999>>, <<0, -1, 0>>}}
CmpCases == {[now |-> n, rel |-> r, off |-> o, form |-> f, thr |-> s] :
               n \in Lattice, r \in Rel, o \in Offsets, f \in Forms, s \in Thresholds}
            \cup FarCases \cup EdgeCases
\* the UTC instant t denotes is now + rel (gamma renders it in the zone `off`)
TUtc(x) == Add(x.now, x.rel)
\* is_older_than(t, s)  <=>  now - t > s
Older(x) == Less(Norm(x.thr), Sub(x.now, TUtc(x)))
\* is_newer_than(t, s)  <=>  t - now > s
Newer(x) == Less(Norm(x.thr), Sub(TUtc(x), x.now))
\* is_soon(t, w)        <=>  t <= now + w
Soon(x) == Leq(TUtc(x), Add(x.now, x.thr))
\* normalize_time: local instant minus offset; identity on naive
Local(x) == Add(TUtc(x), <<0, x.off * 60, 0>>)
NormalizeRight(x) == Add(Local(x), <<0, -(x.off * 60), 0>>) = TUtc(x)

(* model-level sanity: strictness at the boundary *)
ASSUME BoundaryStrict ==
  \A n \in {<<1, 0, 0>>} : \A r \in Rel :
     LET x == [now |-> n, rel |-> r, off |-> 0, form |-> "naive", thr |-> Sub(n, Add(n, r))]
     IN ~Older(x)      \* now - t = s exactly is NOT older
=============================================================================
