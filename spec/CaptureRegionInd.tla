-------------------------- MODULE CaptureRegionInd --------------------------
(***************************************************************************)
(* Unbounded-integer fragment of the capture arithmetic, for Apalache.      *)
(*                                                                         *)
(* One CaptureRegion(off, len) that exists before its first byte is         *)
(* presented, fed by chunks of arbitrary non-negative length k (the code of *)
(* CaptureRegion.capture after the D7 repair, with FileInspector._capture's *)
(* "skip complete regions"), and one EndCaptureRegion(elen) present from    *)
(* the start.  IndInv is inductive:                                         *)
(*     n  = Clamp(pos - off, 0, len)     what is held is a prefix of the    *)
(*                                       region, never more than len        *)
(*     en = Min(elen, pos), eoff = pos - en   the end region is the tail    *)
(* for every off, len, elen, pos, k in the naturals -- this removes the     *)
(* bound N <= 8 of the TLC exploration for the window arithmetic            *)
(* (C01 Faithful / EndFaithful, C05 MemoryBound's per-region cap).          *)
(* Checked with:                                                            *)
(*   apalache-mc check --init=IndInit --inv=IndInv --length=1  (step)       *)
(*   apalache-mc check --init=Init    --inv=IndInv --length=0  (base)       *)
(***************************************************************************)
EXTENDS Integers

VARIABLES
  \* @type: Int;
  off,
  \* @type: Int;
  len,
  \* @type: Int;
  elen,
  \* @type: Int;
  pos,
  \* @type: Int;
  n,
  \* @type: Int;
  en,
  \* @type: Int;
  eoff

Min(a, b) == IF a < b THEN a ELSE b
Max(a, b) == IF a > b THEN a ELSE b
Clamp(x, lo, hi) == Max(lo, Min(x, hi))

Init == /\ off \in Nat /\ len \in Nat /\ elen \in Nat
        /\ pos = 0 /\ n = 0 /\ en = 0 /\ eoff = elen        \* EndCaptureRegion starts with offset = length

\* eat_chunk with a chunk of length k
Feed(k) ==
  /\ k >= 0
  /\ LET rs == pos
         p == pos + k
         wanted == off + n
     IN /\ pos' = p
        \* CaptureRegion.capture (skipped once complete)
        /\ IF n = len THEN n' = n
           ELSE IF rs <= wanted /\ wanted <= p THEN n' = Min(len, n + (p - wanted))
           ELSE n' = n
        \* EndCaptureRegion.capture
        /\ en' = Min(elen, en + k)
        /\ eoff' = p - en'
  /\ UNCHANGED <<off, len, elen>>

Next == \E k \in Nat : Feed(k)

IndInv == /\ off >= 0 /\ len >= 0 /\ elen >= 0 /\ pos >= 0
          /\ n = Clamp(pos - off, 0, len)
          /\ en = Min(elen, pos)
          /\ (pos > 0 \/ elen = 0 => eoff = pos - en)
          /\ n <= len /\ en <= elen

IndInit == /\ off \in Nat /\ len \in Nat /\ elen \in Nat /\ pos \in Nat
           /\ n \in Int /\ en \in Int /\ eoff \in Int
           /\ IndInv
=============================================================================
