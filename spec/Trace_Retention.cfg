SPECIFICATION TSpec
CONSTRAINT Done
CONSTRAINT Diag
INVARIANT MemoryBound
CHECK_DEADLOCK FALSE
