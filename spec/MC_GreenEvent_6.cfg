SPECIFICATION Spec
CONSTANT MaxLen = 6
INVARIANT UntimedNeverFalse
INVARIANT NoLostWakeup
INVARIANT TrueNeedsSet
INVARIANT BlockedOnUnsent
CONSTRAINT Export
CHECK_DEADLOCK FALSE
