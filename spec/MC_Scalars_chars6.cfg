INIT InitChars
NEXT NextChars
CONSTANTS L = 6
INVARIANT CanonIsLiteral
CONSTRAINT EmitChars
CHECK_DEADLOCK FALSE
