INIT InitChars
NEXT NextChars
CONSTANTS L = 5
INVARIANT CanonIsLiteral
CONSTRAINT EmitChars
CHECK_DEADLOCK FALSE
