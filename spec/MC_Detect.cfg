SPECIFICATION Spec
INVARIANT Exclusive
INVARIANT MultiIsError
INVARIANT RawOnlyAlone
INVARIANT AllowedOnly
INVARIANT Total
CONSTRAINT Emit
CHECK_DEADLOCK FALSE
