-------------------------------- MODULE Consts --------------------------------
(***************************************************************************)
(* Small tables of oslo.utils that other code relies on (growth, G05):      *)
(*  units: every constant is base ^ exponent with the same prefix ->        *)
(*    exponent table that string_to_bytes uses (Units.tla), binary prefixes *)
(*    on 1024, decimal ones on 1000;                                        *)
(*  secretutils.crypt_mksalt: method -> '$6$' / '$5$' + 16 characters of    *)
(*    [A-Za-z0-9./]; anything else is a ValueError; md5() is hashlib's.     *)
(* Powers beyond 2^31 cannot be TLC integers: the table carries base and    *)
(* exponent, gamma computes the power.                                      *)
(***************************************************************************)
EXTENDS Integers, Sequences, FiniteSets, TLC
VARIABLE c

Prefixes == <<"K", "M", "G", "T", "P", "E", "Z", "Y", "R", "Q">>       \* exponent = position
UnitConsts == {[name |-> Prefixes[i] \o "i", base |-> 1024, exp |-> i] : i \in 1..10}
         \cup {[name |-> IF i = 1 THEN "k" ELSE Prefixes[i], base |-> 1000, exp |-> i] : i \in 1..10}
Methods == {"SHA-512", "SHA-256", "MD5", "DES", "sha-512", "SHA512", ""}
SaltRef(m) == IF m = "SHA-512" THEN [k |-> "salt", prefix |-> "$6$", n |-> 16]
              ELSE IF m = "SHA-256" THEN [k |-> "salt", prefix |-> "$5$", n |-> 16]
              ELSE [k |-> "ValueError", prefix |-> "", n |-> 0]
Cases == {[t |-> "unit", u |-> u] : u \in UnitConsts} \cup {[t |-> "salt", m |-> m] : m \in Methods}
Init == c \in Cases
Next == FALSE /\ UNCHANGED c
Spec == Init /\ [][Next]_c
\* consecutive constants of one family differ by exactly the base
ASSUME \A u \in UnitConsts : u.exp \in 1..10 /\ u.base \in {1000, 1024}
ASSUME Cardinality({u.name : u \in UnitConsts}) = 20
=============================================================================
