SPECIFICATION Spec
CONSTANTS
  N = 6
  Alpha = {0,1,2,3}
  Fmt = "fixed"
  Dev = {}
INVARIANT Faithful
INVARIANT EndFaithful
INVARIANT ChunkIndependent
INVARIANT ErrIsRejected
INVARIANT MemoryBound
INVARIANT ZeroWhileUnknown
PROPERTY NoDataAfterFinish
PROPERTY QueriesArePure
PROPERTY PosMonotone
CHECK_DEADLOCK FALSE
