-------------------------------- MODULE Files --------------------------------
(***************************************************************************)
(* C20.  oslo_utils.fileutils:                                              *)
(*  (a) the read loop of compute_file_checksum as a transition system:      *)
(*      Read takes min(chunk, remaining) bytes; the loop ends at the first  *)
(*      empty read; invariant: when done, the pieces fed to the digest are  *)
(*      exactly the content, in order, none twice.  (The digest itself is   *)
(*      hashlib on both sides.)                                             *)
(*  (b) last_bytes(size, n) = the final min(n, size) bytes and the number   *)
(*      of bytes before them.                                               *)
(*  (c) a tiny file-system transition system over the nested paths          *)
(*      a, a/b, a/b/c with ensure_tree, delete_if_exists, write_to_tempfile *)
(*      and the errno filter: which errors of the underlying call are       *)
(*      swallowed (EEXIST on a directory; ENOENT) and which propagate.      *)
(***************************************************************************)
EXTENDS Integers, Sequences, FiniteSets, TLC

CONSTANTS MaxLen      \* largest content length of the read-loop model

VARIABLES n, k, pos, pieces, done,       \* (a)
          fs, op, arg, res, depth        \* (c)
vars == <<n, k, pos, pieces, done, fs, op, arg, res, depth>>

Min(a, b) == IF a < b THEN a ELSE b

(* ---- (a) read loop ---- *)
ChunkSizes == {1, 2, 7, 64, 1000}
RInit == /\ n \in 0..MaxLen /\ k \in ChunkSizes /\ pos = 0 /\ pieces = <<>> /\ done = FALSE
         /\ fs = <<"x">> /\ op = "none" /\ arg = 0 /\ res = "none" /\ depth = 0
Read == /\ ~done
        /\ LET got == Min(k, n - pos) IN
           IF got = 0 THEN done' = TRUE /\ UNCHANGED <<pos, pieces>>
           ELSE /\ pieces' = Append(pieces, <<pos, got>>) /\ pos' = pos + got /\ UNCHANGED done
        /\ UNCHANGED <<n, k, fs, op, arg, res, depth>>
RNext == Read
\* the pieces tile [0, pos) without gap or overlap, each at most one chunk
Tiled == /\ \A i \in 1..Len(pieces) : pieces[i][2] >= 1 /\ pieces[i][2] <= k
         /\ (pieces # <<>> => pieces[1][1] = 0)
         /\ \A i \in 1..(Len(pieces) - 1) : pieces[i + 1][1] = pieces[i][1] + pieces[i][2]
         /\ (pieces # <<>> => pieces[Len(pieces)][1] + pieces[Len(pieces)][2] = pos)
         /\ (pieces = <<>> => pos = 0)
WholeContent == done => pos = n
OnlyLastShort == \A i \in 1..(Len(pieces) - 1) : pieces[i][2] = k

(* ---- (b) last_bytes ---- *)
LastBytes(size, num) == [start |-> size - Min(num, size), len |-> Min(num, size)]

(* ---- (b2) what stands at the path: links ---- *)
\* ensure_tree / delete_if_exists when the last component is a symbolic link.  "A directory" is what the path resolves
\* to (the work is done if a directory can be reached through it); removing a link removes the link, not its target.
PathKinds == {"dir", "link_to_dir", "link_to_file", "dangling_link", "file", "missing"}
LinkCases == {[op |-> o, kind |-> kd] : o \in {"ensure_tree", "delete_if_exists"}, kd \in PathKinds}
\* [res: "ok" | "raises", path: what stands at the path afterwards, target: the link's target still there]
LinkRef(x) ==
  IF x.op = "ensure_tree"
  THEN IF x.kind \in {"dir", "link_to_dir"} THEN [res |-> "ok", path |-> x.kind, target |-> TRUE]
       ELSE IF x.kind = "missing" THEN [res |-> "ok", path |-> "dir", target |-> TRUE]
       ELSE [res |-> "raises", path |-> x.kind, target |-> TRUE]
  ELSE IF x.kind = "dir" THEN [res |-> "raises", path |-> "dir", target |-> TRUE]          \* unlink of a directory is an error other than not-found
       ELSE [res |-> "ok", path |-> "missing", target |-> TRUE]

(* ---- (c) file system ---- *)
\* fs = <<kind of a, kind of a/b, kind of a/b/c>>, kinds: "m" missing, "f" file, "d" dir
WellFormed(s) == /\ (s[2] # "m" => s[1] = "d") /\ (s[3] # "m" => s[2] = "d")
States == {s \in [1..3 -> {"m", "f", "d"}] : WellFormed(s)}
FInit == /\ fs \in States /\ op = "init" /\ arg = 0 /\ res = "none" /\ depth = 0
         /\ n = 0 /\ k = 1 /\ pos = 0 /\ pieces = <<>> /\ done = TRUE
AncestorIsFile(s, p) == \E i \in 1..(p - 1) : s[i] = "f"
AncestorMissing(s, p) == \E i \in 1..(p - 1) : s[i] = "m"
\* ensure_tree(path p): succeeds when the work is already done
EnsureTree(p) ==
  /\ IF AncestorIsFile(fs, p) \/ fs[p] = "f"
     THEN res' = "raises" /\ UNCHANGED fs
     ELSE res' = "ok" /\ fs' = [i \in 1..3 |-> IF i <= p THEN "d" ELSE fs[i]]
  /\ op' = "ensure_tree" /\ arg' = p
\* delete_if_exists(path p)
DeleteIfExists(p) ==
  /\ IF AncestorIsFile(fs, p) \/ fs[p] = "d"
     THEN res' = "raises" /\ UNCHANGED fs
     ELSE IF fs[p] = "f" THEN res' = "ok" /\ fs' = [fs EXCEPT ![p] = "m"]
     ELSE res' = "ok" /\ UNCHANGED fs                       \* not found: nothing to do
  /\ op' = "delete_if_exists" /\ arg' = p
\* write_to_tempfile(content, path=p): parents are created, a NEW file appears in p
WriteTemp(p) ==
  /\ IF AncestorIsFile(fs, p) \/ fs[p] = "f"
     THEN res' = "raises" /\ UNCHANGED fs
     ELSE res' = "created" /\ fs' = [i \in 1..3 |-> IF i <= p THEN "d" ELSE fs[i]]
  /\ op' = "write_to_tempfile" /\ arg' = p
FNext == /\ depth < 3 /\ depth' = depth + 1
         /\ \E p \in 1..3 : EnsureTree(p) \/ DeleteIfExists(p) \/ WriteTemp(p)
         /\ UNCHANGED <<n, k, pos, pieces, done>>

\* idempotence: a second identical call changes nothing and succeeds when the first did
Idempotent ==
  [][ (op' = op /\ arg' = arg /\ op \in {"ensure_tree", "delete_if_exists"} /\ res = "ok")
        => (res' = "ok" /\ fs' = fs) ]_vars
StaysWellFormed == WellFormed(fs)

\* the errno filter of the underlying call (os.makedirs / remove)
Errnos == {"EEXIST", "ENOENT", "EACCES", "EPERM", "ENOTDIR", "EISDIR", "EIO", "ENOSPC", "EROFS", "OTHER"}
Swallowed(fn, e, pathIsDir) == CASE fn = "ensure_tree" -> e = "EEXIST" /\ pathIsDir
                                 [] fn = "delete_if_exists" -> e = "ENOENT"
ErrnoCases == {[fn |-> f, e |-> e, isdir |-> d] : f \in {"ensure_tree", "delete_if_exists"}, e \in Errnos, d \in BOOLEAN}
OnlyTwoSwallowed == \A x \in ErrnoCases : Swallowed(x.fn, x.e, x.isdir) =>
                       (x.e \in {"EEXIST", "ENOENT"})
=============================================================================
