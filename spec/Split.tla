------------------------------- MODULE Split -------------------------------
(***************************************************************************)
(* C19: strutils.split_path and strutils.split_by_commas as reference       *)
(* functions, written from the property statement and the docstrings.       *)
(*                                                                         *)
(* split_path.  A path text is a sequence of FIELDS joined by "/"; a field  *)
(* is one of four classes: "p" plain word, "e" the empty string, "d" a      *)
(* dotted word (".", "..", "a.b"), "s" a word with spaces.  The generator    *)
(* builds   [ "/" ] seg "/" seg ... [ "/" ]   from lead / segs / trail; the  *)
(* reference never looks at lead / segs / trail but only at Fields(..), the *)
(* "/"-separated fields of the rendered text, so two abstract cases that    *)
(* render to the same text (no segment = one empty segment) necessarily get *)
(* the same verdict.  The path "starts with /" iff its first field is empty *)
(* and a second field exists; its SEGMENTS are the fields after the first.  *)
(* An entry of the result is [none, toks]: None, or the concatenation of    *)
(* toks (classes and "/" symbols; "e" renders to nothing).                  *)
(*                                                                         *)
(* split_by_commas.  Text is a sequence of character classes:               *)
(*   L letter  D digit  P other punctuation  A apostrophe                   *)
(*   C comma   Q double quote   B backslash   S space                       *)
(* SplitRef parses   item ("," item)*   where an item is either bare (one   *)
(* or more characters other than comma / double quote) or quoted ('"', then *)
(* ordinary characters or backslash + character, then '"', followed by a    *)
(* comma or the end).  Encode is the writer of the statement: items that    *)
(* are empty or contain C, Q, B, S are double-quoted, Q and B are escaped   *)
(* with a backslash, items are joined with commas.                          *)
(*                                                                         *)
(* Left open by the property, hence not compared (verdict "unspecified") or *)
(* not generated:                                                           *)
(*  - a space outside quotes (the writer never emits one; the library's     *)
(*    tokenizer skips blanks there);                                        *)
(*  - backslash + a character other than '"' or '\' inside quotes (the      *)
(*    writer never emits it; only the VALUE is open, the structure is       *)
(*    still checked: such a text is rejected when it is unbalanced);        *)
(*  - control characters, newlines and non-ASCII text;                      *)
(*  - maxsegs = 0: the statement lists it next to None and the function     *)
(*    treats every false value as "not given" (maxsegs := minsegs); the     *)
(*    reference follows that reading, see Unset;                            *)
(*  - minsegs < 1 and non-string paths.                                     *)
(* A bare backslash is an ordinary character of a bare item, and the empty  *)
(* item exists only in its quoted spelling "" (an empty bare item is an     *)
(* error by the statement).                                                 *)
(***************************************************************************)
EXTENDS Integers, Sequences, FiniteSets, TLC

CONSTANTS LFull,     \* paths: every sequence of 0..LFull segments over the four classes
          LLong,     \* paths: LFull+1..LLong segments over {plain, empty}
          CL,        \* split_by_commas: every character sequence up to this length
          Wide       \* larger item pools (thorough tier)

VARIABLE c
vars == <<c>>

(* ======================= split_path ===================================== *)
Kinds == {"p", "e", "d", "s"}
None == [none |-> TRUE, toks |-> <<>>]
Seg(t) == [none |-> FALSE, toks |-> t]
ValueError == [err |-> "ValueError", out |-> <<>>]
Ok(o) == [err |-> "none", out |-> o]

\* the "/"-separated fields of the rendered text
Fields(lead, segs, trail) ==
  (IF lead THEN <<"e">> ELSE <<>>) \o (IF Len(segs) = 0 THEN <<"e">> ELSE segs)
     \o (IF trail THEN <<"e">> ELSE <<>>)

RECURSIVE JoinSl(_)
JoinSl(S) == IF Len(S) = 0 THEN <<>>
             ELSE IF Len(S) = 1 THEN <<S[1]>>
             ELSE <<S[1], "/">> \o JoinSl(Tail(S))

\* F: fields (non-empty sequence); maxset = FALSE: maxsegs not given
SplitPath(F, min, maxset, max, rest) ==
  LET M == IF maxset THEN max ELSE min
      S == Tail(F)
      n == Len(S)
      Entry(i) == IF i > n THEN None
                  ELSE IF rest /\ i = M THEN Seg(JoinSl(SubSeq(S, M, n)))   \* the remainder stays in the last entry
                  ELSE Seg(<<S[i]>>)
  IN IF min > M THEN ValueError
     ELSE IF ~(Len(F) >= 2 /\ F[1] = "e") THEN ValueError                  \* does not start with "/"
     ELSE IF n < min \/ (\E i \in 1..min : S[i] = "e") THEN ValueError     \* too few / empty required segment
     ELSE IF ~rest /\ ~(n <= M \/ (n = M + 1 /\ S[n] = "e")) THEN ValueError  \* trailing data (one trailing "/" tolerated)
     ELSE Ok([i \in 1..M |-> Entry(i)])

Params ==
  UNION {{[min |-> m, maxk |-> "none", max |-> 0, rest |-> r] : r \in BOOLEAN}
         \cup {[min |-> m, maxk |-> "num", max |-> x, rest |-> r] : x \in {0} \cup ((m - 1)..(m + 2)), r \in BOOLEAN}
         : m \in 1..4}
SegSeqs == UNION {[1..n -> Kinds] : n \in 0..LFull}
           \cup UNION {[1..n -> {"p", "e"}] : n \in (LFull + 1)..LLong}
\* the family of path cases is every record
\*   [k |-> "path", lead |-> l, segs |-> s, trail |-> t, p |-> p],  l, t \in BOOLEAN, s \in SegSeqs, p \in Params;
\* it is spelt with \E in InitPath below: TLC evaluates constant definitions eagerly and
\* would build and sort the whole set before the first state otherwise.

Unset(p) == p.maxk = "none" \/ p.max = 0
EffMax(p) == IF Unset(p) THEN p.min ELSE p.max
PathRefR(x, rest) == SplitPath(Fields(x.lead, x.segs, x.trail), x.p.min, ~Unset(x.p), x.p.max, rest)
PathRef(x) == PathRefR(x, x.p.rest)

\* what the entries spell when joined with "/" again
RECURSIVE Spell(_)
Spell(o) == IF Len(o) = 0 \/ o[1].none THEN <<>>
            ELSE IF Len(o) = 1 \/ o[2].none THEN o[1].toks
            ELSE o[1].toks \o <<"/">> \o Spell(Tail(o))

(* ---- C19 on the model: split_path ---- *)
IsPath == c.k = "path"
\* exactly maxsegs entries
LengthIsMax == IsPath /\ PathRef(c).err = "none" => Len(PathRef(c).out) = EffMax(c.p)
\* None only as padding at the end; the first minsegs entries are real and non-empty
NonePadsTheEnd == IsPath /\ PathRef(c).err = "none" =>
   LET o == PathRef(c).out IN
   /\ \A i \in 1..Len(o) : \A j \in 1..Len(o) : (i < j /\ o[i].none) => o[j].none
   /\ \A i \in 1..c.p.min : ~o[i].none /\ o[i].toks # <<"e">>
MinAboveMaxRaises == IsPath /\ ~Unset(c.p) /\ c.p.min > c.p.max => PathRef(c).err = "ValueError"
NeedsLeadingSlash == IsPath /\ PathRef(c).err = "none" =>
   LET F == Fields(c.lead, c.segs, c.trail) IN Len(F) >= 2 /\ F[1] = "e"
\* nothing is invented or lost: the entries spell the text after the leading "/",
\* up to the single tolerated trailing "/"
NothingLost == IsPath /\ PathRef(c).err = "none" =>
   LET S == Tail(Fields(c.lead, c.segs, c.trail))
       sp == Spell(PathRef(c).out)
   IN sp = JoinSl(S) \/ (~c.p.rest /\ S[Len(S)] = "e" /\ sp \o <<"/", "e">> = JoinSl(S))
\* rest_with_last only widens: whatever is accepted without it is accepted with it
RestOnlyWidens == IsPath /\ PathRefR(c, FALSE).err = "none" => PathRefR(c, TRUE).err = "none"
\* without rest_with_last no entry ever contains a "/"
NoSlashWithoutRest == IsPath /\ ~c.p.rest /\ PathRef(c).err = "none" =>
   \A i \in 1..Len(PathRef(c).out) : Len(PathRef(c).out[i].toks) <= 1

(* ======================= split_by_commas ================================ *)
CharsAll == {"L", "D", "P", "A", "C", "Q", "B", "S"}
Special == {"C", "Q", "B", "S"}
CVE == [err |-> "ValueError", items |-> <<>>]
COk(xs) == [err |-> "none", items |-> xs]
CUnspec == [err |-> "unspecified", items |-> <<>>]

(* -- the writer -- *)
NeedsQuote(x) == Len(x) = 0 \/ \E i \in 1..Len(x) : x[i] \in Special
RECURSIVE Esc(_)
Esc(x) == IF Len(x) = 0 THEN <<>>
          ELSE (IF Head(x) \in {"Q", "B"} THEN <<"B", Head(x)>> ELSE <<Head(x)>>) \o Esc(Tail(x))
Quote(x, force) == IF force \/ NeedsQuote(x) THEN <<"Q">> \o Esc(x) \o <<"Q">> ELSE x
RECURSIVE JoinC(_)
JoinC(ws) == IF Len(ws) = 0 THEN <<>>
             ELSE IF Len(ws) = 1 THEN ws[1]
             ELSE ws[1] \o <<"C">> \o JoinC(Tail(ws))
Encode(xs, force) == JoinC([i \in 1..Len(xs) |-> Quote(xs[i], force)])

(* -- the reader -- *)
\* a space outside quotes anywhere in the text (plain left-to-right scan)
RECURSIVE BareSpace(_, _, _)
BareSpace(q, i, inq) ==
  IF i > Len(q) THEN FALSE
  ELSE IF inq THEN (IF q[i] = "B" THEN BareSpace(q, i + 2, TRUE)
                    ELSE BareSpace(q, i + 1, q[i] # "Q"))
  ELSE IF q[i] = "S" THEN TRUE
  ELSE BareSpace(q, i + 1, q[i] = "Q")

\* inside quotes at i; v = value so far; fz = an escape of an ordinary character was seen
RECURSIVE Quoted(_, _, _, _)
Quoted(q, i, v, fz) ==
  IF i > Len(q) THEN [st |-> "bad", val |-> <<>>, nx |-> 0, fz |-> fz]          \* unbalanced
  ELSE IF q[i] = "Q" THEN [st |-> "ok", val |-> v, nx |-> i + 1, fz |-> fz]
  ELSE IF q[i] = "B" THEN
         IF i + 1 > Len(q) THEN [st |-> "bad", val |-> <<>>, nx |-> 0, fz |-> fz]
         ELSE Quoted(q, i + 2, Append(v, q[i + 1]), fz \/ q[i + 1] \notin {"Q", "B"})
  ELSE Quoted(q, i + 1, Append(v, q[i]), fz)

RECURSIVE BareEnd(_, _)
BareEnd(q, i) == IF i > Len(q) \/ q[i] \in {"C", "Q"} THEN i ELSE BareEnd(q, i + 1)

RECURSIVE Items(_, _, _, _)
Items(q, i, acc, fz) ==
  LET After(j, acc2, fz2) ==
        IF j > Len(q) THEN (IF fz2 THEN CUnspec ELSE COk(acc2))
        ELSE IF q[j] = "C" THEN Items(q, j + 1, acc2, fz2)
        ELSE CVE                                         \* text after a closing quote
  IN IF i > Len(q) THEN CVE                              \* empty text / nothing after a comma
     ELSE IF q[i] = "C" THEN CVE                         \* empty unquoted item
     ELSE IF q[i] = "Q" THEN
            LET r == Quoted(q, i + 1, <<>>, fz)
            IN IF r.st = "bad" THEN CVE ELSE After(r.nx, Append(acc, r.val), r.fz)
     ELSE LET j == BareEnd(q, i)
          IN IF j <= Len(q) /\ q[j] = "Q" THEN CVE       \* quote inside an unquoted item
             ELSE After(j, Append(acc, SubSeq(q, i, j - 1)), fz)

SplitRef(q) == IF BareSpace(q, 1, FALSE) THEN CUnspec ELSE Items(q, 1, <<>>, FALSE)

(* -- families -- *)
SeqsUpTo(A, n) == UNION {[1..m -> A] : m \in 0..n}
ListsOf(P, n) == [1..n -> P]
Pool1 == SeqsUpTo(CharsAll, IF Wide THEN 4 ELSE 3)
Pool2 == SeqsUpTo({"L", "C", "Q", "B", "S", "A"}, 2) \cup (IF Wide THEN SeqsUpTo({"L", "C", "Q", "B"}, 3) ELSE {})
Pool3 == {<<>>, <<"L">>, <<"C">>, <<"Q">>, <<"B">>, <<"S">>, <<"B", "Q">>, <<"L", "C", "L">>}
         \cup (IF Wide THEN {<<"Q", "C", "Q">>, <<"B", "B">>, <<"D", "P">>, <<"A">>} ELSE {})
Pool4 == {<<"L">>, <<"C">>, <<"Q">>, <<"B">>, <<"B", "Q">>} \cup (IF Wide THEN {<<>>, <<"S">>} ELSE {})
Pool5 == {<<"L", "D">>, <<"Q", "C">>, <<"B">>, <<"S", "Q">>} \cup (IF Wide THEN {<<"C">>} ELSE {})
ItemCases ==
  {[k |-> "items", items |-> xs, force |-> f] :
      xs \in ListsOf(Pool1, 1) \cup ListsOf(Pool2, 2) \cup ListsOf(Pool3, 3), f \in BOOLEAN}
  \cup {[k |-> "items", items |-> xs, force |-> FALSE] : xs \in ListsOf(Pool4, 4) \cup ListsOf(Pool5, 5)}

CharCases == {[k |-> "chars", q |-> q] : q \in SeqsUpTo({"L", "C", "Q", "B", "S"}, CL)}

\* malformed quoting: a well-formed list with one item spoilt
Patterns == {"unclosed", "unopened", "trailing", "leading", "adjacent", "emptyitem", "dangling", "lonequote"}
Spoil(x, pat) ==
  CASE pat = "unclosed"  -> <<"Q">> \o Esc(x)                         \* "abc
    [] pat = "unopened"  -> Esc(x) \o <<"Q">>                         \* abc"
    [] pat = "trailing"  -> Quote(x, TRUE) \o <<"L">>                 \* "abc"x
    [] pat = "leading"   -> <<"L">> \o Quote(x, TRUE)                 \* x"abc"
    [] pat = "adjacent"  -> Quote(x, TRUE) \o Quote(x, TRUE)          \* "abc""abc"
    [] pat = "emptyitem" -> <<>>                                      \* a,,b   ,a   a,
    [] pat = "dangling"  -> <<"Q">> \o Esc(x) \o <<"B", "Q">>         \* "abc\"
    [] pat = "lonequote" -> <<"L", "Q", "L">>                         \* a"b
MalBase == {<<"L">>, <<"L", "D">>, <<"L", "C", "L">>, <<"A", "L">>, <<"P">>, <<"L", "B", "L">>, <<"Q">>}
MalCases == {[k |-> "mal", items |-> xs, at |-> j, pat |-> p, force |-> f] :
               xs \in ListsOf(MalBase, 1) \cup ListsOf(MalBase, 2)
                        \cup ListsOf(IF Wide THEN MalBase ELSE {<<"L">>, <<"L", "C", "L">>, <<"Q">>}, 3),
               j \in 1..3, p \in Patterns, f \in BOOLEAN}
MalText(x) == JoinC([i \in 1..Len(x.items) |->
                      IF i = x.at THEN Spoil(x.items[i], x.pat) ELSE Quote(x.items[i], x.force)])

(* ---- C19 on the model: split_by_commas ---- *)
\* reading inverts writing
ReadInvertsWrite == c.k = "items" => SplitRef(Encode(c.items, c.force)) = COk(c.items)
\* every spoilt text is rejected
MalformedRejected == c.k = "mal" /\ c.at <= Len(c.items) => SplitRef(MalText(c)).err = "ValueError"
\* whatever is accepted can be written again and read back to the same items
WriteInvertsRead == c.k = "chars" /\ SplitRef(c.q).err = "none" =>
   SplitRef(Encode(SplitRef(c.q).items, FALSE)) = SplitRef(c.q)
\* no empty unquoted item at either end, no empty text
NoEmptyBareItem == c.k = "chars" /\ SplitRef(c.q).err = "none" =>
   Len(c.q) >= 1 /\ c.q[1] # "C" /\ c.q[Len(c.q)] # "C"
\* quotes are balanced (texts without backslash: an even number of quotes)
QuotesBalanced == c.k = "chars" /\ SplitRef(c.q).err = "none" /\ (\A i \in 1..Len(c.q) : c.q[i] # "B") =>
   Cardinality({i \in 1..Len(c.q) : c.q[i] = "Q"}) % 2 = 0
\* without quotes the commas alone decide the number of items
CommasCount == c.k = "chars" /\ SplitRef(c.q).err = "none" /\ (\A i \in 1..Len(c.q) : c.q[i] # "Q") =>
   Len(SplitRef(c.q).items) = 1 + Cardinality({i \in 1..Len(c.q) : c.q[i] = "C"})

(* ======================= enumeration ==================================== *)
InitPath == \E l \in BOOLEAN, s \in SegSeqs, t \in BOOLEAN, p \in Params :
               c = [k |-> "path", lead |-> l, segs |-> s, trail |-> t, p |-> p]
InitItems == c \in ItemCases
InitChars == c \in CharCases
InitMal == c \in {x \in MalCases : x.at <= Len(x.items)}
Init == InitPath
Next == FALSE /\ UNCHANGED c
NoNext == FALSE /\ UNCHANGED c
Spec == Init /\ [][Next]_vars
=============================================================================
