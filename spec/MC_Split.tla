------------------------------ MODULE MC_Split ------------------------------
EXTENDS Split, Json
EmitPath == PrintT(ToJson([l |-> c.lead, s |-> c.segs, t |-> c.trail, p |-> c.p, ref |-> PathRef(c)]))
EmitItems == PrintT(ToJson([items |-> c.items, force |-> c.force, text |-> Encode(c.items, c.force),
                            ref |-> SplitRef(Encode(c.items, c.force))]))
EmitChars == PrintT(ToJson([text |-> c.q, ref |-> SplitRef(c.q)]))
EmitMal == PrintT(ToJson([items |-> c.items, at |-> c.at, pat |-> c.pat, text |-> MalText(c), ref |-> SplitRef(MalText(c))]))
=============================================================================
