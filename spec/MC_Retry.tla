------------------------------- MODULE MC_Retry -------------------------------
EXTENDS Retry, Json
Emit == done => PrintT(ToJson([hist |-> hist, logs |-> logs, slept |-> slept, rd |-> RetryDelay, sld |-> SameLogDelay]))
=============================================================================
