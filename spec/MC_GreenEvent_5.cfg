SPECIFICATION Spec
CONSTANT MaxLen = 5
INVARIANT UntimedNeverFalse
INVARIANT NoLostWakeup
INVARIANT TrueNeedsSet
INVARIANT BlockedOnUnsent
CONSTRAINT Export
CHECK_DEADLOCK FALSE
