INIT InitQemu
NEXT NoNext
CONSTANTS L = 0
CONSTRAINT EmitQemu
CHECK_DEADLOCK FALSE
