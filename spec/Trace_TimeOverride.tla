------------------------- MODULE Trace_TimeOverride -------------------------
(* code -> spec: call sequences on the overridable clock recorded from the     *)
(* real timeutils / fixture.TimeFixture, validated against TimeOverride's      *)
(* actions.  Event: [op, arg: triple or <<-9>>, res: triple or <<-9>>,         *)
(* after: triple or <<-9>> (utcnow.override_time after the call)].             *)
EXTENDS Integers, Sequences, TLC, Json, IOUtils

Traces == JsonDeserialize(IOEnv.TRACE_FILE)
VARIABLES override, depth, op, arg, res, tid, l
T0 == INSTANCE TimeOverride WITH Days <- {}, Secs <- {}, Micros <- {}, MaxDepth <- 1000000
tvars == <<override, depth, op, arg, res, tid, l>>
T == Traces[tid]
Ev == T[l]

TInit == tid \in 1..Len(Traces) /\ T0!Init /\ l = 1
TNext == /\ l <= Len(T) /\ l' = l + 1 /\ UNCHANGED tid
         /\ \/ (Ev.op = "set" /\ T0!SetOverride(Ev.arg))
            \/ (Ev.op = "clear" /\ T0!Clear)
            \/ (Ev.op = "advance_delta" /\ T0!AdvanceDelta(Ev.arg))
            \/ (Ev.op = "advance_seconds" /\ T0!AdvanceSeconds(Ev.arg))
            \/ (Ev.op = "utcnow" /\ T0!UtcNow)
            \/ (Ev.op = "utcnow_ts" /\ T0!UtcNowTs(FALSE))
            \/ (Ev.op = "utcnow_ts_micro" /\ T0!UtcNowTs(TRUE))
         /\ res' = Ev.res /\ override' = Ev.after
TSpec == TInit /\ [][TNext]_tvars
Done == (l = Len(T) + 1) => PrintT(<<"done", tid>>)
Diag == IF "TRACE_DIAG" \in DOMAIN IOEnv THEN PrintT(<<"at", tid, l>>) ELSE TRUE
UtcNowIsOverride == T0!UtcNowIsOverride
Normalised == T0!Normalised
=============================================================================
