SPECIFICATION Spec
CONSTANT Depth = 3
INVARIANT BodyRunsOnce
INVARIANT CacheIsWhatRan
INVARIANT ParentsFirst
INVARIANT ReportedIsLoaded
INVARIANT TryIsExact
PROPERTY CacheGrows
CONSTRAINT Export
CHECK_DEADLOCK FALSE
