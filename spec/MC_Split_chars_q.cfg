INIT InitChars
NEXT NoNext
CONSTANTS
  LFull = 0
  LLong = 0
  CL = 6
  Wide = FALSE
INVARIANT WriteInvertsRead
INVARIANT NoEmptyBareItem
INVARIANT QuotesBalanced
INVARIANT CommasCount
CONSTRAINT EmitChars
CHECK_DEADLOCK FALSE
