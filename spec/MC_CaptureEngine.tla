------------------------- MODULE MC_CaptureEngine --------------------------
EXTENDS CaptureEngine, Json
\* one record per stream: the reference verdict, for the spec -> code replay
EmitRef == PrintT(ToJson([s |-> stream, ref |-> Ref]))
NoStep == FALSE /\ UNCHANGED vars
=============================================================================
