----------------------------- MODULE Trace_Detect -----------------------------
(* code -> spec for detection: after every read of the real InspectWrapper (and  *)
(* after close) the harness logs what each inspector reports and what            *)
(* wrapper.format says; every sample must equal Detect!FromSignals of the logged *)
(* signals, and a decision once reported is never revised (NoRevision).          *)
(* One trace = [insp: <<names>>, ev: <<[complete, match: name -> BOOLEAN,        *)
(*              finished: BOOLEAN, decision: STRING]>>]                          *)
EXTENDS Integers, Sequences, FiniteSets, TLC, Json, IOUtils

Traces == JsonDeserialize(IOEnv.TRACE_FILE)
VARIABLES c, decision, tid, l
D == INSTANCE Detect
tvars == <<c, decision, tid, l>>
T == Traces[tid]
Ev == T.ev[l]
SeqSet(q) == {q[i] : i \in 1..Len(q)}

TInit == tid \in 1..Len(Traces) /\ c = 0 /\ decision = "None" /\ l = 1
TNext == /\ l <= Len(T.ev) /\ l' = l + 1 /\ UNCHANGED <<tid, c>>
         /\ decision' = D!FromSignals(SeqSet(T.insp), Ev.complete, Ev.match, Ev.finished)
         /\ decision' = Ev.decision
TSpec == TInit /\ [][TNext]_tvars
Done == (l = Len(T.ev) + 1) => PrintT(<<"done", tid>>)
Diag == IF "TRACE_DIAG" \in DOMAIN IOEnv THEN PrintT(<<"at", tid, l>>) ELSE TRUE
NoRevision == [][decision # "None" => decision' = decision]_tvars
=============================================================================
