SPECIFICATION Spec
CONSTANTS
  NChunks = 2
  Insp = {"e", "a", "b"}
  Expected = "none"
  Flavour = "file"
INVARIANT Transparent
INVARIANT Isolation
INVARIANT NeverFedAgain
INVARIANT ErroredExactly
INVARIANT AbortPoint
INVARIANT FinishAll
INVARIANT FedAll
PROPERTY NoReadAfterAbort
CONSTRAINT Emit
CHECK_DEADLOCK FALSE
