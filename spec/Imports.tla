------------------------------ MODULE Imports ------------------------------
(***************************************************************************)
(* oslo_utils.importutils as a transition system over the interpreter's    *)
(* module cache (sys.modules).  Not anchored in one of the listed           *)
(* properties: specification growth (checked by the growth check G01).      *)
(*                                                                         *)
(* World: a small package tree.  A module is named by its path (a sequence  *)
(* of segments).  Importing a dotted name imports every prefix in turn;     *)
(* a prefix already in the cache is not executed again; a module whose body *)
(* raises is executed on every attempt and never enters the cache; the      *)
(* prefixes imported before a failure stay in the cache.  A submodule is an *)
(* attribute of its parent exactly once it has been imported - which makes  *)
(* import_class('p.a') depend on the history: ImportError before p.a was    *)
(* imported, the module object afterwards.                                  *)
(***************************************************************************)
EXTENDS Integers, Sequences, FiniteSets, TLC

CONSTANT Depth

P == <<"p">>
Mods == {P, <<"p", "a">>, <<"p", "v1">>, <<"p", "v1", "sub">>, <<"p", "v2">>, <<"p", "bad">>, <<"p", "boom">>}
Pkgs == {P, <<"p", "v1">>, <<"p", "v2">>}
Kind(m) == IF m = <<"p", "bad">> THEN "ImportError"        \* body raises ImportError (a missing dependency)
           ELSE IF m = <<"p", "boom">> THEN "ValueError"   \* body raises something else
           ELSE "ok"
\* names defined by the module bodies: K is a class, x is the integer 5
Static(m) == IF m = <<"p", "a">> THEN {"K", "x"} ELSE IF m = <<"p", "v1", "sub">> THEN {"K"} ELSE {}

VARIABLES loaded,    \* the cache: set of module paths
          execs,     \* how often each module body has run
          hist       \* <<[op, res]>> so far (observation only)
vars == <<loaded, execs, hist>>

R(k, path, name, err) == [k |-> k, path |-> path, name |-> name, err |-> err]
Err(e) == R("err", <<>>, "", e)

\* __import__(dotted path): result [l, e, err]
RECURSIVE Imp(_, _, _, _)
Imp(path, i, L, E) ==
  IF i > Len(path) THEN [l |-> L, e |-> E, err |-> "none"]
  ELSE LET m == SubSeq(path, 1, i) IN
    IF m \in L THEN Imp(path, i + 1, L, E)
    ELSE IF m \notin Mods \/ (i > 1 /\ SubSeq(path, 1, i - 1) \notin Pkgs)
      THEN [l |-> L, e |-> E, err |-> "ImportError"]        \* ModuleNotFoundError is an ImportError
    ELSE LET E2 == [E EXCEPT ![m] = @ + 1] IN
      IF Kind(m) = "ok" THEN Imp(path, i + 1, L \cup {m}, E2)
      ELSE [l |-> L, e |-> E2, err |-> Kind(m)]
Import(path, L, E) == IF path = <<>> THEN [l |-> L, e |-> E, err |-> "ValueError"]   \* "Empty module name"
                      ELSE Imp(path, 1, L, E)

\* import_module
ModuleOp(path, L, E) ==
  LET r == Import(path, L, E)
  IN [l |-> r.l, e |-> r.e, res |-> IF r.err = "none" THEN R("mod", path, "", "none") ELSE Err(r.err)]
\* import_class(path.name): import the module part, then getattr
ClassOp(path, name, L, E) ==
  LET r == Import(path, L, E)
      sub == Append(path, name)
  IN [l |-> r.l, e |-> r.e,
      res |-> IF r.err # "none" THEN Err(r.err)
              ELSE IF name \in Static(path) THEN R("attr", path, name, "none")
              ELSE IF sub \in r.l THEN R("mod", sub, "", "none")       \* a submodule imported earlier
              ELSE Err("ImportError")]
\* import_object: call what import_class returned (only the class is callable)
ObjectOp(path, name, L, E) ==
  LET c == ClassOp(path, name, L, E)
  IN [c EXCEPT !.res = IF c.res.k = "err" THEN c.res
                       ELSE IF c.res.k = "attr" /\ name = "K" THEN R("inst", path, name, "none")
                       ELSE Err("TypeError")]
\* import_object_ns(ns, rest.name): the name space first, the full path on ImportError (and only then)
NsOp(ns, rest, name, L, E) ==
  LET first == ClassOp(ns \o rest, name, L, E)
  IN IF first.res.k = "err" /\ first.res.err = "ImportError"
     THEN LET second == ClassOp(rest, name, first.l, first.e)
          IN [second EXCEPT !.res = IF second.res.k = "attr" /\ name = "K" THEN R("inst", rest, name, "none")
                                    ELSE IF second.res.k = "err" THEN second.res ELSE Err("TypeError")]
     ELSE [first EXCEPT !.res = IF first.res.k = "attr" /\ name = "K" THEN R("inst", ns \o rest, name, "none")
                                ELSE IF first.res.k = "err" THEN first.res ELSE Err("TypeError")]
\* import_versioned_module(module, version, submodule): module.v<version>[.submodule]; a dot in version is refused
VersionedOp(module, ver, sub, L, E) ==
  IF ver = "1.0" THEN [l |-> L, e |-> E, res |-> Err("ValueError")]
  ELSE ModuleOp(module \o <<"v" \o ver>> \o (IF sub = "" THEN <<>> ELSE <<sub>>), L, E)
\* try_import: ImportError becomes the default, nothing else does
TryOp(path, L, E) ==
  LET m == ModuleOp(path, L, E)
  IN [m EXCEPT !.res = IF m.res.k = "err" /\ m.res.err = "ImportError" THEN R("default", <<>>, "", "none") ELSE m.res]
\* import_any: the first importable one; ImportError when none is
RECURSIVE AnyOp(_, _, _, _)
AnyOp(paths, i, L, E) ==
  IF i > Len(paths) THEN [l |-> L, e |-> E, res |-> Err("ImportError")]
  ELSE LET t == TryOp(paths[i], L, E)
       IN IF t.res.k = "default" THEN AnyOp(paths, i + 1, t.l, t.e) ELSE t

Q == <<"q">>
ModPaths == Mods \cup {Q, <<"p", "nosuch">>, <<"p", "a", "deep">>, <<"p", "v1", "nosuch">>, <<>>}
Ops == {[k |-> "module", path |-> p] : p \in ModPaths}
  \cup {[k |-> "class", path |-> p, name |-> n] :
          p \in {<<"p", "a">>, <<"p", "v1", "sub">>, P, <<"p", "v1">>, <<"p", "bad">>, <<"p", "boom">>, Q, <<>>},
          n \in {"K", "x", "a", "sub", "Missing"}}
  \cup {[k |-> "object", path |-> p, name |-> n] : p \in {<<"p", "a">>, P}, n \in {"K", "x", "a", "Missing"}}
  \cup {[k |-> "ns", ns |-> s, rest |-> r, name |-> "K"] :
          s \in {P, Q, <<"p", "boom">>, <<"p", "bad">>}, r \in {<<"a">>, <<"p", "a">>, <<"nosuch">>}}
  \cup {[k |-> "versioned", path |-> p, ver |-> v, sub |-> s] :
          p \in {P, Q}, v \in {"1", "2", "3", "1.0"}, s \in {"", "sub", "nosuch"}}
  \cup {[k |-> "try", path |-> p] : p \in ModPaths}
  \cup {[k |-> "any", paths |-> ps] :
          ps \in {<<Q, <<"p", "bad">>, <<"p", "a">>>>, <<Q, <<"p", "nosuch">>>>, <<<<"p", "boom">>, <<"p", "a">>>>,
                  <<<<"p", "a">>, Q>>, <<<<"p", "v1", "sub">>, <<"p", "a">>>>}}

Apply(o, L, E) ==
  CASE o.k = "module"    -> ModuleOp(o.path, L, E)
    [] o.k = "class"     -> ClassOp(o.path, o.name, L, E)
    [] o.k = "object"    -> ObjectOp(o.path, o.name, L, E)
    [] o.k = "ns"        -> NsOp(o.ns, o.rest, o.name, L, E)
    [] o.k = "versioned" -> VersionedOp(o.path, o.ver, o.sub, L, E)
    [] o.k = "try"       -> TryOp(o.path, L, E)
    [] o.k = "any"       -> AnyOp(o.paths, 1, L, E)

Init == loaded = {} /\ execs = [m \in Mods |-> 0] /\ hist = <<>>
Step(o) == LET r == Apply(o, loaded, execs)
           IN loaded' = r.l /\ execs' = r.e /\ hist' = Append(hist, [op |-> o, res |-> r.res])
Next == Len(hist) < Depth /\ \E o \in Ops : Step(o)
Spec == Init /\ [][Next]_vars

(* ---- what a user relies on ------------------------------------------------ *)
\* a module that imports cleanly runs once, however often and through whichever helper it is asked for
BodyRunsOnce == \A m \in Mods : Kind(m) = "ok" => execs[m] <= 1
\* the cache holds exactly the clean modules that have run, and is closed under parents
CacheIsWhatRan == \A m \in Mods : (m \in loaded) <=> (Kind(m) = "ok" /\ execs[m] = 1)
ParentsFirst == \A m \in loaded : Len(m) > 1 => SubSeq(m, 1, Len(m) - 1) \in loaded
\* a helper that reports a module really has it in the cache afterwards
ReportedIsLoaded == \A i \in 1..Len(hist) : hist[i].res.k = "mod" => hist[i].res.path \in loaded
\* try_import never lets an ImportError out and never swallows anything else
TryIsExact == \A i \in 1..Len(hist) : hist[i].op.k = "try" => hist[i].res.err # "ImportError"
\* the cache only grows
CacheGrows == [][loaded \subseteq loaded']_vars
=============================================================================
