------------------------- MODULE MC_InspectWrapper --------------------------
EXTENDS InspectWrapper, Json
\* terminal states of the caller protocol "read until EOF or exception, then close"
Terminal == closed /\ (phase = "raised" \/ consumed = Reads)
Emit == Terminal => PrintT(ToJson([failAt |-> failAt, completeAt |-> completeAt, match |-> match,
                                   delivered |-> delivered, consumed |-> consumed, exc |-> exc,
                                   fed |-> fed, errored |-> errored]))
=============================================================================
