---------------------------- MODULE MC_ExcHelpers ----------------------------
EXTENDS ExcHelpers, Json
Emit == done => PrintT(ToJson([prog |-> prog, flag0 |-> flag0, reraise |-> reraise, propagates |-> propagates,
                               logged |-> logged, direct |-> direct,
                               \* what ctx.force_reraise() called AFTER the with statement raises: the exception still held, else a fresh one (4)
                               post |-> IF saved = 0 THEN 4 ELSE saved,
                               \* the same context object entered once more, in the handler of ANOTHER exception (5), with an
                               \* empty body: entry captures the exception active then; the flag is what the first use left
                               second |-> IF reraise THEN 5 ELSE 0]))
=============================================================================
