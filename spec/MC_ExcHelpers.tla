---------------------------- MODULE MC_ExcHelpers ----------------------------
EXTENDS ExcHelpers, Json
Emit == done => PrintT(ToJson([prog |-> prog, flag0 |-> flag0, reraise |-> reraise, propagates |-> propagates,
                               logged |-> logged, direct |-> direct]))
=============================================================================
