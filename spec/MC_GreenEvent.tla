--------------------------- MODULE MC_GreenEvent ---------------------------
EXTENDS GreenEvent, Json
Export == Quiescent => PrintT(ToJson([script |-> script, tmo2 |-> tmo2, flag |-> flag, out |-> <<w[1].st, w[2].st>>]))
=============================================================================
