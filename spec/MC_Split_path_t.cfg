INIT InitPath
NEXT NoNext
CONSTANTS
  LFull = 5
  LLong = 7
  CL = 0
  Wide = FALSE
INVARIANT LengthIsMax
INVARIANT NonePadsTheEnd
INVARIANT MinAboveMaxRaises
INVARIANT NeedsLeadingSlash
INVARIANT NothingLost
INVARIANT RestOnlyWidens
INVARIANT NoSlashWithoutRest
CONSTRAINT EmitPath
CHECK_DEADLOCK FALSE
