SPECIFICATION Spec
CONSTRAINT Export
INVARIANT Exclusive
INVARIANT NeitherMeansBroken
INVARIANT NothingIsEmpty
CHECK_DEADLOCK FALSE
