SPECIFICATION RSpec
CONSTANTS MaxLen = 200
INVARIANT Tiled
INVARIANT WholeContent
INVARIANT OnlyLastShort
CONSTRAINT EmitRead
CHECK_DEADLOCK FALSE
