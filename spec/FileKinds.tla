----------------------------- MODULE FileKinds -----------------------------
(***************************************************************************)
(* Three small classifiers / projections that no listed property covers,   *)
(* as decision tables:                                                     *)
(*   fileutils.is_json / is_yaml over classes of documents;                *)
(*   netutils.get_noscope_ipv6 over classes of address texts;              *)
(*   QemuImgInfo(format='json'): which key of qemu-img's JSON feeds which  *)
(*     attribute, and what an absent key leaves behind.                    *)
(* The tables say what the module does, including where that is unkind:    *)
(* is_yaml only expects the scanner to complain, so a document the YAML    *)
(* parser or constructor rejects makes it raise instead of answering False *)
(* (observation O9 of DESIGN.md 13.6).                                     *)
(***************************************************************************)
EXTENDS Integers, Sequences, FiniteSets, TLC

VARIABLE c

(* ---- documents ---- *)
JsonDocs == {"json_object", "json_array", "json_number", "json_string", "json_null", "json_nested"}
YamlOnly == {"yaml_mapping", "yaml_list", "yaml_plain_text", "yaml_multi_doc_first", "empty", "blank"}
ScanErr  == {"yaml_unterminated_quote", "yaml_tab_indent", "yaml_at_sign"}
ParseErr == {"yaml_open_flow", "yaml_bad_directive"}
ConsErr  == {"yaml_python_tag"}
Binary   == {"not_text"}
Docs == JsonDocs \cup YamlOnly \cup ScanErr \cup ParseErr \cup ConsErr \cup Binary
DocCases == {[t |-> "doc", d |-> d] : d \in Docs}
IsJson(d) == IF d \in Binary THEN "UnicodeDecodeError" ELSE IF d \in JsonDocs THEN "true" ELSE "false"
IsYaml(d) == CASE d \in Binary -> "UnicodeDecodeError"
               [] d \in JsonDocs -> "false"          \* every JSON document loads as YAML: it is called JSON
               [] d \in YamlOnly -> "true"           \* an empty file loads (as nothing)
               [] d \in ScanErr -> "false"
               [] d \in ParseErr -> "ParserError"
               [] d \in ConsErr -> "ConstructorError"
\* never both
Exclusive == c.t = "doc" => ~(IsJson(c.d) = "true" /\ IsYaml(c.d) = "true")
\* a document that is neither raises or is refused by the scanner
NeitherMeansBroken == (c.t = "doc" /\ IsJson(c.d) = "false" /\ IsYaml(c.d) = "false") => c.d \in ScanErr

(* ---- addresses ---- *)
Addrs == {"plain", "plain_upper", "scoped_name", "scoped_number", "scoped_upper", "v4mapped_scoped",
          "two_percent", "empty_scope", "ipv4", "nonsense", "empty"}
AddrCases == {[t |-> "addr", a |-> a] : a \in Addrs}
\* "same": the argument comes back; "cut": the argument without its '%scope' (letter case untouched)
NoScope(a) == CASE a \in {"plain", "plain_upper"} -> "same"
                [] a \in {"scoped_name", "scoped_number", "scoped_upper", "v4mapped_scoped"} -> "cut"
                [] OTHER -> "ValueError"      \* ipaddress.AddressValueError is a ValueError

(* ---- qemu-img info --output=json ---- *)
Attrs == {"image", "backing_file", "backing_file_format", "file_format", "virtual_size", "cluster_size", "disk_size",
          "snapshots", "encrypted", "format_specific"}
KeyOf(a) == CASE a = "image" -> "filename" [] a = "backing_file" -> "backing-filename"
              [] a = "backing_file_format" -> "backing-filename-format" [] a = "file_format" -> "format"
              [] a = "virtual_size" -> "virtual-size" [] a = "cluster_size" -> "cluster-size"
              [] a = "disk_size" -> "actual-size" [] a = "snapshots" -> "snapshots" [] a = "encrypted" -> "encrypted"
              [] a = "format_specific" -> "format-specific"
\* a document is the set of keys present (each with a value standing for itself) and the value of 'encrypted'
QemuCases == {[t |-> "qemu", keys |-> k, enc |-> e, out |-> o] :
                k \in SUBSET {"filename", "backing-filename", "format", "virtual-size", "actual-size", "snapshots", "encrypted",
                              "format-specific"},
                e \in {"true", "false", "null"}, o \in {"text", "none", "empty"}}
\* what attribute a holds: "value" (the value under its key), "None", "empty_list", "yes"
QemuRef(x, a) ==
  LET present == x.out = "text" /\ KeyOf(a) \in x.keys IN
  CASE a = "snapshots" -> IF present THEN "value" ELSE "empty_list"
    [] a = "encrypted" -> IF present /\ x.enc = "true" THEN "yes" ELSE "None"
    [] OTHER -> IF present THEN "value" ELSE "None"

Cases == DocCases \cup AddrCases \cup QemuCases
Init == c \in Cases
Next == FALSE /\ UNCHANGED c
Spec == Init /\ [][Next]_c
\* no output at all and an empty object are the same
NothingIsEmpty == c.t = "qemu" => \A a \in Attrs : QemuRef([c EXCEPT !.out = "none"], a) = QemuRef([c EXCEPT !.out = "empty"], a)
=============================================================================
