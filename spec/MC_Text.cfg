SPECIFICATION Spec
CONSTANTS SlugLen = 0
INVARIANT RoundTrip
INVARIANT StrictFailsExactly
INVARIANT IgnoreNeverFails
CONSTRAINT Emit
CHECK_DEADLOCK FALSE
