----------------------- MODULE Trace_InspectWrapper ------------------------
(* code -> spec for the pipe: runs of the REAL InspectWrapper over real        *)
(* inspectors and real content (optionally with a fault injected into one     *)
(* inspector at one read) recorded at the grain of InspectWrapper.tla --       *)
(* start / feed(i) in the order it happened / end | raise / exhaust / close /  *)
(* finish(i) --                                                               *)
(* and validated against its actions.  The scripts are read off the run:       *)
(* failAt[i] = read index at which i's eat_chunk raised; for the expected      *)
(* format, ecomplete = first read after which it was complete without          *)
(* matching (the abort condition).  One batch = one (flavour, expected).       *)
EXTENDS Integers, Sequences, FiniteSets, TLC, Json, IOUtils

Traces == JsonDeserialize(IOEnv.TRACE_FILE)
TExpected == IOEnv.TRACE_EXPECTED
TFlavour == IOEnv.TRACE_FLAVOUR
AllNames == {"raw", "qcow2", "vhd", "vhdx", "vmdk", "vdi", "qed", "iso", "gpt", "luks"}
\* allowed_formats: the batch's environment names the formats the wrapper was told to leave out (TRACE_DROP_<name>)
Names == {nm \in AllNames : ("TRACE_DROP_" \o nm) \notin DOMAIN IOEnv}
Never == 1000000

VARIABLES failAt, completeAt, match, consumed, delivered, errored, fed, phase,
          exc, pending, finishedI, closed, tid, l

W == INSTANCE InspectWrapper WITH NChunks <- Never, Insp <- Names,
                                  Expected <- TExpected, Flavour <- TFlavour
tvars == <<failAt, completeAt, match, consumed, delivered, errored, fed, phase,
           exc, pending, finishedI, closed, tid, l>>
T == Traces[tid]
Ev == T.ev[l]

TInit == /\ tid \in 1..Len(Traces)
         /\ failAt = [i \in Names |-> Traces[tid].failAt[i]]
         /\ completeAt = [i \in Names |-> IF i = TExpected THEN Traces[tid].ecomplete ELSE Never + 2]
         /\ match = [i \in Names |-> IF i = TExpected THEN Traces[tid].ematch ELSE TRUE]
         /\ consumed = 0 /\ delivered = 0 /\ errored = {} /\ fed = [i \in Names |-> {}]
         /\ phase = "idle" /\ exc = "none" /\ pending = {} /\ finishedI = {} /\ closed = FALSE
         /\ l = 1

\* the source's length is not a constant of a recorded run: W!Exhaust without its
\* "consumed = Reads" guard
TExhaust == /\ TFlavour = "iter" /\ phase = "idle" /\ ~closed
            /\ phase' = "eof" /\ finishedI' = Names
            /\ UNCHANGED <<failAt, completeAt, match, consumed, delivered, errored, fed, exc, pending, closed>>

TNext == /\ l <= Len(T.ev) /\ l' = l + 1 /\ UNCHANGED tid
         /\ \/ (Ev.op = "start" /\ W!StartRead /\ consumed' = Ev.c)
            \/ (Ev.op = "feed" /\ consumed = Ev.c /\ W!Feed(Ev.i))
            \/ (Ev.op = "end" /\ consumed = Ev.c /\ W!EndRead)
            \/ (Ev.op = "raise" /\ phase = "raised" /\ exc = Ev.i
                /\ UNCHANGED <<failAt, completeAt, match, consumed, delivered, errored, fed, phase, exc, pending, finishedI, closed>>)
            \/ (Ev.op = "exhaust" /\ TExhaust)
            \/ (Ev.op = "close" /\ W!Close)
            \* (a recorded "feed_after_failure" -- eat_chunk called on an inspector that had already raised, be it with a
            \* further piece of the same read -- has no action here: such a trace is rejected.  Several calls for ONE read
            \* to an inspector that is alive are one Feed: the recorder merges them.)
            \* an inspector's finish() is only ever called as part of Exhaust / Close
            \/ (Ev.op = "finish" /\ Ev.i \in finishedI
                /\ UNCHANGED <<failAt, completeAt, match, consumed, delivered, errored, fed, phase, exc, pending, finishedI, closed>>)
TSpec == TInit /\ [][TNext]_tvars

Done == (l = Len(T.ev) + 1) => PrintT(<<"done", tid>>)
Diag == IF "TRACE_DIAG" \in DOMAIN IOEnv THEN PrintT(<<"at", tid, l>>) ELSE TRUE

Transparent == W!Transparent
Isolation == W!Isolation
NeverFedAgain == W!NeverFedAgain
ErroredExactly == W!ErroredExactly
FinishAll == W!FinishAll
FedAll == W!FedAll
=============================================================================
