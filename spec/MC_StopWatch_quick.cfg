SPECIFICATION Spec
CONSTANTS
  Durations <- MCDurations
  Steps <- MCSteps
  Maxima <- MCMaxima
  NoDur <- MCNoDur
  ClockLo = 0
  ClockHi = 3
  MaxSplits = 2
CONSTRAINT Bound
INVARIANT TypeOK
INVARIANT NonNegative
INVARIANT ElapsedIsDistance
INVARIANT MaxRespected
INVARIANT LeftoverRight
INVARIANT ExpiredRight
INVARIANT SplitsMonotone
PROPERTY IllegalPreserves
PROPERTY RestartClears
PROPERTY QueriesPure
PROPERTY IllegalExactly
CHECK_DEADLOCK FALSE
