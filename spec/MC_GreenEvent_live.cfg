SPECIFICATION FairSpec
CONSTANT MaxLen = 4
PROPERTY EventuallyReleased
PROPERTY EventuallyQuiescent
CHECK_DEADLOCK FALSE
