----------------------------- MODULE Reflection -----------------------------
(***************************************************************************)
(* oslo_utils.reflection over a small world of classes, callables and      *)
(* signatures.  Specification growth (growth check G02): not anchored in    *)
(* one of the listed properties.                                            *)
(*                                                                         *)
(* Names are sequences of parts (TLC strings are atomic); gamma joins them  *)
(* with '.'.  The class world: A, B(A) live in module m1; C(A), D(B, C),    *)
(* Err(ValueError) in m2; the rest are builtins.  Mro is tabulated and the  *)
(* harness compares the table with the interpreter's own __mro__ (the C3    *)
(* linearisation is Python's, not oslo.utils').                             *)
(***************************************************************************)
EXTENDS Integers, Sequences, FiniteSets, TLC

VARIABLE c

Own == {"A", "B", "C", "D", "Err"}
Builtin == {"object", "int", "ValueError", "Exception", "BaseException"}
Classes == Own \cup Builtin
Module(x) == IF x \in {"A", "B"} THEN "m1" ELSE IF x \in {"C", "D", "Err"} THEN "m2" ELSE "builtins"
Mro(x) == CASE x = "D" -> <<"D", "B", "C", "A", "object">>
            [] x = "B" -> <<"B", "A", "object">>
            [] x = "C" -> <<"C", "A", "object">>
            [] x = "A" -> <<"A", "object">>
            [] x = "Err" -> <<"Err", "ValueError", "Exception", "BaseException", "object">>
            [] x = "ValueError" -> <<"ValueError", "Exception", "BaseException", "object">>
            [] x = "Exception" -> <<"Exception", "BaseException", "object">>
            [] x = "BaseException" -> <<"BaseException", "object">>
            [] x = "int" -> <<"int", "object">>
            [] x = "object" -> <<"object">>
Range(s) == {s[i] : i \in 1..Len(s)}
IsSub(x, y) == y \in Range(Mro(x))
\* where a method named m / cm / sm is defined, for each class that has it
Definer(x) == IF x \in {"B", "D"} THEN "B" ELSE IF x = "C" THEN "C" ELSE "A"     \* B and C override A's methods

(* ---- get_class_name / get_all_class_names --------------------------------- *)
ClassName(x, fq, trunc) ==
  IF trunc /\ Module(x) = "builtins" THEN <<x>>
  ELSE IF fq THEN <<Module(x), x>> ELSE <<x>>
\* what the helper is handed: the class it is about, or nothing (TypeError)
Subjects == {[k |-> "class", cls |-> x] : x \in Classes}
       \cup {[k |-> "instance", cls |-> x] : x \in Own \cup {"int", "ValueError"}}
       \cup {[k |-> "bound", cls |-> x] : x \in {"A", "B", "C", "D"}}          \* x().m
       \cup {[k |-> "classmethod", cls |-> x] : x \in {"A", "B", "C", "D"}}    \* x.cm
       \cup {[k |-> "static", cls |-> x] : x \in {"A", "D"}}                   \* x.sm: a plain function
       \cup {[k |-> "function", cls |-> "object"], [k |-> "lambda", cls |-> "object"]}
ClassNameRef(s, fq, trunc) ==
  IF s.k \in {"function", "lambda", "static"} THEN [k |-> "TypeError", v |-> <<>>]
  ELSE [k |-> "ok", v |-> ClassName(s.cls, fq, trunc)]
RECURSIVE Filter(_, _, _, _)
Filter(m, up, fq, trunc) ==
  IF m = <<>> THEN <<>>
  ELSE (IF IsSub(Head(m), up) THEN <<ClassName(Head(m), fq, trunc)>> ELSE <<>>) \o Filter(Tail(m), up, fq, trunc)
AllNamesRef(x, up, fq, trunc) == Filter(Mro(x), up, fq, trunc)

\* is_subclass: only a class can be a subclass; an instance never is
IsSubclassRef(x, inst, of) == ~inst /\ IsSub(x, of)

(* ---- get_callable_name / is_bound_method ------------------------------------ *)
Callables == {[k |-> "function"], [k |-> "nested"], [k |-> "lambda"], [k |-> "partial"], [k |-> "builtin"]}
        \cup {[k |-> kk, cls |-> x] : kk \in {"bound", "classmethod", "static_via_class", "static_via_instance",
                                              "callable_instance", "class"}, x \in {"A", "B", "C", "D"}}
CallableNameRef(f) ==
  CASE f.k = "function" -> <<"m1", "func">>
    [] f.k = "nested" -> <<"m1", "outer", "<locals>", "inner">>
    [] f.k = "lambda" -> <<"m1", "<lambda>">>
    [] f.k = "partial" -> <<"functools", "partial">>
    [] f.k = "builtin" -> <<"builtins", "builtin_function_or_method">>
    \* a bound method: the module of the class of self, the qualified name of the function (its definer)
    [] f.k = "bound" -> <<Module(f.cls), Definer(f.cls), "m">>
    [] f.k = "classmethod" -> <<Module(f.cls), Definer(f.cls), "cm">>
    [] f.k \in {"static_via_class", "static_via_instance"} -> <<Module(Definer(f.cls)), Definer(f.cls), "sm">>
    [] f.k \in {"callable_instance", "class"} -> <<Module(f.cls), f.cls>>
IsBoundRef(f) == f.k \in {"bound", "classmethod"}

(* ---- is_same_callback ------------------------------------------------------- *)
\* o1, o2 are two instances that compare equal (__eq__ always True); a method object is fresh on every access
Callbacks == {[k |-> "f"], [k |-> "g"], [k |-> "static"]}
        \cup {[k |-> "bound", self |-> o, meth |-> m, access |-> a] : o \in {"o1", "o2"}, m \in {"m", "n"}, a \in {1, 2}}
SameRef(x, y) ==
  IF x.k = "bound" /\ y.k = "bound" THEN x.self = y.self /\ x.meth = y.meth    \* identity of self, not its equality
  ELSE x = y

(* ---- get_callable_args / accepts_kwargs ------------------------------------- *)
Kinds == {"pos", "kw", "varpos", "varkw"}
Param == [kind : Kinds, d : BOOLEAN]
Rank(k) == CASE k = "pos" -> 1 [] k = "varpos" -> 2 [] k = "kw" -> 3 [] k = "varkw" -> 4
ValidSig(ps) ==
  /\ \A i \in 1..Len(ps) : ps[i].kind \in {"varpos", "varkw"} => ~ps[i].d
  /\ \A i, j \in 1..Len(ps) : i < j => Rank(ps[i].kind) <= Rank(ps[j].kind)
  /\ Cardinality({i \in 1..Len(ps) : ps[i].kind = "varpos"}) <= 1
  /\ Cardinality({i \in 1..Len(ps) : ps[i].kind = "varkw"}) <= 1
  /\ \A i, j \in 1..Len(ps) : (i < j /\ ps[i].kind = "pos" /\ ps[j].kind = "pos" /\ ps[i].d) => ps[j].d
SeqsUpTo(S, n) == UNION {[1..k -> S] : k \in 0..n}
Sigs == {ps \in SeqsUpTo(Param, 3) : ValidSig(ps)}
RECURSIVE ArgsRef(_, _, _)
ArgsRef(ps, i, req) ==
  IF i > Len(ps) THEN <<>>
  ELSE (IF ps[i].kind \in {"pos", "kw"} /\ (~req \/ ~ps[i].d) THEN <<i>> ELSE <<>>) \o ArgsRef(ps, i + 1, req)
KwargsRef(ps) == \E i \in 1..Len(ps) : ps[i].kind = "varkw"

(* ---- the cases ---------------------------------------------------------------- *)
Cases == {[t |-> "class_name", s |-> s, fq |-> fq, trunc |-> tr] : s \in Subjects, fq \in BOOLEAN, tr \in BOOLEAN}
    \cup {[t |-> "all_names", cls |-> x, inst |-> i, up |-> u, fq |-> fq, trunc |-> tr] :
            x \in Own \cup {"int"}, i \in BOOLEAN, u \in {"object", "A", "B", "C", "Exception", "int"}, fq \in BOOLEAN, tr \in BOOLEAN}
    \cup {[t |-> "is_subclass", cls |-> x, inst |-> i, of |-> u] : x \in Own \cup {"int", "ValueError"}, i \in BOOLEAN, u \in Classes}
    \cup {[t |-> "callable", f |-> f] : f \in Callables}
    \cup {[t |-> "same", x |-> x, y |-> y] : x \in Callbacks, y \in Callbacks}
    \cup {[t |-> "sig", ps |-> ps, bound |-> b, req |-> r] : ps \in Sigs, b \in BOOLEAN, r \in BOOLEAN}

Init == c \in Cases
Next == FALSE /\ UNCHANGED c
Spec == Init /\ [][Next]_c

(* sanity of the model itself *)
\* a class is always first in its own linearisation and object last; subclass relation is a partial order
MroShape == \A x \in Classes : Head(Mro(x)) = x /\ Mro(x)[Len(Mro(x))] = "object"
            /\ \A y \in Range(Mro(x)) : Range(Mro(y)) \subseteq Range(Mro(x))
\* required arguments are a subsequence of all arguments
ReqWithinAll == c.t = "sig" => Range(ArgsRef(c.ps, 1, TRUE)) \subseteq Range(ArgsRef(c.ps, 1, FALSE))
\* is_same_callback is an equivalence on the enumerated callbacks
SameIsEquivalence == c.t = "same" => (SameRef(c.x, c.y) = SameRef(c.y, c.x) /\ SameRef(c.x, c.x))
ASSUME MroShape
=============================================================================
