SPECIFICATION Spec
CONSTANTS
  L = 0
  Wide = TRUE
INVARIANT V4NeedsFour
INVARIANT V6NeverNine
INVARIANT CidrNeedsPrefix
INVARIANT MacNeedsSix
CONSTRAINT Emit
CHECK_DEADLOCK FALSE
