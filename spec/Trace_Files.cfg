SPECIFICATION TSpec
CONSTRAINT Done
CONSTRAINT Diag
INVARIANT Tiled
INVARIANT WholeContent
CHECK_DEADLOCK FALSE
