----------------------------- MODULE PatchWarn -----------------------------
(***************************************************************************)
(* eventletutils.warn_eventlet_not_patched as a decision table: which      *)
(* modules are asked about (the expansion of 'all', unknown names), whether *)
(* eventlet is there at all, whether anything has been patched (the         *)
(* patcher's private table: absent, empty or not), and which of the         *)
(* modules asked about are patched.  One RuntimeWarning naming the missing  *)
(* ones in sorted order, or nothing; an unknown name among those given is a *)
(* ValueError before anything else is looked at (also next to 'all', also   *)
(* when eventlet is not there).                                             *)
(***************************************************************************)
EXTENDS Integers, Sequences, FiniteSets, TLC

VARIABLE c

AllPatch == {"MySQLdb", "__builtin__", "os", "psycopg", "select", "socket", "thread", "time"}
Names == {"os", "thread", "all", "bogus"}
Expected == {<<>>} \cup {<<a>> : a \in Names} \cup {<<a, b>> : a \in Names, b \in Names}
Cases == {[expected |-> e, given |-> g, avail |-> a, table |-> t, patched |-> p] :
            e \in Expected, g \in BOOLEAN,      \* given = FALSE: the argument is left out (None)
            a \in BOOLEAN, t \in {"absent", "empty", "some"}, p \in SUBSET {"os", "thread", "time"}}

Unknown(e) == \E i \in 1..Len(e) : e[i] \notin AllPatch \cup {"all"}
Expand(x) == IF ~x.given \/ x.expected = <<>> THEN AllPatch
             ELSE UNION {IF x.expected[i] = "all" THEN AllPatch ELSE {x.expected[i]} : i \in 1..Len(x.expected)}
Ref(x) ==
  IF x.given /\ Unknown(x.expected) THEN [k |-> "ValueError", missing |-> {}]
  ELSE IF ~x.avail \/ x.table = "empty" THEN [k |-> "silent", missing |-> {}]
  ELSE LET miss == Expand(x) \ x.patched IN
         IF miss = {} THEN [k |-> "silent", missing |-> {}] ELSE [k |-> "warns", missing |-> miss]

Init == c \in Cases
Next == FALSE /\ UNCHANGED c
Spec == Init /\ [][Next]_c

\* laws of the table
\* nothing is said when everything asked about is patched, or when nothing at all has been patched yet
SilentWhenDone == (Ref(c).k = "warns") => (c.avail /\ c.table # "empty" /\ Ref(c).missing # {})
\* 'all' and no argument ask about the same modules
AllIsDefault == (c.given /\ c.expected = <<"all">>) => Ref(c) = Ref([c EXCEPT !.given = FALSE])
\* the order of the names does not matter (when none is unknown)
OrderFree == (c.given /\ Len(c.expected) = 2 /\ ~Unknown(c.expected)) =>
               Ref(c) = Ref([c EXCEPT !.expected = <<c.expected[2], c.expected[1]>>])
\* what is reported missing was asked about and is not patched
MissingSound == Ref(c).missing \subseteq (Expand(c) \ c.patched)
=============================================================================
