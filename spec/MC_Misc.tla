------------------------------- MODULE MC_Misc -------------------------------
EXTENDS Misc, Json
Out == IF c.k = "time_it" THEN [logged |-> TimeItLogged(c)] ELSE [pairs |-> Flatten(c.tree)]
Emit == PrintT(ToJson([c |-> c, ref |-> Out]))
=============================================================================
