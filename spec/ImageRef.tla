------------------------------ MODULE ImageRef ------------------------------
(***************************************************************************)
(* Denotational reference for the ten image inspectors of                   *)
(* oslo_utils.imageutils.format_inspector at REAL scale: an image is an     *)
(* abstract layout record (decoded fields, entry counts, pointers as        *)
(* numbers < 2^31, 64-bit quantities as symbolic tokens that only the       *)
(* harness expands -- TLC integers are 32-bit); Ref(L) is the verdict       *)
(*   [safety, match, complete, size, fails]                                 *)
(* as a function of the layout alone -- no chunks, no engine.  TLC          *)
(* enumerates the bounded families below (Layouts), checks the model-level  *)
(* clauses of C02 (FailClosed, CleanAccepted: the declarative list of       *)
(* unsafe traits from the property text against the operational Ref) and    *)
(* exports one (layout, Ref) record per layout; lib/vf/images.py builds the *)
(* bytes and the checks stream them through the real inspectors under many  *)
(* chunkings (C01), observe retention (C05), the safety outcome and the CLI *)
(* (C02) and virtual_size over every proper prefix (C07).                   *)
(*                                                                         *)
(* safety: "ok" | "fail" (fails = names of the failing checks) |            *)
(*         "rejected" (safety_check refused: incomplete / no match, or the  *)
(*         inspector raised ImageFormatError while streaming)               *)
(* size:   [k |-> "zero"] | [k |-> "tok", t] | [k |-> "len"] |              *)
(*         [k |-> "x512", t] | [k |-> "mul", a, b] | [k |-> "len_minus_x512", t] *)
(***************************************************************************)
EXTENDS Integers, Sequences, FiniteSets, TLC

VARIABLE img

Min(a, b) == IF a < b THEN a ELSE b
Max(a, b) == IF a > b THEN a ELSE b
Clamp(x, lo, hi) == Max(lo, Min(x, hi))

Zero == [k |-> "zero"]
Tok(t) == [k |-> "tok", t |-> t]
V(sf, m, c, sz, f) == [safety |-> sf, match |-> m, complete |-> c, size |-> sz, fails |-> f]
Rejected == V("rejected", FALSE, FALSE, Zero, {})      \* eat_chunk raised
\* generic aggregation of FileInspector.safety_check
Agg(m, c, sz, f) == V(IF ~(m /\ c) THEN "rejected" ELSE IF f = {} THEN "ok" ELSE "fail",
                      m, c, sz, IF m /\ c THEN f ELSE {})

SizeToks == {"0", "1", "511", "512", "513", "2^31-1", "2^31", "2^32-1", "2^32", "2^32+1",
             "2^40", "2^63-1", "2^63", "2^64-1", "10G"}
KiB == 1024

-----------------------------------------------------------------------------
(* qcow2: 512-byte header region; magic@0 version@4 backing-file offset@8    *)
(* size@24 incompatible features@72 (64 bits, big endian)                    *)
Q0 == [fmt |-> "qcow2", magic |-> TRUE, version |-> "3", bf |-> "0", feat |-> {},
       size |-> "10G", total |-> 1024]
KnownBits == {0, 1, 2, 3}
FeatSets == {{}} \cup {{b} : b \in 0..63} \cup SUBSET KnownBits
            \cup {{0, 5}, {2, 63}, {3, 4}, {1, 3, 40}, {4}, {4, 5, 6, 7}}
Versions == {"0", "1", "2", "3", "4", "5", "2^16", "2^32-1"}
BfToks == {"0", "1", "2^63", "2^64-1"}
QcowLayouts ==
     {[Q0 EXCEPT !.version = v, !.bf = b, !.feat = f] : v \in Versions, b \in BfToks, f \in FeatSets}
\cup {[Q0 EXCEPT !.magic = FALSE, !.version = v, !.feat = f] : v \in {"2", "3"}, f \in {{}, {2}, {9}}}
\cup {[Q0 EXCEPT !.size = s, !.total = t, !.version = v] :
          s \in SizeToks, t \in {0, 3, 104, 511, 512, 513, 1024}, v \in {"2", "3"}}

QcowRef(L) ==
  LET c == L.total >= 512
      m == c /\ L.magic
      f == (IF L.bf # "0" THEN {"backing_file"} ELSE {})
           \cup (IF 2 \in L.feat THEN {"data_file"} ELSE {})
           \cup (IF L.version = "2" THEN {}
                 ELSE IF L.version # "3" THEN {"unknown_features"}
                 ELSE IF \E b \in L.feat : b >= 4 THEN {"unknown_features"} ELSE {})
  IN Agg(m, c, IF m THEN Tok(L.size) ELSE Zero, f)
\* the property's list: backing file, external data file, unknown incompatible
\* feature bit (version 3 carries the feature array), version other than 2 or 3
QcowUnsafe(L) == \/ L.bf # "0" \/ 2 \in L.feat
                 \/ (L.version = "3" /\ \E b \in L.feat : b \notin KnownBits)
                 \/ L.version \notin {"2", "3"}
QcowClean(L) == /\ L.magic /\ L.total >= 512 /\ L.bf = "0" /\ L.version \in {"2", "3"}
                /\ L.feat \subseteq {0, 1, 3}

-----------------------------------------------------------------------------
(* QED: detected, always banned *)
QedLayouts == {[fmt |-> "qed", magic |-> m, total |-> t] :
                 m \in BOOLEAN, t \in {0, 3, 4, 511, 512, 513, 1024}}
QedRef(L) == LET c == L.total >= 512  m == c /\ L.magic
             IN Agg(m, c, [k |-> "len"], {"banned"})

(* VHD: 'conectix' prefix test (does not need completeness), size@40 *)
VhdLayouts == {[fmt |-> "vhd", magic |-> m, size |-> s, total |-> t] :
                 m \in BOOLEAN, s \in SizeToks, t \in {0, 7, 8, 47, 48, 511, 512, 513, 1024}}
VhdRef(L) == LET c == L.total >= 512  m == L.magic /\ L.total >= 8
             IN Agg(m, c, IF c /\ m THEN Tok(L.size) ELSE Zero, {})

(* VDI: signature@0x40 needs the whole 512-byte header, size@0x170 *)
VdiLayouts == {[fmt |-> "vdi", magic |-> m, size |-> s, total |-> t] :
                 m \in BOOLEAN, s \in SizeToks, t \in {0, 67, 68, 511, 512, 513, 1024}}
VdiRef(L) == LET c == L.total >= 512  m == c /\ L.magic
             IN Agg(m, c, IF m THEN Tok(L.size) ELSE Zero, {})

(* ISO: 32 KiB system area + 2 KiB descriptor; sig@1 of the descriptor;      *)
(* size = volume blocks (LE half) x block size (LE half) of a primary VD     *)
IsoLayouts ==
     {[fmt |-> "iso", sig |-> s, dtype |-> d, blocks |-> b, bs |-> z, total |-> t] :
        s \in {"CD001", "NSR02", "NSR03", "bad"}, d \in {0, 1, 2, 255},
        b \in {"0", "1", "2048", "2^31", "2^32-1"}, z \in {"0", "512", "2048", "2^16-1"},
        t \in {35328}}
\cup {[fmt |-> "iso", sig |-> s, dtype |-> 1, blocks |-> "2048", bs |-> "2048", total |-> t] :
        s \in {"CD001", "bad"}, t \in {0, 512, 32767, 32768, 32774, 34815, 34816, 34817}}
IsoRef(L) == LET c == L.total >= 34816
                 m == c /\ L.sig # "bad"
             IN Agg(m, c, IF m /\ L.dtype = 1 THEN [k |-> "mul", a |-> L.blocks, b |-> L.bs] ELSE Zero, {})

(* LUKS: 592-byte header; magic prefix@0 (6 bytes), version@6 (signed),      *)
(* payload offset@104 in sectors; size = stream length - payload*512         *)
LuksLayouts == {[fmt |-> "luks", magic |-> m, version |-> v, payload |-> p, total |-> t] :
                  m \in BOOLEAN, v \in {-1, 0, 1, 2, 3, 256}, p \in {"0", "1", "2048"},
                  t \in {108, 591, 592, 593, 4096}}
LuksRef(L) == LET c == L.total >= 592  m == L.magic
              IN Agg(m, c, [k |-> "len_minus_x512", t |-> L.payload],
                     IF L.version # 1 THEN {"version"} ELSE {})

(* raw: nothing to capture, always matches *)
RawLayouts == {[fmt |-> "raw", kind |-> k, total |-> t] :
                 k \in {"zero", "random", "text"}, t \in {0, 1, 511, 512, 1024, 70000}}
RawRef(L) == Agg(TRUE, TRUE, [k |-> "len"], {})

-----------------------------------------------------------------------------
(* GPT / MBR: 512-byte sector, signature@510, four 16-byte entries @446;     *)
(* a FAT boot sector (num_fats = 2, media = 0xF8) is not an MBR              *)
Boots == {"00", "80", "bad"}
Types == {"00", "EE", "other"}
Ent(b, t, chs, lba) == [boot |-> b, type |-> t, chs_ok |-> chs, lba_ok |-> lba]
Plain(b, t) == Ent(b, t, TRUE, TRUE)
EntSet == {Plain(b, t) : b \in Boots, t \in Types}
\* all 2^4 x type x boot tables of the bounded family + CHS/LBA perturbations
GptLayouts ==
     {[fmt |-> "gpt", sig |-> TRUE, fat |-> FALSE, total |-> 2048,
       entries |-> <<e1, e2, e3, e4>>] : e1 \in EntSet, e2 \in EntSet, e3 \in EntSet, e4 \in EntSet}
\cup {[fmt |-> "gpt", sig |-> TRUE, fat |-> FALSE, total |-> 2048,
       entries |-> <<Ent("00", "EE", c, l), Plain("00", t2), Plain("00", "00"), Plain("00", "00")>>] :
          c \in BOOLEAN, l \in BOOLEAN, t2 \in Types}
\cup {[fmt |-> "gpt", sig |-> s, fat |-> f, total |-> t,
       entries |-> <<Plain("80", "other"), Plain("00", "00"), Plain("00", "00"), Plain("00", "00")>>] :
          s \in BOOLEAN, f \in BOOLEAN, t \in {0, 446, 510, 511, 512, 513, 2048}}

GptFails(L) ==
  LET E == L.entries
      valid == {i \in 1..4 : E[i].type # "00"}
      gpt == \E i \in 1..4 : E[i].type = "EE"
      bad == \/ \E i \in 1..4 : E[i].boot = "bad"
             \/ \E i \in 1..4 : E[i].type = "EE" /\ (~E[i].chs_ok \/ ~E[i].lba_ok)
             \/ (gpt /\ valid # {1})
             \/ valid = {}
  IN IF bad THEN {"mbr"} ELSE {}
GptRef(L) == LET c == L.total >= 512  m == c /\ L.sig /\ ~L.fat
             IN Agg(m, c, [k |-> "len"], GptFails(L))
\* the property's list: invalid boot flag, misplaced or accompanied protective
\* partition, no partition
GptUnsafe(L) ==
  LET E == L.entries IN
  \/ \E i \in 1..4 : E[i].boot \notin {"00", "80"}
  \/ \E i \in 1..4 : E[i].type = "EE" /\ (i # 1 \/ ~E[i].chs_ok \/ ~E[i].lba_ok)
  \/ (\E i \in 1..4 : E[i].type = "EE") /\ (\E j \in 2..4 : E[j].type # "00")
  \/ \A i \in 1..4 : E[i].type = "00"
GptClean(L) == L.sig /\ ~L.fat /\ L.total >= 512 /\ ~GptUnsafe(L)

-----------------------------------------------------------------------------
(* VHDX: ident(0,32) 'vhdxfile'; region table at 192 KiB (64 KiB): 'regi',   *)
(* count, 32-byte entries from +16; the metadata region entry gives the      *)
(* offset of the metadata table ('metadata', count@10, 32-byte entries from  *)
(* +32, capture capped at 64 KiB); the virtual-disk-size entry gives an      *)
(* offset relative to the table where the 8-byte size lives.                 *)
HdrEnd == 256 * KiB
TableCap == 64 * KiB
X0 == [fmt |-> "vhdx", ident |-> TRUE, regi |-> TRUE, rmeta |-> TRUE, rpad |-> 0, rpost |-> 0, rpost_len |-> "1048576",
       rcount |-> -1, meta_off |-> 320 * KiB, msig |-> TRUE, mcount |-> -1, mpad |-> 0, mpost |-> 0,
       mvds |-> TRUE, item_off |-> 64 * KiB, item_len |-> "8", size |-> "10G", total |-> -1,
       \* the length the region table announces for the metadata region: the inspector does not use it (it always
       \* captures the 64 KiB a table can occupy), so no verdict depends on it - but it is a length field a stream controls
       meta_len |-> "1048576",
       \* the flags word of the virtual-disk-size entry (IsUser / IsVirtualDisk / IsRequired): not consulted either
       item_flags |-> "0"]
ItemLen(t) == CASE t = "8" -> 8 [] t = "0" -> 0 [] t = "4" -> 4 [] t = "16" -> 16 [] OTHER -> TableCap   \* clamped to 64 KiB
XEnd(L) == L.meta_off + L.item_off + 8
VhdxLayouts ==
     {[X0 EXCEPT !.size = s] : s \in SizeToks}
\cup {[X0 EXCEPT !.ident = a, !.regi = b, !.msig = c, !.rmeta = d, !.mvds = e] :
         a \in BOOLEAN, b \in BOOLEAN, c \in BOOLEAN, d \in BOOLEAN, e \in BOOLEAN}
\cup {[X0 EXCEPT !.rpad = rp, !.rpost = ro, !.mpad = mp, !.mpost = mo] :
         rp \in {0, 1, 2, 2045, 2046}, ro \in {0, 1}, mp \in {0, 1, 2, 2045, 2046}, mo \in {0, 1}}
\cup {[X0 EXCEPT !.rpad = rp, !.rcount = rc] : rp \in {0, 1, 3}, rc \in {0, 1, 2, 4, 2047, 2048, 65535}}
\cup {[X0 EXCEPT !.mpad = mp, !.mcount = mc] : mp \in {0, 1, 3}, mc \in {0, 1, 2, 4, 2047, 2048, 65535}}
\cup {[X0 EXCEPT !.meta_off = mo, !.item_off = io, !.mpad = mp] :
         mo \in {0, 64 * KiB, 128 * KiB, 192 * KiB, 224 * KiB, 256 * KiB - 32, 256 * KiB, 320 * KiB, 1024 * KiB},
         io \in {0, 32, 63, 64, 96, 128, 4096, 64 * KiB, 64 * KiB + 8, 1024 * KiB}, mp \in {0, 2}}
\cup {[X0 EXCEPT !.total = t] :
         t \in {0, 7, 8, 31, 32, 192 * KiB + 16, 256 * KiB - 1, 256 * KiB, 320 * KiB, 320 * KiB + 31,
                320 * KiB + 32, 320 * KiB + 63, 320 * KiB + 64, 384 * KiB, 384 * KiB + 7, 384 * KiB + 8,
                384 * KiB + 9}}

VhdxRef(L) ==
  LET total == IF L.total = -1 THEN XEnd(L) + 4096 ELSE L.total
      m == L.ident /\ total >= 8
      identc == total >= 32
      nreg == L.rpad + (IF L.rmeta THEN 1 ELSE 0) + L.rpost
      rcount == IF L.rcount = -1 THEN nreg ELSE L.rcount
      nment == L.mpad + (IF L.mvds THEN 1 ELSE 0) + L.mpost
      mcount == IF L.mcount = -1 THEN nment ELSE L.mcount
  IN
  IF total < HdrEnd THEN Agg(m, FALSE, Zero, {})
  ELSE IF ~L.regi THEN Rejected
  ELSE IF rcount >= 2048 THEN Rejected
  ELSE IF ~(L.rmeta /\ L.rpad < rcount) THEN Agg(m, identc, Zero, {})      \* no metadata region entry
  ELSE IF L.meta_off < HdrEnd THEN Rejected                                \* pointer into streamed structures
  ELSE LET avail == Clamp(total - L.meta_off, 0, TableCap) IN
       IF avail < 32 THEN Agg(m, FALSE, Zero, {})
       ELSE IF ~L.msig THEN Rejected
       ELSE LET es == 32 + mcount * 32 IN
            IF avail < es THEN Agg(m, avail = TableCap, Zero, {})
            ELSE IF ~(L.mvds /\ L.mpad < mcount) THEN Agg(m, avail = TableCap, Zero, {})
            ELSE IF L.item_off < es THEN Rejected                          \* item inside the entry table
            ELSE LET c == total >= L.meta_off + L.item_off + ItemLen(L.item_len)
                 IN Agg(m, c, IF c THEN Tok(L.size) ELSE Zero, {})

VhdxClean(L) == /\ L.ident /\ L.regi /\ L.rmeta /\ L.msig /\ L.mvds /\ L.rcount = -1 /\ L.mcount = -1
                /\ L.meta_off >= HdrEnd /\ L.item_off >= 32 + (L.mpad + 1 + L.mpost) * 32
                /\ L.total = -1 /\ L.item_len = "8"
                /\ L.rpad + 1 + L.rpost <= 2047 /\ L.mpad + 1 + L.mpost <= 2047

-----------------------------------------------------------------------------
(* VMDK (hosted sparse extent): 512-byte header KDMV, version, capacity,     *)
(* descriptor offset/size in sectors, gdOffset (all ones = footer at end);   *)
(* text descriptor at sector 1; optional 1536-byte footer (marker, header    *)
(* copy, end-of-stream marker).                                              *)
DescCap == 1024 * KiB - 1
LineClasses == {"comment", "blank", "version", "cid", "parent", "ddb", "ddb2", "extent_rw",
                "extent_rdonly", "extent_noaccess", "extent_path", "extent_relpath", "junk",
                \* junk_rwx: begins with an access keyword without being one ("RWX 2048 ...")
                "junk_eq_space", "junk_rwx", "ct_mono", "ct_stream", "ct_upper", "ct_flat", "ct_vmfs",
                "ct_long", "ct_unterminated", "nonascii",
                "nonascii_start"}     \* a line that is one byte above 127 (nothing before it on its line)
CtLines == {"ct_mono", "ct_stream", "ct_upper", "ct_flat", "ct_vmfs", "ct_long", "ct_unterminated"}
CtOk == {"ct_mono", "ct_stream", "ct_upper"}
Extents == {"extent_rw", "extent_rdonly", "extent_noaccess", "extent_path", "extent_relpath"}
Ignored == {"comment", "blank", "version", "cid", "parent", "ddb", "ddb2"} \cup CtLines
StdLines == <<"comment", "version", "cid", "parent", "ct_mono", "blank", "extent_rw", "blank", "ddb">>
NoFooter == [present |-> FALSE, pert |-> "none"]
FooterPerts == {"none", "sig", "ver", "desc_sec", "desc_num", "gd_at_end", "m_size", "m_type",
                "m_pad", "e_val", "e_size", "e_type", "e_pad", "m_val"}
M0 == [fmt |-> "vmdk", sig |-> TRUE, ver |-> 1, desc_sec |-> "1", desc_num |-> "20",
       sectors |-> "2048", lines |-> StdLines, footer |-> NoFooter, total |-> -1,
       \* what stands where the layout has nothing to say (sector padding, the data area): NUL bytes, or text without
       \* a single NUL - the descriptor parser looks for the first NUL, so a stream controls how far it looks -
       \* or "exact": the descriptor text fills its sectors to the last byte and ends in the createType line
       fill |-> "nul",
       \* the grain-directory offset of the sparse header: not consulted by the inspector (only the GD-at-end sentinel,
       \* which the footer field of the layout stands for, is) - one more 64-bit field the stream controls
       gd |-> "21"]
Repl(q, i, x) == [q EXCEPT ![i] = x]
VmdkLayouts ==
     {[M0 EXCEPT !.fill = "exact", !.desc_num = dn, !.footer = f] :
         dn \in {"1", "20"}, f \in {NoFooter, [present |-> TRUE, pert |-> "none"]}}
\cup {[M0 EXCEPT !.sectors = s, !.footer = f] :
         s \in {"0", "1", "2048", "2^32-1", "2^32", "2^55-1"}, f \in {NoFooter, [present |-> TRUE, pert |-> "none"]}}
\cup {[M0 EXCEPT !.sig = a, !.ver = v, !.desc_sec = ds] :
         a \in BOOLEAN, v \in {0, 1, 2, 3, 4}, ds \in {"0", "1", "2", "2^55"}}
\cup {[M0 EXCEPT !.desc_num = dn, !.total = t] :
         dn \in {"0", "1", "20", "2047", "2048", "2^55", "2^64-1"}, t \in {-1, 600, 1100000}}
\cup {[M0 EXCEPT !.footer = [present |-> TRUE, pert |-> p]] : p \in FooterPerts}
     \* every ordered pair of line classes replacing the createType / extent lines
\cup {[M0 EXCEPT !.lines = Repl(Repl(StdLines, 5, a), 7, b)] : a \in LineClasses, b \in LineClasses}
     \* an extra line of every class at the end; no extent; no createType
\cup {[M0 EXCEPT !.lines = Append(StdLines, a)] : a \in LineClasses}
     \* what follows a byte that does not decode is not read at all: nothing behind it can make the image acceptable
\cup {[M0 EXCEPT !.lines = StdLines \o <<"nonascii_start", a>>] : a \in {"extent_path", "junk", "blank", "extent_rw"}}
\cup {[M0 EXCEPT !.lines = <<>>], [M0 EXCEPT !.lines = <<"ct_mono">>],
      [M0 EXCEPT !.lines = <<"extent_rw">>], [M0 EXCEPT !.lines = <<"ct_mono", "extent_rw">>]}
\cup {[M0 EXCEPT !.total = t, !.footer = f] :
         t \in {63, 64, 65, 511, 512, 513, 2000, 10751, 10752, 10753},
         f \in {NoFooter}}

SeqSet(q) == {q[i] : i \in 1..Len(q)}
DescNumBytes(dn) == CASE dn = "0" -> 0 [] dn = "1" -> 512 [] dn = "20" -> 10240
                      [] dn = "2047" -> 2047 * 512 [] OTHER -> DescCap
VmdkDescFails(L) ==
  LET q == L.lines
      S == SeqSet(q)
      cts == {i \in 1..Len(q) : q[i] \in CtLines}
      first == IF cts = {} THEN "none" ELSE q[CHOOSE i \in cts : \A j \in cts : i <= j]
      bad == \/ S \cap {"nonascii", "nonascii_start"} # {}   \* descriptor does not decode
             \/ first \notin CtOk                      \* missing / unsupported createType
             \/ S \cap {"junk", "junk_eq_space", "junk_rwx"} # {}  \* a line that is not understood
             \/ S \cap {"extent_path", "extent_relpath"} # {}
             \/ S \cap Extents = {}
             \/ DescNumBytes(L.desc_num) = 0
  IN IF bad THEN {"descriptor"} ELSE {}
VmdkTypeOk(L) ==
  LET q == L.lines
      cts == {i \in 1..Len(q) : q[i] \in CtLines}
  IN /\ SeqSet(q) \cap {"nonascii", "nonascii_start"} = {} /\ cts # {} /\ DescNumBytes(L.desc_num) > 0
     /\ q[CHOOSE i \in cts : \A j \in cts : i <= j] \in CtOk
VmdkRef(L) ==
  LET dsize == DescNumBytes(L.desc_num)
      natural == 512 + Max(dsize, 512) + 2048 + (IF L.footer.present THEN 1536 ELSE 0)
      total == IF L.total = -1 THEN natural ELSE L.total
  IN
  IF total < 64 THEN Agg(total >= 4 /\ L.sig, FALSE, Zero, {})
  ELSE IF ~L.sig THEN Rejected                \* (binary header without KDMV)
  ELSE IF L.ver \notin {1, 2, 3} THEN Rejected
  ELSE IF L.desc_sec # "1" THEN Rejected
  ELSE LET dc == total >= 512 + dsize
           fc == ~L.footer.present \/ total >= 1536
           c == dc /\ fc
           f == VmdkDescFails(L) \cup (IF L.footer.present /\ L.footer.pert \notin {"none", "m_val"}
                                       THEN {"footer"} ELSE {})
       IN Agg(TRUE, c, IF dc /\ VmdkTypeOk(L) THEN [k |-> "x512", t |-> L.sectors] ELSE Zero, f)
\* the property's list: descriptor missing, misplaced, of another type, with an
\* unrecognised line, no extent or an extent naming a path, footer contradicting
VmdkUnsafe(L) ==
  \/ VmdkDescFails(L) # {} \/ L.desc_sec # "1"
  \/ (L.footer.present /\ L.footer.pert \notin {"none", "m_val"})
VmdkClean(L) == /\ L.sig /\ L.ver \in {1, 2, 3} /\ L.total = -1 /\ ~VmdkUnsafe(L)


-----------------------------------------------------------------------------
(* C07: the stream position from which the size is known (the structure that  *)
(* carries it has been captured completely); before it virtual_size is 0      *)
CarrierEnd(L) ==
  CASE L.fmt \in {"qcow2", "vhd", "vdi"} -> 512
    [] L.fmt = "iso" -> 34816
    [] L.fmt = "vhdx" -> L.meta_off + L.item_off + 8
    [] L.fmt = "vmdk" -> 512 + DescNumBytes(L.desc_num)
    [] OTHER -> 0
SizedFormats == {"qcow2", "vhd", "vdi", "iso", "vhdx", "vmdk"}

-----------------------------------------------------------------------------
(* C05: retention caps.  Whatever the stream announces, region r of format f  *)
(* never holds more than Cap(f, r) bytes, and the caps of a format sum to at  *)
(* most Bound(f): 1.5 MiB for VMDK, 512 KiB otherwise.                        *)
Cap(f, r) ==
  CASE f = "iso" /\ r = "system_area" -> 32768
    [] f = "iso" /\ r = "header" -> 2048
    [] f = "luks" -> 592
    [] f = "vhdx" /\ r = "ident" -> 32
    [] f = "vhdx" -> 65536                      \* header, metadata, vds
    [] f = "vmdk" /\ r = "header" -> 512
    [] f = "vmdk" /\ r = "descriptor" -> DescCap
    [] f = "vmdk" /\ r = "footer" -> 1536
    [] OTHER -> 512                             \* qcow2 qed vhd vdi gpt: one 512-byte region
RegionsOf(f) ==
  CASE f = "iso" -> {"system_area", "header"} [] f = "vhdx" -> {"ident", "header", "metadata", "vds"}
    [] f = "vmdk" -> {"header", "descriptor", "footer"} [] f = "gpt" -> {"mbr"}
    [] f = "raw" -> {} [] OTHER -> {"header"}
Bound(f) == IF f = "vmdk" THEN 1536 * KiB ELSE 512 * KiB
RECURSIVE SumCaps(_, _)
SumCaps(f, S) == IF S = {} THEN 0 ELSE LET r == CHOOSE x \in S : TRUE IN Cap(f, r) + SumCaps(f, S \ {r})
AllFormats == {"qcow2", "qed", "vhd", "vdi", "iso", "gpt", "luks", "raw", "vhdx", "vmdk"}
ASSUME CapsWithinBound == \A f \in AllFormats : SumCaps(f, RegionsOf(f)) <= Bound(f)

(* hostile layouts: every length / count / offset field at boundary and       *)
(* maximal values on streams of several MiB                                   *)
Big == 3 * 1024 * KiB
HostileLayouts ==
     {[M0 EXCEPT !.desc_num = dn, !.total = Big, !.footer = f, !.sectors = "2^55-1"] :
         dn \in {"2047", "2048", "2^55", "2^64-1"}, f \in {NoFooter, [present |-> TRUE, pert |-> "none"]}}
     \* every 64-bit field of the header at its ends, in combination (a bound must not rest on two fields being sane together)
\cup {[M0 EXCEPT !.desc_num = dn, !.gd = g, !.total = Big, !.sectors = sc] :
         dn \in {"0", "1", "2^64-1"}, g \in {"0", "21", "4096", "2^55", "2^64-2"}, sc \in {"0", "2^64-1"}}
\cup {[M0 EXCEPT !.desc_num = dn, !.total = Big, !.fill = "text", !.footer = f] :
         dn \in {"1", "20", "2048"}, f \in {NoFooter, [present |-> TRUE, pert |-> "none"]}}
\cup {[X0 EXCEPT !.item_len = il, !.mcount = mc, !.mpad = mp, !.total = Big, !.meta_off = mo] :
         il \in {"8", "65536", "65537", "2^32-1"}, mc \in {-1, 2047, 2048, 65535}, mp \in {0, 2046},
         mo \in {256 * KiB, 1024 * KiB}}
\cup {[X0 EXCEPT !.rcount = rc, !.rpad = rp, !.total = Big] : rc \in {2047, 2048, 65535}, rp \in {0, 2046}}
     \* the metadata entry is not the last one of the region table, and what follows it announces a huge region
\cup {[X0 EXCEPT !.rpost = ro, !.rpost_len = "2^32-1", !.mvds = mv, !.total = Big, !.meta_off = mo] :
         ro \in {1, 3}, mv \in BOOLEAN, mo \in {256 * KiB, 1024 * KiB}}
     \* a refused header (descriptor not at sector 1) announcing a huge descriptor: what was registered before the refusal
\cup {[M0 EXCEPT !.desc_sec = ds, !.desc_num = dn, !.total = Big] : ds \in {"2", "2^55"}, dn \in {"2048", "2^55", "2^64-1"}}
     \* the size item inside the table window (before, at and behind the entries), with and without padding entries
\cup {[X0 EXCEPT !.item_off = io, !.item_len = il, !.mpad = mp, !.total = Big] :
         io \in {96, 4096, 32768}, il \in {"8", "2^32-1"}, mp \in {0, 100}}
\cup {[X0 EXCEPT !.item_flags = fl, !.item_len = il, !.total = Big, !.meta_off = mo] :
         fl \in {"1", "6", "7", "2^32-1"}, il \in {"65537", "2^32-1"}, mo \in {256 * KiB, 1024 * KiB}}
\cup {[X0 EXCEPT !.meta_len = ml, !.item_off = io, !.item_len = il, !.total = Big] :
         ml \in {"0", "8", "65536", "2^32-1"}, io \in {64 * KiB, 64 * KiB + 8, 128 * KiB}, il \in {"8", "2^32-1"}}
\cup {[fmt |-> "raw", kind |-> k, total |-> Big] : k \in {"text", "random", "zero"}}
\cup {[Q0 EXCEPT !.total = Big], [fmt |-> "iso", sig |-> "CD001", dtype |-> 1, blocks |-> "2^32-1",
                                  bs |-> "2^16-1", total |-> Big],
      [fmt |-> "luks", magic |-> TRUE, version |-> 1, payload |-> "2^32-1", total |-> Big],
      [fmt |-> "gpt", sig |-> TRUE, fat |-> FALSE, total |-> Big,
       entries |-> <<Plain("00", "EE"), Plain("00", "00"), Plain("00", "00"), Plain("00", "00")>>]}
InitHostile == img \in HostileLayouts

-----------------------------------------------------------------------------
Layouts == QcowLayouts \cup QedLayouts \cup VhdLayouts \cup VdiLayouts \cup IsoLayouts
           \cup LuksLayouts \cup RawLayouts \cup GptLayouts \cup VhdxLayouts \cup VmdkLayouts

Ref(L) == CASE L.fmt = "qcow2" -> QcowRef(L) [] L.fmt = "qed" -> QedRef(L)
            [] L.fmt = "vhd" -> VhdRef(L) [] L.fmt = "vdi" -> VdiRef(L)
            [] L.fmt = "iso" -> IsoRef(L) [] L.fmt = "luks" -> LuksRef(L)
            [] L.fmt = "raw" -> RawRef(L) [] L.fmt = "gpt" -> GptRef(L)
            [] L.fmt = "vhdx" -> VhdxRef(L) [] L.fmt = "vmdk" -> VmdkRef(L)

(* FileInspector.from_file(path): reads 512-byte chunks and stops as soon as the inspector is   *)
(* complete; it returns the inspector iff the stream (as far as read) is complete and matches,  *)
(* else ImageFormatError.  ReadUpTo(L) is the stream position from which a clean image is       *)
(* complete (the end of its last structure; the whole stream when an end region is involved);   *)
(* actual_size of the returned inspector is that position rounded up to the read size, capped   *)
(* by the stream length.                                                                        *)
FromFile(L) == IF Ref(L).match /\ Ref(L).complete THEN "inspector" ELSE "ImageFormatError"
ReadUpTo(L) ==
  CASE L.fmt \in {"qcow2", "qed", "vhd", "vdi", "gpt"} -> 512
    [] L.fmt = "luks" -> 592
    [] L.fmt = "iso" -> 34816
    [] L.fmt = "raw" -> 1
    [] L.fmt = "vhdx" -> L.meta_off + L.item_off + 8
    [] L.fmt = "vmdk" -> IF L.footer.present THEN -1 ELSE 512 + DescNumBytes(L.desc_num)     \* -1: whole stream

Unsafe(L) == CASE L.fmt = "qcow2" -> QcowUnsafe(L) [] L.fmt = "qed" -> TRUE
               [] L.fmt = "luks" -> L.version # 1 [] L.fmt = "gpt" -> GptUnsafe(L)
               [] L.fmt = "vmdk" -> VmdkUnsafe(L) [] OTHER -> FALSE
Clean(L) == CASE L.fmt = "qcow2" -> QcowClean(L) [] L.fmt = "qed" -> FALSE
              [] L.fmt = "vhd" -> L.magic /\ L.total >= 512
              [] L.fmt = "vdi" -> L.magic /\ L.total >= 512
              [] L.fmt = "iso" -> L.sig # "bad" /\ L.total >= 34816
              [] L.fmt = "luks" -> L.magic /\ L.version = 1 /\ L.total >= 592
              [] L.fmt = "raw" -> TRUE [] L.fmt = "gpt" -> GptClean(L)
              [] L.fmt = "vhdx" -> VhdxClean(L) [] L.fmt = "vmdk" -> VmdkClean(L)

Init == img \in Layouts
Next == FALSE /\ UNCHANGED img
Spec == Init /\ [][Next]_img

(* C02 on the model: the operational reference never accepts what the        *)
(* property's declarative list calls unsafe, nor anything incomplete or not   *)
(* matching; and every clean image (QED excepted) is accepted                 *)
FailClosed == Ref(img).safety = "ok" => /\ Ref(img).match /\ Ref(img).complete
                                        /\ ~Unsafe(img) /\ Ref(img).fails = {}
FailHasReason == Ref(img).safety = "fail" <=> Ref(img).fails # {}
CleanAccepted == Clean(img) => Ref(img).safety = "ok"
QedNeverAccepted == img.fmt = "qed" => Ref(img).safety # "ok"
(* C07 on the model: a rejected or incomplete image reports no size for the   *)
(* four formats whose size accessor is guarded by the signature (VHDX and VMDK report the carried size regardless) *)
SizeOnlyWhenCarried ==
  (img.fmt \in {"qcow2", "vhd", "vdi", "iso"} /\ ~Ref(img).match)
     => Ref(img).size = Zero
=============================================================================
