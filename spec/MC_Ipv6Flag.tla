---------------------------- MODULE MC_Ipv6Flag ----------------------------
EXTENDS Ipv6Flag, Json
Export == Len(hist) = Depth + 1 => PrintT(ToJson([hist |-> hist, reads |-> reads]))
=============================================================================
