---------------------------- MODULE SafetyCheck -----------------------------
(***************************************************************************)
(* FileInspector.safety_check (format_inspector.py:404-430) and             *)
(* SafetyCheck.__call__ (142-155) as a transition system:                   *)
(*   Construct ; Begin ; Gate ; RunCheck(c)* ; Conclude                     *)
(* The inspector's situation (complete, match) and the behaviour of every    *)
(* registered check (script) are chosen in Init; TLC explores every          *)
(* combination and every order in which the checks run.                     *)
(* Outcomes of a check's target function:                                   *)
(*   "pass" returns None; "violation" raises SafetyViolation;               *)
(*   "error" raises any other Exception (becomes SafetyViolation            *)
(*   'Unexpected error' = a failure of that check);                         *)
(*   "value" returns a non-None value -- SafetyCheck.__call__ discards it,   *)
(*   so the code treats it as a pass (modelled as the code does; no shipped  *)
(*   check returns a value and the property does not speak about it).        *)
(***************************************************************************)
EXTENDS Integers, FiniteSets, TLC

CONSTANTS Checks            \* names of the registered checks (may be empty)

Outcomes == {"pass", "violation", "error", "value"}

VARIABLES complete, match, script, phase, pending, failures, result
vars == <<complete, match, script, phase, pending, failures, result>>

Init == /\ complete \in BOOLEAN /\ match \in BOOLEAN
        /\ script \in [Checks -> Outcomes]
        /\ phase = "new" /\ pending = {} /\ failures = {} /\ result = "none"

\* FileInspector.__init__: at least one safety check must be declared
Construct == /\ phase = "new"
             /\ IF Checks = {} THEN phase' = "done" /\ result' = "RuntimeError"
                ELSE phase' = "idle" /\ UNCHANGED result
             /\ UNCHANGED <<complete, match, script, pending, failures>>
Begin == /\ phase = "idle" /\ phase' = "gate"
         /\ UNCHANGED <<complete, match, script, pending, failures, result>>
Gate == /\ phase = "gate"
        /\ IF ~complete \/ ~match
           THEN phase' = "done" /\ result' = "ImageFormatError" /\ UNCHANGED pending
           ELSE phase' = "running" /\ pending' = Checks /\ UNCHANGED result
        /\ UNCHANGED <<complete, match, script, failures>>
RunCheck(c) == /\ phase = "running" /\ c \in pending
               /\ pending' = pending \ {c}
               /\ failures' = IF script[c] \in {"violation", "error"}
                              THEN failures \cup {c} ELSE failures
               /\ UNCHANGED <<complete, match, script, phase, result>>
Conclude == /\ phase = "running" /\ pending = {}
            /\ phase' = "done"
            /\ result' = IF failures = {} THEN "returns" ELSE "SafetyCheckFailed"
            /\ UNCHANGED <<complete, match, script, pending, failures>>
Next == Construct \/ Begin \/ Gate \/ (\E c \in Checks : RunCheck(c)) \/ Conclude
Spec == Init /\ [][Next]_vars

(* C02, aggregator part *)
FailClosed == result = "returns" =>
                 /\ complete /\ match /\ Checks # {}
                 /\ \A c \in Checks : script[c] \in {"pass", "value"}
ErrorIsFailure == result \in {"returns", "SafetyCheckFailed"} =>
                    failures = {c \in Checks : script[c] \in {"violation", "error"}}
RefusedWhenUnfit == (phase = "done" /\ Checks # {} /\ (~complete \/ ~match))
                       => result = "ImageFormatError"
Total == phase = "done" => result # "none"
=============================================================================
