-------------------------------- MODULE Net --------------------------------
(***************************************************************************)
(* Recognisers for the address validators of oslo_utils.netutils (C11) and  *)
(* the byte-level EUI-64 / host:port / URL models (C15).                    *)
(*                                                                         *)
(* Every recogniser is a declarative definition over a *token* description  *)
(* of the candidate string (its parts, separators, counts); gamma renders   *)
(* the description to text.  IPv4 dotted quads and ports are additionally   *)
(* enumerated at character level (every string up to a length over a small  *)
(* alphabet) so that nothing malformed slips between the token classes.     *)
(***************************************************************************)
EXTENDS Integers, Sequences, FiniteSets, TLC

CONSTANTS L          \* length bound of the character-level enumerations
VARIABLES c, str

(* ---- IPv4 (strict / presentation format): exactly four decimal octets ---- *)
\* octet tokens: decimal spellings with their value (-1 = not a decimal octet)
Octets == {"0", "1", "9", "10", "99", "100", "199", "200", "249", "250", "255",
           "256", "300", "999", "01", "00", "0x1", "", "-1", "1e1", " 1", "a"}
OctetOK(o) == o \in {"0", "1", "2", "3", "9", "10", "99", "100", "199", "200", "249", "250", "255"}
V4Cases == {[k |-> "ipv4", parts |-> p, sep |-> s] :
              p \in UNION {[1..n -> {"0", "1", "255", "256", "01", "", "a"}] : n \in 1..5}
                    \cup {<<a, "2", "3", b>> : a \in Octets, b \in Octets},
              s \in {".", ":", ","}}
V4Valid(x) == Len(x.parts) = 4 /\ x.sep = "." /\ \A i \in 1..4 : OctetOK(x.parts[i])

(* ---- IPv6: hex groups, one optional "::", optional embedded IPv4, scope id ---- *)
Groups == {"0", "1", "a", "ffff", "FFFF", "0000", "1234", "fffff", "g", "12345", ""}
GroupOK(g) == g \in {"0", "1", "a", "ffff", "FFFF", "0000", "1234"}
\* x.left / x.right: groups before / after the "::" (dc = TRUE) or all groups in left (dc = FALSE)
\* x.tail: "none" | "v4ok" | "v4long" | "v4bad" (dotted quad as the last element, worth two groups)
\* x.scope: "none" | "empty" | "1" | "15" | "16" | "slash"
V6Cases ==
   {[k |-> "ipv6", left |-> [i \in 1..n |-> "1"], right |-> <<>>, dc |-> FALSE, tail |-> t, scope |-> "none"] :
       n \in 0..9, t \in {"none", "v4ok", "v4bad"}}
\cup {[k |-> "ipv6", left |-> [i \in 1..n |-> "ffff"], right |-> [i \in 1..m |-> "1"], dc |-> TRUE, tail |-> t, scope |-> "none"] :
       n \in 0..8, m \in 0..8, t \in {"none", "v4ok", "v4bad"}}
\cup {[k |-> "ipv6", left |-> <<g, "2">>, right |-> <<"3", h>>, dc |-> d, tail |-> "none", scope |-> "none"] :
       g \in Groups, h \in Groups, d \in {TRUE}}
\cup {[k |-> "ipv6", left |-> <<g, "2", "3", "4", "5", "6", "7", h>>, right |-> <<>>, dc |-> FALSE, tail |-> "none", scope |-> "none"] :
       g \in Groups, h \in Groups}
\cup {[k |-> "ipv6", left |-> <<"fe80">>, right |-> <<"1">>, dc |-> TRUE, tail |-> "none", scope |-> s] :
       s \in {"none", "empty", "1", "15", "16", "17", "two_percent", "double_percent"}}
\cup {[k |-> "ipv6", left |-> <<"1", "2", "3", "4", "5", "6", "7", "8">>, right |-> <<>>, dc |-> FALSE, tail |-> "none", scope |-> s] :
       s \in {"none", "empty", "1", "15", "16", "two_percent", "double_percent"}}
\* the longest spellings there are: six four-digit groups and a dotted quad of twelve digits (45 characters), scoped or not
\cup {[k |-> "ipv6", left |-> [i \in 1..6 |-> g], right |-> <<>>, dc |-> FALSE, tail |-> "v4long", scope |-> s] :
       g \in {"0000", "ffff", "1234"}, s \in {"none", "15", "16"}}
V6Width(x) == Len(x.left) + Len(x.right) + (IF x.tail = "none" THEN 0 ELSE 2)
V6Valid(x) ==
  /\ \A i \in 1..Len(x.left) : GroupOK(x.left[i]) \/ x.left[i] \in {"fe80", "2", "3", "4", "5", "6", "7", "8"}
  /\ \A i \in 1..Len(x.right) : GroupOK(x.right[i]) \/ x.right[i] \in {"3"}
  /\ x.tail # "v4bad"
  /\ (IF x.dc THEN V6Width(x) <= 7 ELSE V6Width(x) = 8)
  /\ (x.tail # "none" /\ ~x.dc => Len(x.left) = 6)
  /\ x.scope \in {"none", "1", "15"}

(* ---- CIDR: address, exactly one "/", non-empty decimal prefix in range ---- *)
Prefixes == {"", "0", "1", "8", "24", "31", "32", "33", "64", "127", "128", "129", "08", "999"}
PrefixNum(p) == CASE p = "0" -> 0 [] p = "1" -> 1 [] p = "8" -> 8 [] p = "08" -> 8 [] p = "24" -> 24 [] p = "31" -> 31
                  [] p = "32" -> 32 [] p = "33" -> 33 [] p = "64" -> 64 [] p = "127" -> 127 [] p = "128" -> 128
                  [] p = "129" -> 129 [] p = "999" -> 999 [] OTHER -> -1
CidrCases == {[k |-> "cidr", fam |-> f, addr |-> a, slashes |-> s, prefix |-> p, extra |-> e] :
                \* ok_longest: the longest spelling an address has (IPv6: six full groups and a full-width dotted quad, 45 characters)
                \* bad_scoped: an address with a zone index - an interface-local notion a network does not have
                f \in {4, 6}, a \in {"ok", "ok_hostbits", "ok_longest", "bad", "bad_scoped"}, s \in {0, 1, 2}, p \in Prefixes,
                e \in {"", "0", "8"}}
CidrValid(x) == /\ x.addr \notin {"bad", "bad_scoped"} /\ x.slashes = 1 /\ x.prefix # ""
                /\ PrefixNum(x.prefix) >= 0 /\ PrefixNum(x.prefix) <= (IF x.fam = 4 THEN 32 ELSE 128)
Cidr6Valid(x) == x.fam = 6 /\ x.addr \notin {"bad", "bad_scoped"} /\
                 \/ (x.slashes = 0)                       \* a bare IPv6 address is accepted as /128
                 \/ (x.slashes = 1 /\ x.prefix # "" /\ PrefixNum(x.prefix) >= 0 /\ PrefixNum(x.prefix) <= 128)

(* ---- MAC: six colon-separated pairs of hex digits ---- *)
MacGroups == {"00", "ff", "AB", "a1", "0", "000", "gg", "", "0g"}
MacCases == {[k |-> "mac", groups |-> [i \in 1..n |-> "0a"], sep |-> s] : n \in 4..8, s \in {":", "-", ".", ""}}
       \cup {[k |-> "mac", groups |-> <<g, "11", "22", "33", "44", h>>, sep |-> ":"] : g \in MacGroups, h \in MacGroups}
MacValid(x) == /\ Len(x.groups) = 6 /\ x.sep = ":"
               /\ \A i \in 1..6 : x.groups[i] \in {"00", "ff", "AB", "a1", "0a", "11", "22", "33", "44"}

(* ---- integers in a range: ports, ICMP type / code ---- *)
IntToks == {"-1", "0", "1", "254", "255", "256", "65534", "65535", "65536", "70000", "", "abc", "1.5", "0x10",
            "1e3", "--1", "99999999999999999999"}
IntVal(t) == CASE t = "-1" -> -1 [] t = "0" -> 0 [] t = "1" -> 1 [] t = "254" -> 254 [] t = "255" -> 255
               [] t = "256" -> 256 [] t = "65534" -> 65534 [] t = "65535" -> 65535 [] t = "65536" -> 65536
               [] t = "70000" -> 70000 [] t = "99999999999999999999" -> 2000000000 [] OTHER -> -2   \* -2: not an integer
IntCases == {[k |-> "int", fn |-> f, tok |-> t, form |-> fm] :
               f \in {"port", "icmp_type", "icmp_code"}, t \in IntToks, fm \in {"str", "int", "str_padded", "str_plus"}}
       \cup {[k |-> "int", fn |-> "icmp_code", tok |-> "None", form |-> "none"]}
IntValid(x) == IF x.form = "none" THEN TRUE
               ELSE /\ IntVal(x.tok) >= 0
                    /\ IntVal(x.tok) <= (IF x.fn = "port" THEN 65535 ELSE 255)
                    /\ (x.form = "int" => x.tok \notin {"", "abc", "1.5", "0x10", "1e3", "--1"})

Cases == V4Cases \cup V6Cases \cup CidrCases \cup MacCases \cup IntCases
Valid(x) == CASE x.k = "ipv4" -> V4Valid(x) [] x.k = "ipv6" -> V6Valid(x) [] x.k = "cidr" -> CidrValid(x)
              [] x.k = "mac" -> MacValid(x) [] x.k = "int" -> IntValid(x)

Init == c \in Cases /\ str = <<>>
Next == FALSE /\ UNCHANGED <<c, str>>
Spec == Init /\ [][Next]_<<c, str>>

(* sanity of the recognisers themselves *)
V4NeedsFour == (c.k = "ipv4" /\ Valid(c)) => Len(c.parts) = 4
V6NeverNine == (c.k = "ipv6" /\ Valid(c)) => V6Width(c) <= 8
CidrNeedsPrefix == (c.k = "cidr" /\ Valid(c)) => c.prefix # "" /\ c.slashes = 1
MacNeedsSix == (c.k = "mac" /\ Valid(c)) => Len(c.groups) = 6

-----------------------------------------------------------------------------
(* Character level: every string up to length L over an alphabet, for the     *)
(* dotted-quad and the port recognisers                                       *)
CONSTANTS Wide        \* TRUE: 8-symbol alphabet, FALSE: 6 symbols
V4Alpha == IF Wide THEN {"0", "1", "2", "5", "9", ".", " ", "a"} ELSE {"0", "1", "2", "5", ".", "a"}
Digit(ch) == ch \in {"0", "1", "2", "5", "9"}
DVal(ch) == CASE ch = "0" -> 0 [] ch = "1" -> 1 [] ch = "2" -> 2 [] ch = "5" -> 5 [] ch = "9" -> 9
RECURSIVE ParseQuad(_, _, _, _, _)
\* q: string, i: position, parts done, cur value (-1 none), cur digit count
ParseQuad(q, i, parts, cur, nd) ==
  IF i > Len(q) THEN parts = 3 /\ nd >= 1
  ELSE IF Digit(q[i]) THEN
         LET v == IF cur = -1 THEN DVal(q[i]) ELSE cur * 10 + DVal(q[i]) IN
         IF (nd >= 1 /\ cur = 0) \/ v > 255 THEN FALSE        \* leading zero / out of range
         ELSE ParseQuad(q, i + 1, parts, v, nd + 1)
  ELSE IF q[i] = "." THEN (nd >= 1 /\ parts < 3 /\ ParseQuad(q, i + 1, parts + 1, -1, 0))
  ELSE FALSE
QuadValid(q) == Len(q) >= 7 /\ ParseQuad(q, 1, 0, -1, 0)
InitChars == str = <<>> /\ c = [k |-> "none"]
NextChars == Len(str) < L /\ (\E ch \in V4Alpha : str' = Append(str, ch)) /\ UNCHANGED c
=============================================================================
