--------------------------- MODULE InspectWrapper ---------------------------
(***************************************************************************)
(* format_inspector.InspectWrapper as a pipe (read/__next__/_process_chunk/  *)
(* close/_finish, lines 1338-1402).  A read is three kinds of steps, as in   *)
(* the code: StartRead takes the next chunk from the source; Feed(i) hands   *)
(* it to one not-yet-errored inspector (the inspectors live in a Python set, *)
(* so the order is arbitrary -- every order is explored); EndRead returns    *)
(* the chunk to the caller.  Inspectors are abstract scripts chosen in Init: *)
(*   failAt[i]     the read index at which i's eat_chunk raises (0 = never)  *)
(*   completeAt[i] i reports complete once it has been fed that many reads   *)
(*   match[i]      what i's format_match says                               *)
(* Flavour "file": the source is read with read(size) until it returns b''   *)
(* -- that empty read is processed like any other (read index NChunks+1).    *)
(* Flavour "iter": next() until StopIteration, which finishes the inspectors.*)
(* Expected is the expected_format: one of Insp, or "none".                  *)
(***************************************************************************)
EXTENDS Integers, FiniteSets, TLC

CONSTANTS NChunks, Insp, Expected, Flavour

Reads == IF Flavour = "file" THEN NChunks + 1 ELSE NChunks

VARIABLES failAt, completeAt, match,          \* the scripts
          consumed,     \* reads taken from the source
          delivered,    \* reads returned to the caller
          errored,      \* inspectors that raised (never fed again)
          fed,          \* i -> set of read indices that reached i's eat_chunk
          phase,        \* "idle" | "processing" | "raised" | "eof"
          exc,          \* "none" | "inspector_error" | "ImageFormatError"
          pending,      \* inspectors still to be fed the current read
          finishedI,    \* inspectors whose finish() was called
          closed
vars == <<failAt, completeAt, match, consumed, delivered, errored, fed, phase,
          exc, pending, finishedI, closed>>
scripts == <<failAt, completeAt, match>>

Init == /\ failAt \in [Insp -> 0..Reads]
        /\ completeAt \in [Insp -> 1..Reads + 1]        \* Reads+1 = never
        /\ match \in [Insp -> BOOLEAN]
        /\ consumed = 0 /\ delivered = 0 /\ errored = {} /\ fed = [i \in Insp |-> {}]
        /\ phase = "idle" /\ exc = "none" /\ pending = {} /\ finishedI = {} /\ closed = FALSE

StartRead == /\ phase = "idle" /\ ~closed /\ consumed < Reads
             /\ consumed' = consumed + 1
             /\ pending' = Insp \ errored
             /\ phase' = "processing"
             /\ UNCHANGED <<scripts, delivered, errored, fed, exc, finishedI, closed>>

Feed(i) ==
  /\ phase = "processing" /\ i \in pending
  /\ LET c == consumed IN
     /\ fed' = [fed EXCEPT ![i] = @ \cup {c}]
     /\ IF failAt[i] = c
        THEN IF i = Expected
             THEN \* the expected format's inspector failed: its error propagates
                  /\ exc' = "inspector_error" /\ phase' = "raised" /\ pending' = {}
                  /\ UNCHANGED errored
             ELSE \* any other inspector: swallowed, excluded from now on
                  /\ errored' = errored \cup {i} /\ pending' = pending \ {i}
                  /\ UNCHANGED <<exc, phase>>
        ELSE IF i = Expected /\ completeAt[i] <= Cardinality(fed'[i]) /\ ~match[i]
             THEN \* complete without matching: abort the stream
                  /\ exc' = "ImageFormatError" /\ phase' = "raised" /\ pending' = {}
                  /\ UNCHANGED errored
             ELSE /\ pending' = pending \ {i} /\ UNCHANGED <<exc, phase, errored>>
  /\ UNCHANGED <<scripts, consumed, delivered, finishedI, closed>>

EndRead == /\ phase = "processing" /\ pending = {}
           /\ delivered' = consumed /\ phase' = "idle"
           /\ UNCHANGED <<scripts, consumed, errored, fed, exc, pending, finishedI, closed>>

\* iterator flavour: the source is exhausted -> _finish() then StopIteration
Exhaust == /\ Flavour = "iter" /\ phase = "idle" /\ ~closed /\ consumed = Reads
           /\ phase' = "eof" /\ finishedI' = Insp
           /\ UNCHANGED <<scripts, consumed, delivered, errored, fed, exc, pending, closed>>

\* close(): every inspector is finished, errored ones included
Close == /\ phase \in {"idle", "eof", "raised"} /\ ~closed
         /\ closed' = TRUE /\ finishedI' = Insp
         /\ UNCHANGED <<scripts, consumed, delivered, errored, fed, phase, exc, pending>>

Next == StartRead \/ (\E i \in Insp : Feed(i)) \/ EndRead \/ Exhaust \/ Close
Spec == Init /\ [][Next]_vars

-----------------------------------------------------------------------------
(* C06 *)
\* the reader gets exactly the source's reads, in order, nothing withheld
\* except the read on which the stream was cut off
Transparent == /\ delivered <= consumed
               /\ (phase \in {"idle", "eof"} => delivered = consumed)
               /\ (phase = "raised" => delivered = consumed - 1)
\* a failure inside an inspector other than the expected one never reaches the reader
Isolation == exc # "none" => /\ Expected \in Insp
                             /\ (exc = "inspector_error" => failAt[Expected] = consumed)
\* an inspector that has failed is never fed again
NeverFedAgain == \A i \in Insp : (failAt[i] # 0 /\ i # Expected) =>
                    \A c \in fed[i] : c <= failAt[i]
ErroredExactly == errored = {i \in Insp \ {Expected} : failAt[i] \in fed[i]}
\* the stream is cut off at the first read where the expected inspector fails or
\* is complete without matching, and no source data is consumed afterwards
WouldAbort(c) == \/ failAt[Expected] = c
                 \/ (completeAt[Expected] <= c /\ ~match[Expected])
AbortPoint == /\ (exc # "none" => /\ WouldAbort(consumed)
                                  /\ \A c \in 1..(consumed - 1) : ~WouldAbort(c))
              /\ ((Expected \in Insp /\ phase = "idle")
                     => \A c \in 1..consumed : ~WouldAbort(c))
NoReadAfterAbort == [][phase = "raised" => consumed' = consumed /\ delivered' = delivered]_vars
FinishAll == (closed \/ phase = "eof") => finishedI = Insp
\* every non-errored inspector sees every delivered read
FedAll == \A i \in Insp \ errored : \A c \in 1..delivered : c \in fed[i]
=============================================================================
