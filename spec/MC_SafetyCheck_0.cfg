SPECIFICATION Spec
CONSTANTS Checks = {}
INVARIANT FailClosed
INVARIANT ErrorIsFailure
INVARIANT RefusedWhenUnfit
INVARIANT Total
CONSTRAINT Emit
CHECK_DEADLOCK FALSE
