-------------------------------- MODULE Retry --------------------------------
(***************************************************************************)
(* excutils.forever_retry_uncaught_exceptions (excutils.py:230-281): a       *)
(* retry loop whose logging is throttled by a StopWatch -- a composition of  *)
(* the loop with the watch of StopWatch.tla (only start / restart /          *)
(* expired are used, so the watch is represented by its start instant).      *)
(* One step = one failed attempt of the decorated function (the environment  *)
(* chooses the exception message and how much extra time passes) or the      *)
(* successful attempt that ends the loop.                                    *)
(*   - a message different from the previous one is logged at once, count 1  *)
(*   - the same message is logged again only once the watch has expired      *)
(*     (elapsed > same_log_delay), with the number of occurrences since the  *)
(*     last log line                                                         *)
(*   - every failure is followed by sleep(retry_delay)                       *)
(***************************************************************************)
EXTENDS Integers, Sequences, TLC

CONSTANTS RetryDelay, SameLogDelay, MaxFailures, Msgs, Jitter

VARIABLES clock, last, same, wstart, logs, fails, slept, done, hist
vars == <<clock, last, same, wstart, logs, fails, slept, done, hist>>

NoMsg == 0
NotStarted == -1

Init == /\ clock = 0 /\ last = NoMsg /\ same = 0 /\ wstart = NotStarted /\ logs = <<>>
        /\ fails = 0 /\ slept = 0 /\ done = FALSE /\ hist = <<>>

\* StopWatch.expired() with duration SameLogDelay, watch started at wstart
Expired == wstart # NotStarted /\ (clock - wstart) > SameLogDelay

Fail(m, j) ==
  /\ ~done /\ fails < MaxFailures
  /\ LET cnt == IF m = last THEN same + 1 ELSE 1
         log == m # last \/ Expired
     IN /\ logs' = IF log THEN Append(logs, <<m, cnt>>) ELSE logs
        /\ wstart' = IF log THEN clock ELSE wstart            \* start() / restart() read the clock now
        /\ same' = IF log THEN 0 ELSE cnt
        /\ last' = IF log THEN m ELSE last
  /\ fails' = fails + 1
  /\ slept' = slept + RetryDelay                              \* time.sleep(retry_delay)
  /\ clock' = clock + RetryDelay + j                          \* plus whatever else passes
  /\ hist' = Append(hist, <<m, j>>)
  /\ UNCHANGED done
Succeed == /\ ~done /\ done' = TRUE
           /\ UNCHANGED <<clock, last, same, wstart, logs, fails, slept, hist>>
Next == (\E m \in Msgs, j \in Jitter : Fail(m, j)) \/ Succeed
Spec == Init /\ [][Next]_vars

(* what the helper promises *)
\* a change of message is never throttled
ChangeLoggedAtOnce ==
  [][\A m \in Msgs : (fails' = fails + 1 /\ hist'[Len(hist')][1] = m /\ m # last)
        => (Len(logs') = Len(logs) + 1 /\ logs'[Len(logs')] = <<m, 1>>)]_vars
\* nothing is logged while the watch has not expired and the message repeats
Throttled ==
  [][(fails' = fails + 1 /\ hist'[Len(hist')][1] = last /\ ~Expired) => logs' = logs]_vars
\* every failure is accounted for: logged counts + pending count = failures
Accounted == LET sum[i \in 0..Len(logs)] == IF i = 0 THEN 0 ELSE sum[i - 1] + logs[i][2]
             IN sum[Len(logs)] + same <= fails
OneSleepPerFailure == slept = fails * RetryDelay
=============================================================================
