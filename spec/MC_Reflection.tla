--------------------------- MODULE MC_Reflection ---------------------------
EXTENDS Reflection, Json
Ref(x) == CASE x.t = "class_name" -> [r |-> ClassNameRef(x.s, x.fq, x.trunc)]
            [] x.t = "all_names" -> [r |-> AllNamesRef(x.cls, x.up, x.fq, x.trunc)]
            [] x.t = "is_subclass" -> [r |-> IsSubclassRef(x.cls, x.inst, x.of)]
            [] x.t = "callable" -> [name |-> CallableNameRef(x.f), bound |-> IsBoundRef(x.f)]
            [] x.t = "same" -> [same |-> SameRef(x.x, x.y)]
            [] x.t = "sig" -> [args |-> ArgsRef(x.ps, 1, x.req), kwargs |-> KwargsRef(x.ps)]
Export == PrintT(ToJson([c |-> c, ref |-> Ref(c)]))
=============================================================================
