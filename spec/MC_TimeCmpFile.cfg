INIT CmpInit
NEXT CmpNext
CONSTANTS
  Days = {0}
  Secs = {0}
  Micros = {0}
  MaxDepth = 0
INVARIANT NormOK
CONSTRAINT EmitCmp
CHECK_DEADLOCK FALSE
