------------------------------ MODULE Scalars ------------------------------
(***************************************************************************)
(* C14.  Decision tables for the scalar parsers and validators of          *)
(* strutils / uuidutils, written from their docstrings:                     *)
(*   bool_from_string, is_valid_boolstr, is_int_like, validate_integer,     *)
(*   check_string_length, is_uuid_like (+ generate_uuid).                   *)
(* Strings are atomic in TLC, so an input is a token with declared classes  *)
(* (word, case, padding; literal class and value; length; hex digits and    *)
(* decoration); gamma renders it.  Excluded from the generators (not the    *)
(* property's subject): non-ASCII digits, full-width letters.               *)
(***************************************************************************)
EXTENDS Integers, Sequences, FiniteSets, TLC

CONSTANTS L            \* length bound of the character-level enumeration
VARIABLES c, str

(* ---- booleans ---------------------------------------------------------- *)
TrueWords == {"1", "t", "true", "on", "y", "yes"}
FalseWords == {"0", "f", "false", "off", "n", "no"}
NearMiss == {"", "tru", "yess", "2", "01", "o n", "truefalse", "none", "nope", "-1", "1.0", "t.", "of",
             \* spellings that only case FOLDING (not lower-casing) would turn into a documented word: the ff ligature,
             \* the long s (gamma: U+FB00, U+017F) - they are not the documented words
             "off_ligature", "yes_long_s", "false_long_s"}
Casing == {"lower", "UPPER", "Title", "mIxEd"}
Padding == {"none", "left", "right", "both", "tabs_newline", "wide"}      \* wide: 300 blanks before, 200 tabs after
Defaults == {"False", "True", "None", "sentinel"}
BoolCases == {[k |-> "bool", word |-> w, cas |-> cs, pad |-> p, strict |-> s, dflt |-> d] :
                w \in TrueWords \cup FalseWords \cup NearMiss, cs \in Casing, p \in Padding,
                s \in BOOLEAN, d \in Defaults}
\* non-string subjects
BoolObjCases == {[k |-> "boolobj", obj |-> o, strict |-> s, dflt |-> d] :
                   o \in {"True", "False", "int1", "int0", "int2", "None", "float1", "bytes1", "list"},
                   s \in BOOLEAN, d \in Defaults}
BoolRef(x) == IF x.word \in TrueWords THEN "True"
              ELSE IF x.word \in FalseWords THEN "False"
              ELSE IF x.strict THEN "ValueError" ELSE x.dflt
BoolObjRef(x) == CASE x.obj \in {"True", "int1"} -> "True"
                   [] x.obj \in {"False", "int0"} -> "False"
                   [] OTHER -> IF x.strict THEN "ValueError" ELSE x.dflt
\* is_valid_boolstr does not strip: it agrees with bool_from_string(strict) on unpadded input
BoolStrRef(x) == x.word \in TrueWords \cup FalseWords /\ x.pad = "none"

(* ---- integers ---------------------------------------------------------- *)
\* literal tokens: [text, val, canon]: val = integer value or NoInt; canon = text is str(val)
NoInt == -999999
IntLits == {[t |-> "0", v |-> 0, canon |-> TRUE], [t |-> "7", v |-> 7, canon |-> TRUE],
            [t |-> "-7", v |-> -7, canon |-> TRUE], [t |-> "12", v |-> 12, canon |-> TRUE],
            [t |-> "9", v |-> 9, canon |-> TRUE], [t |-> "10", v |-> 10, canon |-> TRUE],
            [t |-> "11", v |-> 11, canon |-> TRUE], [t |-> "19", v |-> 19, canon |-> TRUE],
            [t |-> "20", v |-> 20, canon |-> TRUE], [t |-> "21", v |-> 21, canon |-> TRUE],
            [t |-> "+7", v |-> 7, canon |-> FALSE], [t |-> "07", v |-> 7, canon |-> FALSE],
            [t |-> " 7", v |-> 7, canon |-> FALSE], [t |-> "7 ", v |-> 7, canon |-> FALSE],
            [t |-> "-0", v |-> 0, canon |-> FALSE], [t |-> "1_0", v |-> 10, canon |-> FALSE],
            [t |-> "00", v |-> 0, canon |-> FALSE], [t |-> "- 7", v |-> NoInt, canon |-> FALSE],
            [t |-> "7.0", v |-> NoInt, canon |-> FALSE], [t |-> "1e3", v |-> NoInt, canon |-> FALSE],
            [t |-> "0x1", v |-> NoInt, canon |-> FALSE], [t |-> "", v |-> NoInt, canon |-> FALSE],
            [t |-> "seven", v |-> NoInt, canon |-> FALSE], [t |-> "7_", v |-> NoInt, canon |-> FALSE],
            [t |-> "__7", v |-> NoInt, canon |-> FALSE], [t |-> "1__0", v |-> NoInt, canon |-> FALSE],
            \* beyond the machine word: Python integers have no size, neither have these helpers.  The value is a
            \* stand-in (TLC integers are 32-bit): only its position relative to the bounds matters; gamma renders
            \* the token as the named power
            [t |-> "2^63", v |-> 2147483647, canon |-> TRUE], [t |-> "2^64", v |-> 2147483646, canon |-> TRUE],
            [t |-> "-2^63-1", v |-> -2147483647, canon |-> TRUE], [t |-> "10^30", v |-> 2147483645, canon |-> TRUE]}
\* how the literal is handed over: as str, or (for canonical ones) as the int itself
IntForms == {"str", "int"}
Bounds == {"none", "10", "20"}
BoundVal(b) == IF b = "0" THEN 0 ELSE IF b = "10" THEN 10 ELSE 20
IntCases == {[k |-> "int", lit |-> l, form |-> f, lo |-> a, hi |-> b] :
               l \in IntLits, f \in IntForms, a \in {"none", "0", "10"}, b \in {"none", "0", "20"}}
IntObjCases == {[k |-> "intobj", obj |-> o] : o \in {"None", "float2", "float1_5", "True", "bytes5", "list", "str_none"}}
IntLikeRef(x) == IF x.form = "int" THEN x.lit.canon ELSE x.lit.canon
ValidateRef(x) == IF x.lit.v = NoInt THEN "ValueError"
                  ELSE IF x.lo # "none" /\ x.lit.v < BoundVal(x.lo) THEN "ValueError"
                  ELSE IF x.hi # "none" /\ x.lit.v > BoundVal(x.hi) THEN "ValueError"
                  ELSE "value"

(* ---- string length ------------------------------------------------------ *)
LenCases == {[k |-> "len", kind |-> "str", n |-> n, min |-> mn, max |-> mx, named |-> nm] :
               n \in {0, 1, 2, 3, 4, 5, 6}, mn \in {0, 1, 3}, mx \in {-1, 0, 2, 5}, nm \in BOOLEAN}   \* -1: max_length=None
       \cup {[k |-> "len", kind |-> kd, n |-> 0, min |-> 0, max |-> 5, named |-> nm] :
               kd \in {"int", "bytes", "none", "list"}, nm \in BOOLEAN}
LenRef(x) == IF x.kind # "str" THEN "TypeError"
             ELSE IF x.n < x.min THEN "ValueError"
             ELSE IF x.max # -1 /\ x.n > x.max THEN "ValueError"
             ELSE "None"

(* ---- UUIDs ---------------------------------------------------------------- *)
\* corruptions that int(x, 16) would forgive: blanks around, a sign, a 0x prefix, digit-group underscores
UuidBad == {"none", "g_inside", "space_inside", "space_front", "space_end", "plus_front", "0x_front",
            "underscore_inside", "newline_end"}
Decor == {"plain", "hyphenated", "braced", "urn", "urn_braced_hyph", "upper", "upper_hyph"}
UuidCases == {[k |-> "uuid", n |-> n, bad |-> b, decor |-> d] :
                n \in 30..34, b \in UuidBad, d \in Decor}
        \cup {[k |-> "uuidobj", obj |-> o] : o \in {"None", "int", "bytes", "empty", "uuid_object"}}
UuidRef(x) == x.n = 32 /\ x.bad = "none"

Cases == BoolCases \cup BoolObjCases \cup IntCases \cup IntObjCases \cup LenCases \cup UuidCases
Init == c \in Cases /\ str = <<>>
Next == FALSE /\ UNCHANGED <<c, str>>
Spec == Init /\ [][Next]_<<c, str>>

(* the relations the property states, on the tables *)
\* is_valid_boolstr(v)  <=>  bool_from_string(v, strict=True) does not raise, on unpadded input
BoolStrAgrees == (c.k = "bool" /\ c.pad = "none") =>
                    (BoolStrRef(c) <=> BoolRef([c EXCEPT !.strict = TRUE]) # "ValueError")
\* padding and case never change what bool_from_string says
BoolIgnoresPadCase == c.k = "bool" => BoolRef(c) = BoolRef([c EXCEPT !.pad = "none", !.cas = "lower"])
\* validate_integer accepts whatever is_int_like accepts (and more), inside the bounds
CanonImpliesLiteral == c.k = "int" => (c.lit.canon => c.lit.v # NoInt)

-----------------------------------------------------------------------------
(* Character level: every string up to length L over {-,+,0,1,9,_,space,.}     *)
(* through a recogniser of base-10 integer literals as int() reads them:      *)
(* optional blanks, optional sign, digits with single underscores between     *)
(* digits, optional blanks -- and of the canonical rendering str(int(x)).      *)
IAlpha == {"-", "+", "0", "1", "9", "_", " ", "."}
IDigit(ch) == ch \in {"0", "1", "9"}
DV(ch) == CASE ch = "0" -> 0 [] ch = "1" -> 1 [] ch = "9" -> 9
RECURSIVE SkipBlanks(_, _)
SkipBlanks(q, i) == IF i <= Len(q) /\ q[i] = " " THEN SkipBlanks(q, i + 1) ELSE i
\* digits with single inner underscores starting at i: returns <<ok, next index, value>>
RECURSIVE Digits(_, _, _, _)
Digits(q, i, acc, prevDigit) ==
  IF i <= Len(q) /\ IDigit(q[i]) THEN Digits(q, i + 1, acc * 10 + DV(q[i]), TRUE)
  ELSE IF i <= Len(q) /\ q[i] = "_" /\ prevDigit /\ i + 1 <= Len(q) /\ IDigit(q[i + 1])
       THEN Digits(q, i + 1, acc, FALSE)
  ELSE <<prevDigit, i, acc>>
ParseInt(q) ==
  LET i0 == SkipBlanks(q, 1)
      neg == i0 <= Len(q) /\ q[i0] = "-"
      i1 == IF i0 <= Len(q) /\ q[i0] \in {"-", "+"} THEN i0 + 1 ELSE i0
      d == Digits(q, i1, 0, FALSE)
      i2 == SkipBlanks(q, d[2])
  IN [ok |-> d[1] /\ d[2] > i1 /\ i2 = Len(q) + 1, val |-> IF neg THEN 0 - d[3] ELSE d[3]]
\* canonical: '-'? then a digit string without leading zero (or exactly "0"); "-0" is not canonical
Canon(q) == LET neg == Len(q) >= 1 /\ q[1] = "-"
                body == IF neg THEN SubSeq(q, 2, Len(q)) ELSE q
            IN /\ Len(body) >= 1 /\ \A i \in 1..Len(body) : IDigit(body[i])
               /\ (Len(body) > 1 => body[1] # "0")
               /\ ~(neg /\ body = <<"0">>)
InitChars == str = <<>> /\ c = [k |-> "none"]
NextChars == Len(str) < L /\ (\E ch \in IAlpha : str' = Append(str, ch)) /\ UNCHANGED c
\* canonical renderings are integer literals
CanonIsLiteral == Canon(str) => ParseInt(str).ok
=============================================================================
