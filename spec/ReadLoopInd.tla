----------------------------- MODULE ReadLoopInd -----------------------------
(***************************************************************************)
(* The read loop of compute_file_checksum (Files!Read) for UNBOUNDED        *)
(* content lengths and chunk sizes, for Apalache.  TLC explores Files.tla   *)
(* up to MaxLen with five chunk sizes; the inductive invariant below holds  *)
(* for every n >= 0 and k >= 1:                                             *)
(*   fed   = pos              what has been fed to the digest is the prefix *)
(*                            [0, pos) - nothing twice, nothing skipped     *)
(*   pos <= n, full chunks only before the end, done => pos = n             *)
(* and the number of reads is bounded by n \div k + 2 (whole chunks, at most *)
(* one short read, one empty read): the loop ends.                          *)
(***************************************************************************)
EXTENDS Integers

VARIABLES
  \* @type: Int;
  n,
  \* @type: Int;
  k,
  \* @type: Int;
  pos,
  \* @type: Int;
  fed,
  \* @type: Int;
  reads,
  \* @type: Bool;
  lastShort,
  \* @type: Bool;
  done

Min(a, b) == IF a < b THEN a ELSE b
Init == n \in Nat /\ k \in Nat /\ k >= 1 /\ pos = 0 /\ fed = 0 /\ reads = 0 /\ lastShort = FALSE /\ done = FALSE
Read == /\ ~done
        /\ LET got == Min(k, n - pos) IN
           /\ reads' = reads + 1
           /\ IF got = 0 THEN done' = TRUE /\ UNCHANGED <<pos, fed, lastShort>>
              ELSE pos' = pos + got /\ fed' = fed + got /\ lastShort' = (got < k) /\ UNCHANGED done
        /\ UNCHANGED <<n, k>>
Next == Read
IndInv == /\ n >= 0 /\ k >= 1 /\ pos >= 0 /\ pos <= n /\ fed = pos /\ reads >= 0
          /\ (lastShort => pos = n)                 \* a short read is the last one that returns data
          /\ (~lastShort => pos = k * (pos \div k)) \* before that, only whole chunks
          /\ (done => pos = n)
          /\ reads <= pos \div k + (IF lastShort THEN 1 ELSE 0) + (IF done THEN 1 ELSE 0)
IndInit == /\ n \in Int /\ k \in Int /\ pos \in Int /\ fed \in Int /\ reads \in Int /\ lastShort \in BOOLEAN /\ done \in BOOLEAN
           /\ IndInv
WrongInv == IndInv /\ (done => reads = n \div k + 1)   \* forgets the extra empty read when k divides n: must be refuted
=============================================================================
