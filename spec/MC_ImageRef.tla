---------------------------- MODULE MC_ImageRef -----------------------------
EXTENDS ImageRef, Json
Emit == PrintT(ToJson([L |-> img, ref |-> Ref(img), unsafe |-> Unsafe(img), clean |-> Clean(img),
                       carrier |-> CarrierEnd(img), fromfile |-> FromFile(img), readupto |-> ReadUpTo(img)]))
EmitHostile == PrintT(ToJson([L |-> img, bound |-> Bound(img.fmt),
                              caps |-> [r \in RegionsOf(img.fmt) |-> Cap(img.fmt, r)]]))
=============================================================================
