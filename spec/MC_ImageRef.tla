---------------------------- MODULE MC_ImageRef -----------------------------
EXTENDS ImageRef, Json
Emit == PrintT(ToJson([L |-> img, ref |-> Ref(img), unsafe |-> Unsafe(img), clean |-> Clean(img)]))
=============================================================================
