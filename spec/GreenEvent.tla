----------------------------- MODULE GreenEvent -----------------------------
(***************************************************************************)
(* oslo_utils.eventletutils.EventletEvent: a threading.Event look-alike on  *)
(* top of eventlet's one-shot events, used by green threads.  Growth (G04). *)
(*                                                                         *)
(* State of the object: _set (flag) and _event (the current one-shot event, *)
(* here a number; clear() on a set object installs a fresh one).  Green      *)
(* threads are cooperative: the main thread runs a script of set / clear /   *)
(* spawn / yield steps and other threads run only while it yields or after   *)
(* it has finished; a waiter runs until it blocks or returns.  Which         *)
(* runnable waiter runs next is left open (the hub's order is not part of    *)
(* the contract), so the real, deterministic outcome must be ONE of the      *)
(* outcomes of the model.                                                    *)
(*                                                                         *)
(* wait(): loop { e := _event; block until e is sent (or the timeout fires:  *)
(* leave the loop); if e is no longer _event: again }; return _set.          *)
(***************************************************************************)
EXTENDS Integers, Sequences, FiniteSets, TLC

CONSTANTS MaxLen          \* length of the main thread's script
Waiters == {1, 2}
Steps == {"set", "clear", "yield", "spawn"}
\* the k-th spawn starts waiter k; waiter 2 may have a (zero) timeout
RECURSIVE Count(_, _)
Count(s, x) == IF s = <<>> THEN 0 ELSE (IF Head(s) = x THEN 1 ELSE 0) + Count(Tail(s), x)
SeqsUpTo(S, n) == UNION {[1..k -> S] : k \in 0..n}
Scripts == {s \in SeqsUpTo(Steps, MaxLen) : Count(s, "spawn") \in 1..2}

VARIABLES script, tmo2,   \* the scenario: main's script; whether waiter 2 waits with timeout 0
          pc,             \* main's position; Len(script)+1 = finished
          yielding,       \* main is inside a yield (others may run)
          flag, ev, sent, \* the object: _set, _event, the events already sent
          w               \* waiter -> [st, e]: "unborn" | "ready" (scheduled, about to call wait) |
                          \*   "waiting" (blocked on e) | "woken" (e was sent, scheduled) | "true" | "false" (returned)
vars == <<script, tmo2, pc, yielding, flag, ev, sent, w>>

Init == /\ script \in Scripts /\ tmo2 \in BOOLEAN
        /\ pc = 1 /\ yielding = FALSE /\ flag = FALSE /\ ev = 0 /\ sent = {}
        /\ w = [i \in Waiters |-> [st |-> "unborn", e |-> 0]]

MainDone == pc > Len(script)
OthersMayRun == yielding \/ MainDone
Born == Cardinality({i \in Waiters : w[i].st # "unborn"})

\* ---- the main thread --------------------------------------------------------
DoSet == /\ script[pc] = "set"
         /\ IF flag THEN UNCHANGED <<flag, sent, w>>
            ELSE /\ flag' = TRUE /\ sent' = sent \cup {ev}
                 /\ w' = [i \in Waiters |-> IF w[i].st = "waiting" /\ w[i].e = ev THEN [w[i] EXCEPT !.st = "woken"] ELSE w[i]]
         /\ UNCHANGED ev
DoClear == /\ script[pc] = "clear"
           /\ IF flag THEN flag' = FALSE /\ ev' = ev + 1 ELSE UNCHANGED <<flag, ev>>
           /\ UNCHANGED <<sent, w>>
DoSpawn == /\ script[pc] = "spawn"
           /\ w' = [w EXCEPT ![Born + 1] = [st |-> "ready", e |-> 0]]
           /\ UNCHANGED <<flag, ev, sent>>
MainStep == /\ ~MainDone /\ ~yielding
            /\ \/ (DoSet \/ DoClear \/ DoSpawn) /\ pc' = pc + 1 /\ UNCHANGED yielding
               \/ script[pc] = "yield" /\ yielding' = TRUE /\ UNCHANGED <<pc, flag, ev, sent, w>>
            /\ UNCHANGED <<script, tmo2>>
Resume == /\ yielding /\ yielding' = FALSE /\ pc' = pc + 1
          /\ UNCHANGED <<script, tmo2, flag, ev, sent, w>>

\* ---- a waiter runs until it blocks or returns ----------------------------------
\* entering (or re-entering) the loop with the current event
Enter(i) == IF ev \in sent THEN [st |-> IF flag THEN "true" ELSE "false", e |-> ev]    \* event.wait() returns at once
            ELSE [st |-> "waiting", e |-> ev]
WaiterRun(i) == /\ OthersMayRun
                /\ \/ w[i].st = "ready" /\ w' = [w EXCEPT ![i] = Enter(i)]
                   \/ w[i].st = "woken" /\ w' = [w EXCEPT ![i] = IF w[i].e = ev
                                                                 THEN [st |-> IF flag THEN "true" ELSE "false", e |-> ev]
                                                                 ELSE Enter(i)]
                   \* the zero timeout of waiter 2 fires while it is blocked: leave the loop, report the flag
                   \/ i = 2 /\ tmo2 /\ w[i].st \in {"waiting", "woken"}
                        /\ w' = [w EXCEPT ![i] = [st |-> IF flag THEN "true" ELSE "false", e |-> w[i].e]]
                /\ UNCHANGED <<script, tmo2, pc, yielding, flag, ev, sent>>

Next == MainStep \/ Resume \/ \E i \in Waiters : WaiterRun(i)
Spec == Init /\ [][Next]_vars

Runnable(i) == w[i].st \in {"ready", "woken"} \/ (i = 2 /\ tmo2 /\ w[i].st = "waiting")
Quiescent == MainDone /\ \A i \in Waiters : ~Runnable(i)

\* every thread that can run eventually does (the hub is fair): liveness is stated under this assumption
FairSpec == Spec /\ WF_vars(MainStep) /\ WF_vars(Resume) /\ \A i \in Waiters : WF_vars(WaiterRun(i))
\* no waiter is left behind: once the main thread is done with the flag set, every waiter that exists ends up returned
EventuallyReleased == \A i \in Waiters :
   [](MainDone /\ flag /\ w[i].st # "unborn" => <>(w[i].st \in {"true", "false"}))
\* and whatever happens the system settles
EventuallyQuiescent == <>[]Quiescent

(* ---- what a user of the Event relies on ----------------------------------------- *)
\* a wait without timeout only ever returns True
UntimedNeverFalse == \A i \in Waiters : (w[i].st = "false") => (i = 2 /\ tmo2)
\* no lost wake-up: once everything has settled with the flag set, nobody is still blocked
NoLostWakeup == (Quiescent /\ flag) => \A i \in Waiters : w[i].st # "waiting"
\* and nobody has returned True unless the flag has been set at some time
TrueNeedsSet == \A i \in Waiters : w[i].st = "true" => sent # {}
\* a blocked waiter blocks on an event nobody has sent yet
BlockedOnUnsent == \A i \in Waiters : w[i].st = "waiting" => w[i].e \notin sent
=============================================================================
