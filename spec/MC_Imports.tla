---------------------------- MODULE MC_Imports ----------------------------
EXTENDS Imports, Json
\* every behaviour of exactly Depth calls, with the cache and the execution counts it ends in
Export == Len(hist) = Depth =>
            PrintT(ToJson([hist |-> hist, loaded |-> loaded, execs |-> {[m |-> m, n |-> execs[m]] : m \in Mods}]))
=============================================================================
