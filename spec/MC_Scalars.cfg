SPECIFICATION Spec
CONSTANTS L = 0
INVARIANT BoolStrAgrees
INVARIANT BoolIgnoresPadCase
INVARIANT CanonImpliesLiteral
CONSTRAINT Emit
CHECK_DEADLOCK FALSE
