------------------------------ MODULE Versions ------------------------------
(***************************************************************************)
(* C17.  versionutils: radix-1000 conversions, PEP 440 ordering behind       *)
(* is_compatible and VersionPredicate.                                      *)
(*                                                                         *)
(* A dotted version is a sequence of components 0..999; its "integer" is    *)
(* the same sequence read as base-1000 digits -- TLC never forms the big    *)
(* number (32-bit integers); gamma converts the digit sequence with Python  *)
(* integers.  Order on integers of equal length is lexicographic order on   *)
(* the sequences.  Components >= 1000 are outside the statement.            *)
(*                                                                         *)
(* A PEP 440 version is [epoch, rel, pre: <<kind, n>>, post, dev] with       *)
(* kind 0 = none, 1 = a, 2 = b, 3 = rc; post / dev = -1 when absent.  Key    *)
(* follows the normative ordering: epoch, release without trailing zeros,   *)
(* then dev-only < pre-releases < final < post-releases, dev releases       *)
(* sorting before the version they are attached to.                         *)
(***************************************************************************)
EXTENDS Integers, Sequences, FiniteSets, TLC

VARIABLE c

Comp == {0, 1, 9, 10, 99, 100, 999}
RECURSIVE SeqsOf(_, _)
SeqsOf(S, n) == IF n = 0 THEN {<<>>} ELSE {Append(q, x) : q \in SeqsOf(S, n - 1), x \in S}
Dotted(n) == {q \in SeqsOf(Comp, n) : q[1] # 0}

RECURSIVE LexLess(_, _)
LexLess(a, b) == IF a = <<>> \/ b = <<>> THEN a = <<>> /\ b # <<>>
                 ELSE IF a[1] # b[1] THEN a[1] < b[1] ELSE LexLess(Tail(a), Tail(b))

Suffixes == {"none", "a1", "alpha2", "b3", "beta4", "rc5"}
ConvCases == {[k |-> "conv", v |-> q, suffix |-> s, form |-> f] :
                q \in UNION {Dotted(n) : n \in 1..4}, s \in {"none"}, f \in {"str", "tuple"}}
        \cup {[k |-> "conv", v |-> q, suffix |-> s, form |-> "str"] :
                q \in UNION {Dotted(n) : n \in 1..2} \cup {<<1, 0, 0, 0, 999>>, <<999, 999, 999, 999, 999>>}, s \in Suffixes}
\* pairs of equal length: the integers must be ordered as the tuples
OrderCases == {[k |-> "order", a |-> x, b |-> y] : x \in Dotted(3), y \in {<<1, 0, 0>>, <<1, 0, 1>>, <<1, 999, 999>>, <<9, 10, 99>>,
                                                                        <<10, 0, 0>>, <<99, 999, 0>>, <<999, 999, 999>>, <<100, 1, 9>>}}
         \cup {[k |-> "order", a |-> x, b |-> y] : x \in Dotted(2), y \in Dotted(2)}
OrderRef(x) == IF x.a = x.b THEN "eq" ELSE IF LexLess(x.a, x.b) THEN "lt" ELSE "gt"
BadCases == {[k |-> "bad", text |-> t] : t \in {"x", "", "1.x", "1..2", "1.2.", ".1", "1a1.2", "1.2a", "a1", "1.2-3", "one.two"}}

(* ---- PEP 440 ---- *)
Rels == {<<1>>, <<1, 0>>, <<1, 1>>, <<1, 2, 0>>, <<2>>, <<2, 0, 1>>, <<10>>}
Marks == {[pre |-> <<0, 0>>, post |-> -1, dev |-> -1], [pre |-> <<1, 1>>, post |-> -1, dev |-> -1],
          [pre |-> <<2, 2>>, post |-> -1, dev |-> -1], [pre |-> <<3, 1>>, post |-> -1, dev |-> -1],
          [pre |-> <<0, 0>>, post |-> 1, dev |-> -1], [pre |-> <<0, 0>>, post |-> -1, dev |-> 0],
          [pre |-> <<1, 1>>, post |-> -1, dev |-> 1], [pre |-> <<0, 0>>, post |-> 1, dev |-> 2]}
Pep(e, r, m) == [epoch |-> e, rel |-> r, pre |-> m.pre, post |-> m.post, dev |-> m.dev]
Peps == {Pep(0, r, m) : r \in Rels, m \in Marks} \cup {Pep(1, r, m) : r \in {<<1>>, <<1, 1>>}, m \in {Marks_el \in Marks : Marks_el.post = -1 /\ Marks_el.dev = -1}}

RECURSIVE Strip(_)
Strip(r) == IF Len(r) > 1 /\ r[Len(r)] = 0 THEN Strip(SubSeq(r, 1, Len(r) - 1)) ELSE r
Inf == 1000000
PreKey(v) == IF v.pre[1] = 0 /\ v.post = -1 /\ v.dev # -1 THEN <<-1, 0>>       \* dev-only release sorts first
             ELSE IF v.pre[1] = 0 THEN <<Inf, 0>> ELSE v.pre
\* lexicographic comparison of release sequences of different length: shorter is smaller when it is a prefix
RECURSIVE RelLess(_, _)
RelLess(a, b) == IF a = <<>> THEN b # <<>> ELSE IF b = <<>> THEN FALSE
                 ELSE IF a[1] # b[1] THEN a[1] < b[1] ELSE RelLess(Tail(a), Tail(b))
Tail4(v) == <<PreKey(v)[1], PreKey(v)[2], v.post, IF v.dev = -1 THEN Inf ELSE v.dev>>
PepLess(a, b) == IF a.epoch # b.epoch THEN a.epoch < b.epoch
                 ELSE IF Strip(a.rel) # Strip(b.rel) THEN RelLess(Strip(a.rel), Strip(b.rel))
                 ELSE LexLess(Tail4(a), Tail4(b))
PepEq(a, b) == a.epoch = b.epoch /\ Strip(a.rel) = Strip(b.rel) /\ Tail4(a) = Tail4(b)
PepLeq(a, b) == PepLess(a, b) \/ PepEq(a, b)

CompatCases == {[k |-> "compat", req |-> a, cur |-> b, same_major |-> s] : a \in Peps, b \in Peps, s \in BOOLEAN}
CompatRef(x) == PepLeq(x.req, x.cur) /\ (x.same_major => x.req.rel[1] = x.cur.rel[1])

Ops == {"<", "<=", "==", ">", ">=", "!="}
Holds(op, v, w) == CASE op = "<" -> PepLess(v, w) [] op = "<=" -> PepLeq(v, w) [] op = "==" -> PepEq(v, w)
                     [] op = ">" -> PepLess(w, v) [] op = ">=" -> PepLeq(w, v) [] op = "!=" -> ~PepEq(v, w)
PV == {Pep(0, <<1>>, CHOOSE m \in Marks : m.pre = <<0, 0>> /\ m.post = -1 /\ m.dev = -1),
       Pep(0, <<1, 1>>, CHOOSE m \in Marks : m.pre = <<0, 0>> /\ m.post = -1 /\ m.dev = -1),
       Pep(0, <<1, 1>>, CHOOSE m \in Marks : m.pre = <<3, 1>>),
       Pep(0, <<2>>, CHOOSE m \in Marks : m.pre = <<0, 0>> /\ m.post = 1 /\ m.dev = -1),
       Pep(0, <<1, 2, 0>>, CHOOSE m \in Marks : m.pre = <<0, 0>> /\ m.post = -1 /\ m.dev = 0)}
PredCases == {[k |-> "pred", preds |-> <<<<o1, v1>>>>, cand |-> w] : o1 \in Ops, v1 \in Peps, w \in PV}
        \cup {[k |-> "pred", preds |-> <<<<o1, v1>>, <<o2, v2>>>>, cand |-> w] : o1 \in Ops, o2 \in Ops, v1 \in PV, v2 \in PV, w \in PV}
        \cup {[k |-> "pred", preds |-> <<<<o1, v1>>, <<o2, v2>>, <<o3, v3>>>>, cand |-> w] :
                o1 \in {">=", ">"}, o2 \in {"<", "<=", "!="}, o3 \in Ops, v1 \in PV, v2 \in PV, v3 \in {CHOOSE z \in PV : z.rel = <<1, 1>> /\ z.pre[1] = 0}, w \in PV}
PredRef(x) == \A i \in 1..Len(x.preds) : Holds(x.preds[i][1], x.cand, x.preds[i][2])
BadPreds == {[k |-> "badpred", text |-> t] : t \in {"", ">=", "1.0", "=> 1.0", ">= 1.0,", ">= 1.0 <2", "~= 1.0", ">= not.a.version", "=1.0", ">= 1.0,,<2",
                                                   \* a blank inside the operator or inside the version: not the comparison it resembles
                                                   "> =1.5.0", ">=1. 5.0", "! =3.1", "< =2", ">=1 .0"}}

Cases == ConvCases \cup OrderCases \cup BadCases \cup CompatCases \cup PredCases \cup BadPreds
Init == c \in Cases
Next == FALSE /\ UNCHANGED c
Spec == Init /\ [][Next]_c

(* order-theoretic sanity of the reference itself *)
Trichotomy == c.k = "compat" => (PepLess(c.req, c.cur) \/ PepLess(c.cur, c.req) \/ PepEq(c.req, c.cur))
Antisymmetric == c.k = "compat" => ~(PepLess(c.req, c.cur) /\ PepLess(c.cur, c.req))
EqIsKeyEq == c.k = "compat" => (PepEq(c.req, c.cur) => ~PepLess(c.req, c.cur))
LexTotal == c.k = "order" => (LexLess(c.a, c.b) \/ LexLess(c.b, c.a) \/ c.a = c.b)
ASSUME Pep440Landmarks ==     \* 1.0.dev0 < 1.0a1 < 1.0b2 < 1.0rc1 < 1.0 < 1.0.post1 ; 1.0 == 1 ; 1!1 > 2
  LET m(p, po, d) == [pre |-> p, post |-> po, dev |-> d]
      v(p, po, d) == Pep(0, <<1, 0>>, m(p, po, d))
  IN /\ PepLess(v(<<0, 0>>, -1, 0), v(<<1, 1>>, -1, -1)) /\ PepLess(v(<<1, 1>>, -1, -1), v(<<2, 2>>, -1, -1))
     /\ PepLess(v(<<2, 2>>, -1, -1), v(<<3, 1>>, -1, -1)) /\ PepLess(v(<<3, 1>>, -1, -1), v(<<0, 0>>, -1, -1))
     /\ PepLess(v(<<0, 0>>, -1, -1), v(<<0, 0>>, 1, -1))
     /\ PepEq(v(<<0, 0>>, -1, -1), Pep(0, <<1>>, m(<<0, 0>>, -1, -1)))
     /\ PepLess(Pep(0, <<2>>, m(<<0, 0>>, -1, -1)), Pep(1, <<1>>, m(<<0, 0>>, -1, -1)))
     /\ PepLess(v(<<1, 1>>, -1, 1), v(<<1, 1>>, -1, -1))       \* 1.0a1.dev1 < 1.0a1
     /\ PepLess(v(<<0, 0>>, 1, 2), v(<<0, 0>>, 1, -1))         \* 1.0.post1.dev2 < 1.0.post1
=============================================================================
