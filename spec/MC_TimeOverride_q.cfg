SPECIFICATION Spec
CONSTANTS
  Days <- MCDays
  Secs = {0, 86399}
  Micros = {0, 999999}
  MaxDepth = 3
VIEW View
INVARIANT UtcNowIsOverride
INVARIANT Normalised
PROPERTY QueriesLeaveClock
PROPERTY AdvanceExact
ACTION_CONSTRAINT Emit
CHECK_DEADLOCK FALSE
