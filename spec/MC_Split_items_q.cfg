INIT InitItems
NEXT NoNext
CONSTANTS
  LFull = 0
  LLong = 0
  CL = 0
  Wide = FALSE
INVARIANT ReadInvertsWrite
CONSTRAINT EmitItems
CHECK_DEADLOCK FALSE
