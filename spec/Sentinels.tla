------------------------------ MODULE Sentinels ------------------------------
(***************************************************************************)
(* fixture._UUIDSentinels.__getattr__ under concurrent use: each thread      *)
(* takes the lock, creates the value if the name is new, releases, and then  *)
(* reads the table.  Values are "fresh": a counter stands for                *)
(* generate_uuid().  With UseLock = FALSE (a deviation that does not exist   *)
(* in the code) TLC finds the lost update -- evidence that the lock is what  *)
(* makes "one value per name" hold.  Spec growth beyond the listed           *)
(* properties; replayed by checks/c14.py (sequential semantics + a thread    *)
(* stress run).                                                              *)
(***************************************************************************)
EXTENDS Integers, FiniteSets, TLC

CONSTANTS Threads, Names, UseLock

VARIABLES table,     \* name -> value (0 = absent)
          next,      \* next fresh value
          lock,      \* holder or "free"
          pc, want, seen, got     \* per thread: program counter, requested name, what the check saw, result
vars == <<table, next, lock, pc, want, seen, got>>

Init == /\ table = [n \in Names |-> 0] /\ next = 1 /\ lock = "free"
        /\ pc = [t \in Threads |-> "idle"] /\ want \in [Threads -> Names]
        /\ seen = [t \in Threads |-> 0] /\ got = [t \in Threads |-> 0]

Acquire(t) == /\ pc[t] = "idle" /\ (UseLock => lock = "free")
              /\ lock' = IF UseLock THEN t ELSE lock
              /\ pc' = [pc EXCEPT ![t] = "check"] /\ UNCHANGED <<table, next, want, seen, got>>
Check(t) == /\ pc[t] = "check" /\ seen' = [seen EXCEPT ![t] = table[want[t]]]
            /\ pc' = [pc EXCEPT ![t] = "set"] /\ UNCHANGED <<table, next, lock, want, got>>
Set(t) == /\ pc[t] = "set"
          /\ IF seen[t] = 0 THEN table' = [table EXCEPT ![want[t]] = next] /\ next' = next + 1
             ELSE UNCHANGED <<table, next>>
          /\ pc' = [pc EXCEPT ![t] = "release"] /\ UNCHANGED <<lock, want, seen, got>>
Release(t) == /\ pc[t] = "release" /\ lock' = IF UseLock THEN "free" ELSE lock
              /\ pc' = [pc EXCEPT ![t] = "read"] /\ UNCHANGED <<table, next, want, seen, got>>
Read(t) == /\ pc[t] = "read" /\ got' = [got EXCEPT ![t] = table[want[t]]]
           /\ pc' = [pc EXCEPT ![t] = "done"] /\ UNCHANGED <<table, next, lock, want, seen>>
Next == \E t \in Threads : Acquire(t) \/ Check(t) \/ Set(t) \/ Release(t) \/ Read(t)
Spec == Init /\ [][Next]_vars

\* a name, once given a value, keeps it (no lost update) ...
Stable == [][\A n \in Names : table[n] # 0 => table'[n] = table[n]]_vars
\* ... so every caller asking for the same name gets the same value, and different names differ
Agreement == \A s, t \in Threads : (pc[s] = "done" /\ pc[t] = "done" /\ want[s] = want[t]) => got[s] = got[t]
Distinct == \A m, n \in Names : (m # n /\ table[m] # 0) => table[m] # table[n]
Mutex == UseLock => Cardinality({t \in Threads : pc[t] \in {"check", "set", "release"}}) <= 1
=============================================================================
