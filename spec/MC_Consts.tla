------------------------------ MODULE MC_Consts ------------------------------
EXTENDS Consts, Json
Export == PrintT(ToJson([c |-> c, ref |-> IF c.t = "salt" THEN SaltRef(c.m) ELSE [k |-> "power", prefix |-> "", n |-> 0]]))
=============================================================================
