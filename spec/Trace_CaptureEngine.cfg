SPECIFICATION TSpec
CONSTRAINT Done
CONSTRAINT Diag
INVARIANT Faithful
INVARIANT EndFaithful
INVARIANT ChunkIndependent
INVARIANT MemoryBound
INVARIANT ZeroWhileUnknown
CHECK_DEADLOCK FALSE
