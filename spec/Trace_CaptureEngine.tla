------------------------ MODULE Trace_CaptureEngine ------------------------
(* code -> spec for the capture engine: traces recorded from the REAL        *)
(* FileInspector/CaptureRegion/EndCaptureRegion running a scaled format      *)
(* program (lib/vf/scaled.py) are validated against CaptureEngine's actions  *)
(* with Dev = {}.  A trace is [s: stream, ev: <<event>>]; events:            *)
(*   [op |-> "eat", k, err, regs: name -> [ex, off, len, n]]                 *)
(*   [op |-> "query"]   [op |-> "finish"]                                    *)
(*   [op |-> "verdict", v: <<safety, match, complete, size>>, fails: <<..>>] *)
(* All traces of one batch share the program (TRACE_FMT) and stream length.  *)
EXTENDS Integers, Sequences, TLC, Json, IOUtils

Traces == JsonDeserialize(IOEnv.TRACE_FILE)
TFmt == IOEnv.TRACE_FMT
TN == Len(Traces[1].s)

VARIABLES stream, pos, regs, ps, finished, err, tid, l

E == INSTANCE CaptureEngine WITH N <- TN, Alpha <- 0..255, Fmt <- TFmt, Dev <- {}
tvars == <<stream, pos, regs, ps, finished, err, tid, l>>
T == Traces[tid]
Ev == T.ev[l]

TInit == /\ tid \in 1..Len(Traces)
         /\ stream = Traces[tid].s
         /\ pos = 0 /\ regs = E!InitRegs /\ ps = E!InitPs
         /\ finished = FALSE /\ err = FALSE /\ l = 1

RegsMatch == \A nm \in E!Names :
               /\ regs'[nm].ex = Ev.regs[nm].ex
               /\ regs'[nm].ex => /\ regs'[nm].off = Ev.regs[nm].off
                                  /\ regs'[nm].len = Ev.regs[nm].len
                                  /\ regs'[nm].n = Ev.regs[nm].n

SeqToSet(q) == {q[i] : i \in 1..Len(q)}

TNext == /\ l <= Len(T.ev) /\ l' = l + 1 /\ UNCHANGED tid
         /\ \/ (Ev.op = "eat" /\ E!EatChunk(Ev.k) /\ err' = Ev.err /\ RegsMatch)
            \/ (Ev.op = "query" /\ E!Query)
            \/ (Ev.op = "finish" /\ E!Finish)
            \/ (Ev.op = "verdict" /\ E!Query
                /\ E!Verdict[1] = Ev.v[1]
                /\ (Ev.v[1] # "rejected" \/ ~err =>
                      /\ E!Verdict[2] = Ev.v[2] /\ E!Verdict[3] = Ev.v[3]
                      /\ E!Verdict[4] = Ev.v[4])
                /\ E!Verdict[5] = SeqToSet(Ev.fails))
TSpec == TInit /\ [][TNext]_tvars

Done == (l = Len(T.ev) + 1) => PrintT(<<"done", tid>>)
Diag == IF "TRACE_DIAG" \in DOMAIN IOEnv THEN PrintT(<<"at", tid, l>>) ELSE TRUE

Faithful == E!Faithful
EndFaithful == E!EndFaithful
ChunkIndependent == E!ChunkIndependent
MemoryBound == E!MemoryBound
ZeroWhileUnknown == E!ZeroWhileUnknown
=============================================================================
