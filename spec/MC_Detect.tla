------------------------------ MODULE MC_Detect ------------------------------
EXTENDS Detect, Json
Emit == PrintT(ToJson([c |-> c, formats |-> FormatsOf(c), decide |-> Decide(c)]))
=============================================================================
