----------------------------- MODULE MC_QemuInfo -----------------------------
EXTENDS QemuInfo, Json
Emit == Finished => PrintT(ToJson([input |-> input, fields |-> fields, snaps |-> snaps, err |-> err]))
=============================================================================
