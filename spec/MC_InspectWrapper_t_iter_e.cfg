SPECIFICATION Spec
CONSTANTS
  NChunks = 3
  Insp = {"e", "a", "b"}
  Expected = "e"
  Flavour = "iter"
INVARIANT Transparent
INVARIANT Isolation
INVARIANT NeverFedAgain
INVARIANT ErroredExactly
INVARIANT AbortPoint
INVARIANT FinishAll
INVARIANT FedAll
PROPERTY NoReadAfterAbort
CONSTRAINT Emit
CHECK_DEADLOCK FALSE
