-------------------------- MODULE StopWatchIndProof --------------------------
(***************************************************************************)
(* TLAPS proof that IndInv of StopWatchInd is an inductive invariant and    *)
(* implies the clauses of C13 about monotonic clocks (elapsed = distance,   *)
(* splits never decrease) - for all integers, no bound on the depth.        *)
(* Apalache checks the same obligations by SMT on every run of C13; this    *)
(* is the machine-checked proof (tlapm, SMT/Zenon/Isabelle back ends).      *)
(*   tlapm --cleanfp -I .. StopWatchIndProof.tla                            *)
(***************************************************************************)
EXTENDS StopWatchInd, TLAPS

vars == <<st, started, stopped, clock, nsplits, lastSplit, prevSplit>>
Spec == Init /\ [][Next]_vars

THEOREM InitOK == Init => IndInv
  BY DEF Init, IndInv, Elapsed, Max
THEOREM StepOK == IndInv /\ [Next]_vars => IndInv'
  <1> SUFFICES ASSUME IndInv, [Next]_vars PROVE IndInv'
    OBVIOUS
  <1>1. CASE Tick
    BY <1>1 DEF Tick, IndInv, Elapsed, Max
  <1>2. CASE Start
    BY <1>2 DEF Start, IndInv, Elapsed, Max
  <1>3. CASE Restart
    BY <1>3 DEF Restart, IndInv, Elapsed, Max
  <1>4. CASE Stop
    BY <1>4 DEF Stop, IndInv, Elapsed, Max
  <1>5. CASE Resume
    BY <1>5 DEF Resume, IndInv, Elapsed, Max
  <1>6. CASE Split
    BY <1>6 DEF Split, IndInv, Elapsed, Max
  <1>7. CASE UNCHANGED vars
    BY <1>7 DEF vars, IndInv, Elapsed, Max
  <1> QED
    BY <1>1, <1>2, <1>3, <1>4, <1>5, <1>6, <1>7 DEF Next
THEOREM GoalOK == IndInv => ElapsedIsDistance /\ SplitsMonotone
  BY DEF IndInv, ElapsedIsDistance, SplitsMonotone, Elapsed, Max
THEOREM Safety == Spec => [](ElapsedIsDistance /\ SplitsMonotone)
  <1>1. Spec => []IndInv
    BY InitOK, StepOK, PTL DEF Spec
  <1> QED
    BY <1>1, GoalOK, PTL
=============================================================================
