------------------------ MODULE CaptureRegionIndProof ------------------------
(***************************************************************************)
(* TLAPS proof that IndInv of CaptureRegionInd (what a capture region holds *)
(* is the clamp of the stream position into the region; the end region is   *)
(* the tail) is inductive for all naturals: C01 Faithful / EndFaithful and  *)
(* C05's per-region cap without the bound of the TLC exploration.           *)
(***************************************************************************)
EXTENDS CaptureRegionInd, TLAPS

vars == <<off, len, elen, pos, n, en, eoff>>
Typed == /\ off \in Int /\ len \in Int /\ elen \in Int /\ pos \in Int /\ n \in Int /\ en \in Int /\ eoff \in Int
TInv == Typed /\ IndInv
Spec == Init /\ [][Next]_vars

THEOREM InitOK == Init => TInv
  BY DEF Init, TInv, Typed, IndInv, Clamp, Min, Max
THEOREM StepOK == TInv /\ [Next]_vars => TInv'
  <1> SUFFICES ASSUME TInv, [Next]_vars PROVE TInv'
    OBVIOUS
  <1>1. ASSUME NEW k \in Nat, Feed(k) PROVE TInv'
    BY <1>1 DEF Feed, TInv, Typed, IndInv, Clamp, Min, Max
  <1>2. CASE UNCHANGED vars
    BY <1>2 DEF vars, TInv, Typed, IndInv, Clamp, Min, Max
  <1> QED
    BY <1>1, <1>2 DEF Next
\* what a region holds never exceeds its length, whatever the stream announces
THEOREM Capped == Spec => [](n <= len /\ en <= elen)
  <1>1. Spec => []TInv
    BY InitOK, StepOK, PTL DEF Spec
  <1>2. TInv => (n <= len /\ en <= elen)
    BY DEF TInv, IndInv
  <1> QED
    BY <1>1, <1>2, PTL
=============================================================================
