--------------------------- MODULE ReadLoopIndProof ---------------------------
(***************************************************************************)
(* TLAPS proof of the part of ReadLoopInd's invariant that needs no          *)
(* division: what has been fed to the digest is exactly the prefix read,    *)
(* and the loop only reports the end at the end of the content - for every  *)
(* content length and chunk size.  (The clauses about whole chunks and the  *)
(* number of reads involve k * (pos \div k) and are left to Apalache.)      *)
(***************************************************************************)
EXTENDS ReadLoopInd, TLAPS

vars == <<n, k, pos, fed, reads, lastShort, done>>
Core == /\ n \in Int /\ k \in Int /\ pos \in Int /\ fed \in Int
        /\ n >= 0 /\ k >= 1 /\ pos >= 0 /\ pos <= n /\ fed = pos /\ (done => pos = n)
Spec == Init /\ [][Next]_vars

THEOREM InitOK == Init => Core
  BY DEF Init, Core
THEOREM StepOK == Core /\ [Next]_vars => Core'
  <1> SUFFICES ASSUME Core, [Next]_vars PROVE Core'
    OBVIOUS
  <1>1. CASE Read
    BY <1>1 DEF Read, Core, Min
  <1>2. CASE UNCHANGED vars
    BY <1>2 DEF vars, Core
  <1> QED
    BY <1>1, <1>2 DEF Next
THEOREM WholeContent == Spec => [](fed = pos /\ (done => fed = n))
  <1>1. Spec => []Core
    BY InitOK, StepOK, PTL DEF Spec
  <1>2. Core => (fed = pos /\ (done => fed = n))
    BY DEF Core
  <1> QED
    BY <1>1, <1>2, PTL
=============================================================================
