-------------------------- MODULE Trace_Retention --------------------------
(* C05, code -> spec: per-chunk retention recorded from the real inspectors   *)
(* (context_info after every eat_chunk) validated against the caps of         *)
(* ImageRef.  One trace = [fmt, ev: <<[k, info: <<[r, n]>>]>>].  Step rule:    *)
(* a region never holds more than its cap, never gains more than the chunk    *)
(* just presented, and the total stays within Bound(fmt) at every point.      *)
EXTENDS Integers, Sequences, TLC, Json, IOUtils

Traces == JsonDeserialize(IOEnv.TRACE_FILE)

VARIABLES img, pos, held, tid, l
I == INSTANCE ImageRef
tvars == <<img, pos, held, tid, l>>
T == Traces[tid]
Ev == T.ev[l]

\* held: sequence of [r, n] as logged; lookup with 0 for a region not present
Get(h, r) == LET S == {i \in 1..Len(h) : h[i].r = r} IN
             IF S = {} THEN 0 ELSE h[CHOOSE i \in S : TRUE].n
RECURSIVE Sum(_, _)
Sum(h, i) == IF i > Len(h) THEN 0 ELSE h[i].n + Sum(h, i + 1)

TInit == /\ tid \in 1..Len(Traces) /\ img = [fmt |-> Traces[tid].fmt]
         /\ pos = 0 /\ held = <<>> /\ l = 1

Eat == /\ Ev.k >= 0
       /\ pos' = pos + Ev.k
       /\ held' = Ev.info
       /\ \A i \in 1..Len(Ev.info) :
            /\ Ev.info[i].r \in I!RegionsOf(img.fmt)
            /\ Ev.info[i].n <= I!Cap(img.fmt, Ev.info[i].r)
            /\ Ev.info[i].n <= Get(held, Ev.info[i].r) + Ev.k
       /\ UNCHANGED img

TNext == l <= Len(T.ev) /\ l' = l + 1 /\ UNCHANGED tid /\ Eat
TSpec == TInit /\ [][TNext]_tvars

Done == (l = Len(T.ev) + 1) => PrintT(<<"done", tid>>)
Diag == IF "TRACE_DIAG" \in DOMAIN IOEnv THEN PrintT(<<"at", tid, l>>) ELSE TRUE

MemoryBound == Sum(held, 1) <= I!Bound(img.fmt)
=============================================================================
