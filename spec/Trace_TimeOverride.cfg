SPECIFICATION TSpec
CONSTRAINT Done
CONSTRAINT Diag
INVARIANT UtcNowIsOverride
INVARIANT Normalised
CHECK_DEADLOCK FALSE
