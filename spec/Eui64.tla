------------------------------- MODULE Eui64 -------------------------------
(***************************************************************************)
(* C15.  Byte-level model of netutils.get_ipv6_addr_by_EUI64 and            *)
(* get_mac_addr_by_ipv6 (a MAC is 6 bytes, an IPv6 address 16 bytes; no     *)
(* 128-bit numbers -- TLC integers are 32-bit), and decision tables for     *)
(* parse_host_port / escape_ipv6 and urlsplit / params.                     *)
(*   Eui64(mac)  = mac[1] with the universal/local bit inverted, mac[2],    *)
(*                 mac[3], ff, fe, mac[4], mac[5], mac[6]                   *)
(*   the address = network part of the prefix (first 8 bytes, masked to the *)
(*                 prefix length) followed by the interface identifier      *)
(*   MacOf(addr) = inverse: drop ff:fe, invert the bit again                *)
(* Prefixes longer than /64 or with bits in the interface half, and IPv4    *)
(* *networks* as prefix, are outside the statement and not generated.       *)
(***************************************************************************)
EXTENDS Integers, Sequences, FiniteSets, TLC

VARIABLE c

Byte == 0..255
FlipUL(b) == IF (b \div 2) % 2 = 1 THEN b - 2 ELSE b + 2       \* invert bit 1 (0x02)
Eui64(m) == <<FlipUL(m[1]), m[2], m[3], 255, 254, m[4], m[5], m[6]>>
Pow2(n) == CASE n = 0 -> 1 [] n = 1 -> 2 [] n = 2 -> 4 [] n = 3 -> 8 [] n = 4 -> 16 [] n = 5 -> 32
             [] n = 6 -> 64 [] n = 7 -> 128 [] n = 8 -> 256
\* keep the top r bits of byte b
KeepTop(b, r) == (b \div Pow2(8 - r)) * Pow2(8 - r)
\* network part: first 8 bytes of the prefix address masked to plen (plen <= 64)
NetByte(net, plen, i) == IF 8 * i <= plen THEN net[i]
                         ELSE IF 8 * (i - 1) >= plen THEN 0
                         ELSE KeepTop(net[i], plen - 8 * (i - 1))
NetPart(net, plen) == [i \in 1..8 |-> NetByte(net, plen, i)]
Address(net, plen, mac) == NetPart(net, plen) \o Eui64(mac)
MacOf(a) == <<FlipUL(a[9]), a[10], a[11], a[14], a[15], a[16]>>

B1 == {0, 1, 2, 3, 127, 128, 253, 254, 255}
B2 == {0, 127, 255}
Macs == {<<a, b, 17, d, 254, f>> : a \in B1, b \in B2, d \in B2, f \in {0, 254, 255}}
Nets == {<<32, 1, 13, 184, 0, 0, 0, 0>>, <<254, 128, 0, 0, 0, 0, 0, 0>>, <<253, 0, 171, 205, 18, 52, 255, 255>>,
         <<255, 255, 255, 255, 255, 255, 255, 255>>, <<0, 0, 0, 0, 0, 0, 0, 0>>, <<32, 1, 13, 184, 133, 163, 127, 129>>}
Plens == {0, 1, 7, 8, 10, 16, 33, 48, 56, 60, 63, 64}
EuiCases == {[k |-> "eui", net |-> n, plen |-> p, mac |-> m] : n \in Nets, p \in Plens, m \in Macs}

\* error table: what kind of prefix / mac -> outcome class
ErrCases == {[k |-> "err", prefix |-> p, mac |-> m] :
               \* v6_overflow: a prefix longer than /64 whose network address plus the interface identifier does not fit
               \* 128 bits - a value error like the others, whatever the address library calls it
               p \in {"v6", "v4addr", "v4dotted_short", "garbage", "empty", "int", "none", "bytes", "v6_overflow"},
               m \in {"ok", "five_groups", "garbage", "empty", "none"}}
ErrRef(x) == IF x.prefix \in {"int", "none", "bytes"} THEN "TypeError"
             ELSE IF x.prefix # "v6" \/ x.mac # "ok" THEN "ValueErrorOrTypeError"
             ELSE "ok"

(* parse_host_port(escape_ipv6(host) + ':' + port) = (host, port); no port -> default *)
\* scope1 / scope15: the shortest and the longest legal zone index (1 and 15 characters)
\* name_mixed / ipv6_upper: letter case is part of the host as given (it comes back as it went in)
\* scope25 / scope2512: zone ids that begin like a percent-escape of '%' (they are zone ids, not escapes)
Hosts == {"name", "fqdn", "name_mixed", "ipv4", "ipv6", "ipv6_upper", "ipv6_full", "ipv6_scoped", "ipv6_scope1", "ipv6_scope15",
          "ipv6_scope25", "ipv6_scope2512", "ipv6_v4mapped",
          \* the longest spelling there is (45 characters), plain and scoped
          "ipv6_v4full", "ipv6_v4full_scoped"}
HpCases == {[k |-> "hp", host |-> h, port |-> p, dflt |-> d] :
              h \in Hosts, p \in {"absent", "0", "1", "80", "65535"}, d \in {"none", "1234", "0", "65535", "str5672"}}      \* str5672: the default given as the text '5672' (it comes back as a number)
HpRef(x) == [host |-> x.host, port |-> IF x.port = "absent" THEN x.dflt ELSE x.port]
EscapeRef(h) == h \in {"ipv6", "ipv6_upper", "ipv6_full", "ipv6_scoped", "ipv6_scope1", "ipv6_scope15", "ipv6_scope25",
                       "ipv6_scope2512", "ipv6_v4mapped", "ipv6_v4full", "ipv6_v4full_scoped"}      \* bracketed iff IPv6

(* urlsplit: components in, components out *)
UrlCases == {[k |-> "url", scheme |-> s, user |-> u, host |-> h, port |-> p, path |-> pa, query |-> q, frag |-> f,
              allow |-> al, dscheme |-> ds] :
               s \in {"", "http", "https", "svn+ssh", "weird"}, u \in {"", "user", "user:pw"},
               h \in {"example.com", "10.0.0.1", "[::1]", "[2001:db8::7]"}, p \in {"", "80", "65535"},
               pa \in {"", "/a/b", "/a%20b;x"}, q \in {"none", "empty", "single", "repeat", "blank_value", "amp_only"},
               f \in {"none", "frag", "with_q"}, al \in BOOLEAN, ds \in {""}}
          \cup {[k |-> "url", scheme |-> "", user |-> "", host |-> h, port |-> "", path |-> pa, query |-> q, frag |-> f,
              allow |-> al, dscheme |-> "ftp"] :
               h \in {"example.com", "[::1]"}, pa \in {"", "/", "/a/b"}, q \in {"none", "repeat"},
               f \in {"none", "frag"}, al \in BOOLEAN}
          \* a URL that names its scheme keeps it whatever default the caller offers
          \cup {[k |-> "url", scheme |-> s, user |-> "", host |-> "example.com", port |-> p, path |-> "/a/b", query |-> "single",
              frag |-> "none", allow |-> TRUE, dscheme |-> ds] :
               s \in {"http", "https", "svn+ssh"}, p \in {"", "80"}, ds \in {"ftp", "https", "http"}}
\* last / all values per name for the query classes (names a, b)
ParamsRef(q, collapse) ==
  CASE q = "single" -> [a |-> <<"1">>, b |-> <<>>]
    [] q = "repeat" -> IF collapse THEN [a |-> <<"3">>, b |-> <<"2">>] ELSE [a |-> <<"1", "3">>, b |-> <<"2">>]
    [] OTHER -> [a |-> <<>>, b |-> <<>>]            \* none / empty / blank values are dropped by parse_qsl

Cases == EuiCases \cup ErrCases \cup HpCases \cup UrlCases
Init == c \in Cases
Next == FALSE /\ UNCHANGED c
Spec == Init /\ [][Next]_c

(* the algebra the property states, on the model *)
FlipInvolution == \A b \in {0, 1, 2, 3, 127, 128, 253, 254, 255} : FlipUL(FlipUL(b)) = b /\ FlipUL(b) \in Byte
RoundTrip == c.k = "eui" => MacOf(Address(c.net, c.plen, c.mac)) = c.mac
NetworkKept == c.k = "eui" => /\ SubSeq(Address(c.net, c.plen, c.mac), 1, 8) = NetPart(c.net, c.plen)
                              /\ (c.plen = 64 => NetPart(c.net, c.plen) = c.net)
                              /\ (c.plen = 0 => NetPart(c.net, c.plen) = <<0, 0, 0, 0, 0, 0, 0, 0>>)
MarkerInserted == c.k = "eui" => Address(c.net, c.plen, c.mac)[12] = 255 /\ Address(c.net, c.plen, c.mac)[13] = 254
=============================================================================
