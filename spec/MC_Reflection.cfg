SPECIFICATION Spec
INVARIANT ReqWithinAll
INVARIANT SameIsEquivalence
CONSTRAINT Export
CHECK_DEADLOCK FALSE
