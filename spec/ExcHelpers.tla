----------------------------- MODULE ExcHelpers -----------------------------
(***************************************************************************)
(* oslo_utils.excutils.save_and_reraise_exception (excutils.py:184-227) as  *)
(* an interpreter of handler-body programs.  The situation is               *)
(*     try: raise ORIG                                                      *)
(*     except ...:                                                          *)
(*         with save_and_reraise_exception(reraise=flag0) as ctx:           *)
(*             <body>                                                       *)
(* A behaviour of this module IS a program: every step appends one          *)
(* operation of the body and updates the abstract interpreter state; the    *)
(* body ends by falling off its end (End) or by an operation that raises.   *)
(* TLC's reachable terminal states are therefore all programs up to MaxLen  *)
(* with their outcome.  Exceptions are identified by small integers:        *)
(*   1 = the exception active on entry, 2 = an inner exception that the     *)
(*   body raises and catches itself, 3 = a new exception raised by the body *)
(*                                                                         *)
(* Operations                                                               *)
(*   noop         nothing                                                   *)
(*   inner        try: raise E2 / except: pass  (restores the context)      *)
(*   set_off/on   ctx.reraise = False / True                                *)
(*   raise_new    raise E3 (ends the body)                                  *)
(*   nest_on      with save_and_reraise_exception(): pass  -> re-raises the *)
(*                exception it captured (E1) out of the body                *)
(*   nest_off     with save_and_reraise_exception(reraise=False): pass      *)
(*   nest_caught  try: with save_and_reraise_exception(): pass / except:    *)
(*                pass -- the nested context re-raises E1 and the body      *)
(*                catches it: E1's traceback has grown, the outer context   *)
(*                must still re-raise it with the traceback it saved        *)
(*   force        ctx.force_reraise()   (raises the saved exception)        *)
(*   capture      ctx.capture()         (re-captures the active exception)  *)
(*   capture_in   try: raise E2 / except: ctx.capture()  (saves E2 instead) *)
(* The last three are direct uses of the object's methods; they are         *)
(* modelled as the code behaves so that behaviours continue past them, and  *)
(* `direct` remembers that the program used one (the property's clauses are *)
(* stated for bodies that do not).                                          *)
(***************************************************************************)
EXTENDS Integers, Sequences, TLC

CONSTANTS MaxLen

Ops == {"noop", "inner", "set_off", "set_on", "raise_new", "nest_on", "nest_off", "nest_caught",
        "force", "capture", "capture_in"}

VARIABLES prog,      \* the body so far
          flag0,     \* initial reraise flag
          reraise,   \* ctx.reraise
          saved,     \* exception held by ctx (0 = none: consumed by force_reraise)
          done,      \* body finished
          propagates,\* exception that leaves the with statement (0 = none)
          logged,    \* number of logger.error calls ('Original exception being dropped')
          direct     \* the program called force_reraise/capture itself
vars == <<prog, flag0, reraise, saved, done, propagates, logged, direct>>

Init == /\ prog = <<>> /\ flag0 \in BOOLEAN /\ reraise = flag0 /\ saved = 1
        /\ done = FALSE /\ propagates = 0 /\ logged = 0 /\ direct = FALSE

\* the body raises exception e: __exit__(exc_type is not None): log the original
\* iff reraise, return False -> e propagates
BodyRaises(e) == /\ done' = TRUE /\ propagates' = e
                 /\ logged' = IF reraise THEN logged + 1 ELSE logged
                 /\ UNCHANGED <<flag0, reraise, saved>>

Step(op) ==
  /\ ~done /\ Len(prog) < MaxLen
  /\ prog' = Append(prog, op)
  /\ CASE op \in {"noop", "inner", "nest_off", "nest_caught"} -> UNCHANGED <<flag0, reraise, saved, done, propagates, logged, direct>>
       [] op = "set_off" -> reraise' = FALSE /\ UNCHANGED <<flag0, saved, done, propagates, logged, direct>>
       [] op = "set_on"  -> reraise' = TRUE /\ UNCHANGED <<flag0, saved, done, propagates, logged, direct>>
       [] op = "raise_new" -> BodyRaises(3) /\ UNCHANGED direct
       [] op = "nest_on" -> BodyRaises(1) /\ UNCHANGED direct         \* the nested context re-raises E1
       [] op = "force" -> /\ direct' = TRUE
                          /\ IF saved = 0
                             THEN \* nothing captured any more: force_reraise re-creates an exception
                                  \* of the saved type -- a fresh object (id 4), masked
                                  BodyRaises(4)
                             ELSE /\ done' = TRUE /\ propagates' = saved
                                  /\ logged' = IF reraise THEN logged + 1 ELSE logged
                                  /\ saved' = 0 /\ UNCHANGED <<flag0, reraise>>
       [] op = "capture" -> saved' = 1 /\ direct' = TRUE /\ UNCHANGED <<flag0, reraise, done, propagates, logged>>
       [] op = "capture_in" -> saved' = 2 /\ direct' = TRUE /\ UNCHANGED <<flag0, reraise, done, propagates, logged>>

\* the body falls off its end: __exit__(None, None, None)
End == /\ ~done /\ done' = TRUE
       /\ propagates' = IF reraise THEN (IF saved = 0 THEN 4 ELSE saved) ELSE 0
       /\ saved' = IF reraise THEN 0 ELSE saved          \* __exit__ re-raises through force_reraise, which lets go of it
       /\ UNCHANGED <<prog, flag0, reraise, logged, direct>>

Next == (\E op \in Ops : Step(op)) \/ End
Spec == Init /\ [][Next]_vars

Raised == Len(prog) > 0 /\ prog[Len(prog)] \in {"raise_new", "nest_on", "force"}

(* C09, save_and_reraise_exception: never lose, replace or invent *)
\* body completes and reraise is on: the exception active on entry is raised again
CompletesReraises == (done /\ ~Raised /\ reraise /\ ~direct) => propagates = 1
\* body completes and reraise was switched off: nothing is raised
CompletesSilent == (done /\ ~Raised /\ ~reraise) => propagates = 0
\* the body itself raises: that exception propagates, the original is logged
\* exactly when it was due to be re-raised
BodyRaisePropagates == (done /\ Raised /\ ~direct) =>
                          /\ propagates = (IF prog[Len(prog)] = "raise_new" THEN 3 ELSE 1)
                          /\ logged = (IF reraise THEN 1 ELSE 0)
NeverInvents == (done /\ ~direct) => propagates \in {0, 1, 3}
LoggedAtMostOnce == logged <= 1

-----------------------------------------------------------------------------
(* exception_filter, remove_path_on_error, raise_with_cause as decision tables *)
FilterCases == {[usage |-> u, pred |-> p, body |-> b] :
                   \* bound_method_of_copy: the filter of a second object, a copy made after the first object's filter had been
                   \* used and whose predicate answers the opposite: the predicate consulted is the one of the object at hand
                   u \in {"context", "decorated", "bound_method", "bound_method_of_copy", "call_in_handler", "call_other_exc"},
                   p \in {"True", "False", "truthy", "None", "zero"},
                   b \in {"ok", "raises", "raises_base"}}        \* raises_base: a BaseException that is not an Exception
FilterRef(cs) ==
  IF cs.body = "ok" THEN [propagates |-> "none", pred_called |-> cs.usage \in {"call_in_handler", "call_other_exc"}]
  ELSE [propagates |-> IF cs.pred \in {"True", "truthy"} THEN "none" ELSE "same_object", pred_called |-> TRUE]

\* path: what the path is when the body fails -- the remover is called whatever it is
\* (delete_if_exists tolerates a missing file; a dangling symlink must go too)
RemoveCases == {[body |-> b, remove |-> r, path |-> p] :
                   b \in {"ok", "raises_exception", "raises_base_exception"},
                   \* raises_enoent: the remover itself reports "not found" (and removes nothing): an error of the remover like any other
                   \* ok_nested: the remover succeeds, and on its way protects (and loses) a second path of its own with the same helper
                   r \in {"ok", "ok_nested", "raises", "raises_enoent"}, p \in {"file", "missing", "dangling_symlink", "directory"}}
RemoveRef(cs) ==
  CASE cs.body = "ok" -> [removed |-> FALSE, propagates |-> "none", logged |-> 0]
    [] cs.body = "raises_base_exception" -> [removed |-> FALSE, propagates |-> "original", logged |-> 0]
    [] cs.remove \in {"ok", "ok_nested"} -> [removed |-> TRUE, propagates |-> "original", logged |-> 0]
    [] OTHER -> [removed |-> TRUE, propagates |-> "remove_error", logged |-> 1]

CauseCases == {[where |-> w, explicit |-> e] : w \in {"in_handler", "outside", "in_nested_handler"},
                                                e \in {"none", "given", "given_None"}}
CauseRef(cs) == IF cs.explicit = "given" THEN "given"
                ELSE IF cs.explicit = "given_None" THEN "None"
                ELSE IF cs.where = "in_handler" THEN "active"
                ELSE IF cs.where = "in_nested_handler" THEN "innermost_active" ELSE "None"
=============================================================================
