SPECIFICATION Spec
INVARIANT FailClosed
INVARIANT FailHasReason
INVARIANT CleanAccepted
INVARIANT QedNeverAccepted
INVARIANT SizeOnlyWhenCarried
CONSTRAINT Emit
CHECK_DEADLOCK FALSE
