--------------------------- MODULE MC_FileKinds ---------------------------
EXTENDS FileKinds, Json
Export == PrintT(ToJson([c |-> c,
                         ref |-> IF c.t = "doc" THEN [a |-> IsJson(c.d), b |-> IsYaml(c.d)]
                                 ELSE IF c.t = "addr" THEN [a |-> NoScope(c.a), b |-> ""]
                                 ELSE [a |-> "", b |-> ""],
                         attrs |-> IF c.t = "qemu" THEN [a \in Attrs |-> QemuRef(c, a)] ELSE [a \in {} |-> ""]]))
=============================================================================
