----------------------------- MODULE StopWatch -----------------------------
(***************************************************************************)
(* oslo_utils.timeutils.StopWatch (timeutils.py:334-482) as a transition    *)
(* system.  One action per public call, taken at the call's return (the     *)
(* library is sequential, so that is its linearization point); the clock    *)
(* is an environment variable that moves only *between* calls (Tick), so    *)
(* how often a call reads the clock is not observable.                      *)
(*                                                                         *)
(* Abstract state = exactly the private fields _state/_started_at/          *)
(* _stopped_at/_splits/_duration; observation variables op/arg/res hold the *)
(* last call and what it returned (hidden from the fingerprint by VIEW in   *)
(* the graph configuration).                                                *)
(*                                                                         *)
(* Deliberate modelling decisions (what the code does, not what one might   *)
(* wish):                                                                   *)
(*   - resume() keeps started_at: elapsed then includes the stopped gap.    *)
(*   - restart() from "started" is stop();start(): both read the same clock.*)
(*   - elapsed(maximum) returns max(0, maximum) when elapsed > maximum.     *)
(*   - __exit__ swallows the RuntimeError of stop() on a never started      *)
(*     watch.                                                               *)
(* Masked (modelled so behaviours continue, never compared): maximum < 0.   *)
(***************************************************************************)
EXTENDS Integers, Sequences, TLC

CONSTANTS Durations,   \* set of durations; NoDur stands for None
          Steps,       \* clock increments offered to Tick (may be negative)
          Maxima,      \* arguments offered to elapsed(maximum)
          NoDur        \* the value standing for "duration=None" (negative)

VARIABLES st, started, stopped, splits, dur, clock, mono, op, arg, res

watch == <<st, started, stopped, splits, dur>>
vars  == <<st, started, stopped, splits, dur, clock, mono, op, arg, res>>

Max(a, b) == IF a > b THEN a ELSE b
R(kind, v) == [k |-> kind, v |-> v]   \* a call result: kind in err/self/none/nil/int/bool/split/splits
Delta(earlier, later) == Max(0, later - earlier)      \* _delta_seconds

Elapsed == IF st = "stopped" THEN Delta(started, stopped)
                             ELSE Delta(started, clock)

Init == /\ st = "none" /\ started = 0 /\ stopped = 0 /\ splits = <<>>
        /\ dur \in Durations /\ clock = 0 /\ mono = TRUE
        /\ op = "init" /\ arg = 0 /\ res = R("none", 0)

Ret(o, a, r) == op' = o /\ arg' = a /\ res' = r
Same == UNCHANGED <<st, started, stopped, splits, dur, clock, mono>>
Err(o, a) == Ret(o, a, R("err", 0)) /\ Same

\* environment: the clock moves between calls; mono remembers whether it ever
\* went backwards since the last (re)start (the clauses of the property that
\* are stated for monotonic clocks are asserted only while mono holds)
Tick(d) == /\ clock' = clock + d
           /\ mono' = (mono /\ d >= 0)
           /\ Ret("tick", d, R("none", 0))
           /\ UNCHANGED watch

DoStart == /\ started' = clock /\ stopped' = 0 /\ st' = "started"
           /\ splits' = <<>> /\ mono' = TRUE
           /\ UNCHANGED <<dur, clock>>

Start == IF st = "started" THEN Ret("start", 0, R("self", 0)) /\ Same
         ELSE DoStart /\ Ret("start", 0, R("self", 0))

Stop == IF st = "stopped" THEN Ret("stop", 0, R("self", 0)) /\ Same
        ELSE IF st # "started" THEN Err("stop", 0)
        ELSE /\ stopped' = clock /\ st' = "stopped" /\ Ret("stop", 0, R("self", 0))
             /\ UNCHANGED <<started, splits, dur, clock, mono>>

Resume == IF st = "stopped"
          THEN /\ st' = "started" /\ Ret("resume", 0, R("self", 0))
               /\ UNCHANGED <<started, stopped, splits, dur, clock, mono>>
          ELSE Err("resume", 0)

Restart == DoStart /\ Ret("restart", 0, R("self", 0))

Split == IF st = "started"
         THEN LET e == Elapsed
                  l == IF splits = <<>> THEN e
                       ELSE Delta(splits[Len(splits)][1], e)
              IN /\ splits' = Append(splits, <<e, l>>)
                 /\ Ret("split", 0, R("split", <<e, l>>))
                 /\ UNCHANGED <<st, started, stopped, dur, clock, mono>>
         ELSE Err("split", 0)

ElapsedOp == IF st = "none" THEN Err("elapsed", 0)
             ELSE Ret("elapsed", 0, R("int", Elapsed)) /\ Same

ElapsedMax(m) == IF st = "none" THEN Err("elapsed_max", m)
                 ELSE Ret("elapsed_max", m,
                          R("int", IF Elapsed > m THEN Max(0, m) ELSE Elapsed)) /\ Same

Leftover == IF st # "started" \/ dur = NoDur THEN Err("leftover", 0)
            ELSE Ret("leftover", 0, R("int", Max(0, dur - Elapsed))) /\ Same

LeftoverNone == IF st # "started" THEN Err("leftover_none", 0)
                ELSE Ret("leftover_none", 0,
                         IF dur = NoDur THEN R("nil", 0)
                         ELSE R("int", Max(0, dur - Elapsed))) /\ Same

Expired == IF st = "none" THEN Err("expired", 0)
           ELSE Ret("expired", 0,
                    R("bool", IF dur = NoDur THEN FALSE ELSE Elapsed > dur)) /\ Same

HasStarted == Ret("has_started", 0, R("bool", st = "started")) /\ Same
HasStopped == Ret("has_stopped", 0, R("bool", st = "stopped")) /\ Same
SplitsOp   == Ret("splits", 0, R("splits", splits)) /\ Same

\* context manager protocol: __enter__ is start(); __exit__ is stop() with
\* its RuntimeError swallowed
Enter == IF st = "started" THEN Ret("enter", 0, R("self", 0)) /\ Same
         ELSE DoStart /\ Ret("enter", 0, R("self", 0))
Exit == IF st = "started"
        THEN /\ stopped' = clock /\ st' = "stopped" /\ Ret("exit", 0, R("nil", 0))
             /\ UNCHANGED <<started, splits, dur, clock, mono>>
        ELSE Ret("exit", 0, R("nil", 0)) /\ Same

Call == \/ Start \/ Stop \/ Resume \/ Restart \/ Split \/ ElapsedOp
        \/ (\E m \in Maxima : ElapsedMax(m))
        \/ Leftover \/ LeftoverNone \/ Expired
        \/ HasStarted \/ HasStopped \/ SplitsOp \/ Enter \/ Exit

Next == Call \/ (\E d \in Steps : Tick(d))

Spec == Init /\ [][Next]_vars

-----------------------------------------------------------------------------
(* The property (C13), clause by clause.                                    *)

TypeOK == /\ st \in {"none", "started", "stopped"}
          /\ (st = "none" => splits = <<>>)

NonNegative == st # "none" => Elapsed >= 0

\* "equals the clock distance from its last (re)start to now while running
\*  and to the stop instant while stopped" -- for monotonic clock readings
ElapsedIsDistance ==
    mono => /\ (st = "started" => Elapsed = clock - started)
            /\ (st = "stopped" => Elapsed = stopped - started
                                  /\ stopped <= clock /\ started <= stopped)

MaxRespected ==
    (op = "elapsed_max" /\ res.k = "int" /\ arg >= 0) =>
        /\ res.v <= arg /\ res.v >= 0
        /\ (Elapsed <= arg => res.v = Elapsed)

LeftoverRight ==
    (op \in {"leftover", "leftover_none"} /\ res.k = "int")
        => res.v = Max(0, dur - Elapsed)

ExpiredRight ==
    (op = "expired" /\ res.k = "bool") =>
        (res.v <=> (dur # NoDur /\ Elapsed > dur))

SplitsMonotone ==
    mono => \A i \in 1..Len(splits) :
              /\ splits[i][1] >= 0
              /\ (i = 1 => splits[i][2] = splits[i][1])
              /\ (i > 1 => /\ splits[i][1] >= splits[i-1][1]
                           /\ splits[i][2] = splits[i][1] - splits[i-1][1])

\* action properties
IllegalPreserves == [][res'.k = "err" => UNCHANGED watch]_vars
RestartClears == [][(op' = "restart" \/ (op' \in {"start", "enter"} /\ st # "started"))
                      => splits' = <<>> /\ started' = clock']_vars
QueriesPure == [][op' \in {"elapsed", "elapsed_max", "leftover", "leftover_none",
                           "expired", "has_started", "has_stopped", "splits"}
                      => UNCHANGED watch]_vars
IllegalExactly ==
    [][ /\ (op' = "stop"    => (res'.k = "err" <=> st = "none"))
        /\ (op' = "resume"  => (res'.k = "err" <=> st # "stopped"))
        /\ (op' = "split"   => (res'.k = "err" <=> st # "started"))
        /\ (op' \in {"elapsed", "elapsed_max", "expired"}
                            => (res'.k = "err" <=> st = "none"))
        /\ (op' = "leftover" => (res'.k = "err" <=> (st # "started" \/ dur = NoDur)))
        /\ (op' = "leftover_none" => (res'.k = "err" <=> st # "started"))
        /\ (op' \in {"start", "restart", "enter", "exit", "has_started",
                     "has_stopped", "splits"} => res'.k # "err") ]_vars
=============================================================================
