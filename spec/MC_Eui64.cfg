SPECIFICATION Spec
INVARIANT FlipInvolution
INVARIANT RoundTrip
INVARIANT NetworkKept
INVARIANT MarkerInserted
CONSTRAINT Emit
CHECK_DEADLOCK FALSE
