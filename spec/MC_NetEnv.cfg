SPECIFICATION Spec
INVARIANT RightFamily
INVARIANT OffSetsNothingElse
CONSTRAINT Export
CHECK_DEADLOCK FALSE
