INIT CmpInit
NEXT CmpNext
CONSTANTS
  Days = {0, 1, 2}
  Secs = {0, 43200, 86399}
  Micros = {0, 1, 999999}
  MaxDepth = 0
INVARIANT NormOK
CONSTRAINT EmitCmp
CHECK_DEADLOCK FALSE
