----------------------------- MODULE MC_Masking -----------------------------
EXTENDS Masking, Json
EmitMsg == PrintT(ToJson([msg |-> case, masked |-> Mask(case), f5 |-> QuoteAfterDictField(case)]))
EmitTree == PrintT(ToJson([tree |-> case, masked |-> MaskTree(case)]))
=============================================================================
