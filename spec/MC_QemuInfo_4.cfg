SPECIFICATION Spec
CONSTANTS MaxLines = 4
INVARIANT LastWins
INVARIANT RowsOnlyAfterHeader
PROPERTY Progress
CONSTRAINT Emit
CHECK_DEADLOCK FALSE
