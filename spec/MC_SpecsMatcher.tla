--------------------------- MODULE MC_SpecsMatcher ---------------------------
EXTENDS SpecsMatcher, Json, IOUtils
\* one family per TLC run (environment variable C18_FAMILY), all of them without it
Family == IF "C18_FAMILY" \in DOMAIN IOEnv THEN IOEnv.C18_FAMILY ELSE "all"
InitFamily == c \in (CASE Family = "str" -> StrCases [] Family = "in" -> InCases [] Family = "num" -> NumCases
                       [] Family = "range" -> RangeCases [] Family = "or" -> OrCases [] Family = "allin" -> AllInCases
                       [] Family = "all" -> Cases)
Emit == PrintT(ToJson([c |-> c, layouts |-> Layouts, ref |-> Ref(c)]))
=============================================================================
