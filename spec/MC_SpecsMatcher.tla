--------------------------- MODULE MC_SpecsMatcher ---------------------------
EXTENDS SpecsMatcher, Json
Emit == PrintT(ToJson([c |-> c, layouts |-> Layouts, ref |-> Ref(c)]))
=============================================================================
