INIT InitSlug
NEXT NextSlug
CONSTANTS SlugLen = 5
INVARIANT SlugAlphabet
INVARIANT SlugSingleHyphens
INVARIANT SlugIdempotent
CONSTRAINT EmitSlug
CHECK_DEADLOCK FALSE
