--------------------------- MODULE MC_StopWatch ----------------------------
(* Bounded instance of StopWatch: exhaustive check of every clause, and     *)
(* export of the labelled state graph (one JSON record per transition) for  *)
(* the spec -> code replay.                                                 *)
EXTENDS StopWatch, Json

MCNoDur == -1
MCDurations == {MCNoDur, 0, 2, 1000}
MCSteps == {0, 1, 3, -2}
MCMaxima == {0, 1, 5}

\* bound: the clock stays in a window, at most MaxSplits splits
CONSTANTS ClockLo, ClockHi, MaxSplits
Bound == clock >= ClockLo /\ clock <= ClockHi /\ Len(splits) <= MaxSplits

\* state identity for the graph: the watch, the clock and the monotonic flag;
\* op/arg/res are observations of the last call
View == <<st, started, stopped, splits, dur, clock, mono>>

Proj(s, a, o, p, d, c, m) ==
    [st |-> s, started |-> a, stopped |-> o, splits |-> p, dur |-> d,
     clock |-> c, mono |-> m]
Emit == PrintT(ToJson([f |-> Proj(st, started, stopped, splits, dur, clock, mono),
                       op |-> op', arg |-> arg', res |-> res',
                       t |-> Proj(st', started', stopped', splits', dur', clock', mono')]))
=============================================================================
