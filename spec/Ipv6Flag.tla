------------------------------ MODULE Ipv6Flag ------------------------------
(***************************************************************************)
(* netutils.is_ipv6_enabled: a process-wide answer computed on first use    *)
(* from /proc/sys/net/ipv6/conf/default/disable_ipv6 and then kept, while   *)
(* the environment (the proc entry) may change at any time.  Growth (G03).  *)
(***************************************************************************)
EXTENDS Integers, Sequences, TLC
CONSTANT Depth
Files == {"absent", "0", "0nl", "1", "garbage", "empty"}     \* 0nl: "0\n" as the kernel prints it
VARIABLES cache,    \* "unset" | "true" | "false"   (module global _IS_IPV6_ENABLED)
          file,     \* what the proc entry currently holds
          reads,    \* how often the entry was opened since the process started
          answers,  \* the answers given since the process started
          hist
vars == <<cache, file, reads, answers, hist>>
Enabled(f) == f \in {"0", "0nl"}
Init == cache = "unset" /\ file \in Files /\ reads = 0 /\ answers = <<>> /\ hist = <<[a |-> "file", v |-> file]>>
SetFile(f) == file' = f /\ UNCHANGED <<cache, reads, answers>> /\ hist' = Append(hist, [a |-> "file", v |-> f])
Call == LET first == cache = "unset"
            ans == IF first THEN (IF Enabled(file) THEN "true" ELSE "false") ELSE cache
        IN /\ cache' = ans
           /\ reads' = IF first /\ file # "absent" THEN reads + 1 ELSE reads
           /\ answers' = Append(answers, ans)
           /\ hist' = Append(hist, [a |-> "call", v |-> ans])
           /\ UNCHANGED file
NewProcess == cache' = "unset" /\ reads' = 0 /\ answers' = <<>> /\ UNCHANGED file
              /\ hist' = Append(hist, [a |-> "new", v |-> ""])
Next == Len(hist) <= Depth /\ (Call \/ NewProcess \/ \E f \in Files : f # file /\ SetFile(f))
Spec == Init /\ [][Next]_vars
\* within one process the answer never changes, whatever happens to the proc entry
AnswerStable == \A i, j \in 1..Len(answers) : answers[i] = answers[j]
ReadAtMostOnce == reads <= 1
=============================================================================
