SPECIFICATION Spec
INVARIANT SecretGone
INVARIANT RestUnchanged
INVARIANT NoKeyIdentity
INVARIANT Idempotent
INVARIANT CarriedOnly
CONSTRAINT EmitMsg
CHECK_DEADLOCK FALSE
