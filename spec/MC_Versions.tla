----------------------------- MODULE MC_Versions -----------------------------
EXTENDS Versions, Json
Out == CASE c.k = "conv" -> [digits |-> c.v]
         [] c.k = "order" -> [ord |-> OrderRef(c)]
         [] c.k = "bad" -> [err |-> "ValueError"]
         [] c.k = "compat" -> [ok |-> CompatRef(c)]
         [] c.k = "pred" -> [ok |-> PredRef(c)]
         [] c.k = "badpred" -> [err |-> "ValueError"]
Emit == PrintT(ToJson([c |-> c, ref |-> Out]))
=============================================================================
