--------------------------- MODULE MC_SafetyCheck ---------------------------
EXTENDS SafetyCheck, Json
Emit == phase = "done" =>
          PrintT(ToJson([complete |-> complete, match |-> match, script |-> script,
                         result |-> result, failures |-> failures]))
=============================================================================
