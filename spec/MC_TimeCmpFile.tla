---------------------------- MODULE MC_TimeCmpFile ----------------------------
(* The comparison reference of TimeOverride evaluated on cases drawn by the    *)
(* harness over the whole representable range (JSON file named by CASE_FILE).  *)
EXTENDS TimeOverride, Json, IOUtils
VARIABLE cc
FileCases == JsonDeserialize(IOEnv.CASE_FILE)
CmpInit == cc \in {FileCases[i] : i \in 1..Len(FileCases)} /\ Init
CmpNext == FALSE /\ UNCHANGED <<vars, cc>>
EmitCmp == PrintT(ToJson([c |-> cc, tutc |-> TUtc(cc), local |-> Local(cc), older |-> Older(cc), newer |-> Newer(cc), soon |-> Soon(cc)]))
NormOK == NormalizeRight(cc)
=============================================================================
