SPECIFICATION FSpec
CONSTANTS MaxLen = 0
VIEW FView
INVARIANT StaysWellFormed
PROPERTY Idempotent
ACTION_CONSTRAINT EmitFs
CHECK_DEADLOCK FALSE
