----------------------------- MODULE CausePrint -----------------------------
(***************************************************************************)
(* excutils.CausedByException.pformat as a transition system: a walk along *)
(* the `cause` pointers of a root exception that prints one line (or, for  *)
(* an exception of another family, the lines Python's own one-exception    *)
(* formatter gives) per exception visited, each level `indent` further in. *)
(*                                                                         *)
(* The graph is arbitrary: `cause` may point anywhere, also back (a cycle),*)
(* and is chosen in Init.  The code guards the walk with a list of the     *)
(* exceptions already visited; the ROOT is not put on that list, so a      *)
(* cycle through the root prints the root a second time, as a cause, and   *)
(* stops at the exception after it.  An exception that is not a            *)
(* CausedByException ends the walk whatever its own `cause` says.          *)
(***************************************************************************)
EXTENDS Integers, Sequences, FiniteSets, TLC

CONSTANT N            \* exceptions 1..N; 1 is the root (a CausedByException)
Node == 1..N
Kinds == {"caused", "foreign", "foreign_multi"}     \* foreign_multi: formats to several lines (a SyntaxError)

VARIABLES kind, cause,        \* the graph (chosen in Init, never changed)
          indent, show,       \* pformat's arguments: indent >= 0, show_root_class
          cur, depth, seen, out, pc
vars == <<kind, cause, indent, show, cur, depth, seen, out, pc>>

Line(n, d, c) == [n |-> n, ind |-> d, cls |-> c]       \* exception n, d units of indent_text, class name shown

Init == /\ kind \in [Node -> Kinds] /\ kind[1] = "caused"
        /\ cause \in [Node -> 0..N]                      \* 0: no cause
        /\ indent \in {0, 1, 2} /\ show \in BOOLEAN
        /\ out = <<Line(1, 0, show)>>
        /\ cur = cause[1] /\ depth = indent /\ seen = {} /\ pc = "walk"

\* one iteration of the while loop
Visit == /\ pc = "walk" /\ cur # 0 /\ cur \notin seen
         /\ seen' = seen \cup {cur}
         /\ out' = Append(out, Line(cur, depth, TRUE))
         /\ IF kind[cur] = "caused"
            THEN /\ depth' = depth + indent /\ cur' = cause[cur] /\ pc' = "walk"
            ELSE /\ pc' = "done" /\ UNCHANGED <<depth, cur>>       \* break: never deeper into another family
         /\ UNCHANGED <<kind, cause, indent, show>>
\* the loop condition fails
Stop == /\ pc = "walk" /\ (cur = 0 \/ cur \in seen)
        /\ pc' = "done" /\ UNCHANGED <<kind, cause, indent, show, cur, depth, seen, out>>

Next == Visit \/ Stop
Spec == Init /\ [][Next]_vars /\ WF_vars(Next)

TypeOK == /\ pc \in {"walk", "done"} /\ cur \in 0..N /\ seen \subseteq Node /\ depth \in 0..(2 * (N + 1))
(* what a reader of the output relies on *)
IndentGrows == \A i \in 1..Len(out) : out[i].ind = (i - 1) * indent
\* every exception behind the root is printed at most once: the walk cannot loop
NoRepeat == \A i, j \in 2..Len(out) : i # j => out[i].n # out[j].n
Bounded == Len(out) <= N + 1
\* only the last line can belong to another family
ForeignEndsIt == \A i \in 1..Len(out) : kind[out[i].n] # "caused" => (i = Len(out) /\ pc = "done")
\* the lines follow the cause pointers
FollowsCauses == \A i \in 2..Len(out) : out[i].n = cause[out[i - 1].n]
\* when the walk is over it went as far as it could: it ended at no cause, at a repeat, or at another family
Complete == pc = "done" =>
              LET last == out[Len(out)] IN
                \/ kind[last.n] # "caused"
                \/ cause[last.n] = 0
                \/ cause[last.n] \in seen
Terminates == <>(pc = "done")
=============================================================================
