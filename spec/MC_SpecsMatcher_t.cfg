SPECIFICATION Spec
CONSTANTS
  Wide = TRUE
INVARIANT NumLaws
INVARIANT StrLaws
INVARIANT OrLaws
INVARIANT AllInLaws
INVARIANT RangeLaws
INVARIANT RangeOrderError
INVARIANT InGrammar
CONSTRAINT Emit
CHECK_DEADLOCK FALSE
