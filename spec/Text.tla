-------------------------------- MODULE Text --------------------------------
(***************************************************************************)
(* C16.  encodeutils.safe_decode / safe_encode / to_utf8 and                *)
(* strutils.to_slug.                                                        *)
(*                                                                         *)
(* Text is a sequence of Unicode code points, bytes a sequence of 0..255.   *)
(* Four codecs are written out in TLA+ (UTF-8 with a validating decoder,    *)
(* UTF-16 little endian with BOM as Python's "utf-16" writes it, Latin-1,   *)
(* ASCII) so that byte fidelity is judged against the specification, not    *)
(* against Python's codecs; table-driven encodings (cp1252, shift_jis ...)  *)
(* are only held to the branch contract (delegated, see DESIGN.md).         *)
(* An outcome is [k |-> "bytes"|"text"|"same"|"err", v |-> sequence,        *)
(* e |-> error name]; "same" means the argument itself is returned.         *)
(***************************************************************************)
EXTENDS Integers, Sequences, FiniteSets, TLC

VARIABLE c

\* 65279 = U+FEFF: as a character it is text like any other (only a codec's own signature is dropped)
CPs == {0, 65, 127, 128, 255, 256, 2047, 2048, 65279, 65533, 65535, 65536, 1114111}
Encs == {"utf-8", "utf-16", "latin-1", "ascii"}
Policies == {"strict", "ignore", "replace"}

Bytes(b) == [k |-> "bytes", v |-> b, e |-> "none"]
TextV(t) == [k |-> "text", v |-> t, e |-> "none"]
Same == [k |-> "same", v |-> <<>>, e |-> "none"]
Err(n) == [k |-> "err", v |-> <<>>, e |-> n]

(* ---- encoders: one code point ---- *)
Enc8(cp) == IF cp < 128 THEN <<cp>>
            ELSE IF cp < 2048 THEN <<192 + cp \div 64, 128 + (cp % 64)>>
            ELSE IF cp < 65536 THEN <<224 + cp \div 4096, 128 + ((cp \div 64) % 64), 128 + (cp % 64)>>
            ELSE <<240 + cp \div 262144, 128 + ((cp \div 4096) % 64), 128 + ((cp \div 64) % 64), 128 + (cp % 64)>>
LE16(u) == <<u % 256, u \div 256>>
Enc16(cp) == IF cp < 65536 THEN LE16(cp)
             ELSE LET v == cp - 65536 IN LE16(55296 + v \div 1024) \o LE16(56320 + (v % 1024))
Representable(e, cp) == CASE e = "latin-1" -> cp < 256 [] e = "ascii" -> cp < 128 [] OTHER -> TRUE
EncCp(e, cp) == CASE e = "utf-8" -> Enc8(cp) [] e = "utf-16" -> Enc16(cp) [] OTHER -> <<cp>>

RECURSIVE EncBody(_, _, _)
\* returns <<ok, bytes>>; policy decides what an unrepresentable code point becomes
EncBody(e, t, pol) ==
  IF t = <<>> THEN <<TRUE, <<>>>>
  ELSE LET rest == EncBody(e, Tail(t), pol) IN
       IF Representable(e, t[1]) THEN <<rest[1], EncCp(e, t[1]) \o rest[2]>>
       ELSE IF pol = "strict" THEN <<FALSE, <<>>>>
       ELSE IF pol = "ignore" THEN rest
       ELSE <<rest[1], <<63>> \o rest[2]>>                      \* replace: '?'
Encode(e, t, pol) == LET r == EncBody(e, t, pol) IN
                     IF ~r[1] THEN Err("UnicodeEncodeError")
                     ELSE Bytes(IF e = "utf-16" THEN <<255, 254>> \o r[2] ELSE r[2])

(* ---- decoders (strict) ---- *)
Cont(b) == b >= 128 /\ b < 192
RECURSIVE Dec8(_)
\* validating UTF-8 decoder: <<ok, code points>>
Dec8(b) ==
  IF b = <<>> THEN <<TRUE, <<>>>>
  ELSE LET x == b[1] IN
    IF x < 128 THEN LET r == Dec8(Tail(b)) IN <<r[1], <<x>> \o r[2]>>
    ELSE IF x >= 194 /\ x < 224 /\ Len(b) >= 2 /\ Cont(b[2])
         THEN LET r == Dec8(SubSeq(b, 3, Len(b))) IN <<r[1], <<(x - 192) * 64 + (b[2] - 128)>> \o r[2]>>
    ELSE IF x >= 224 /\ x < 240 /\ Len(b) >= 3 /\ Cont(b[2]) /\ Cont(b[3])
         THEN LET cp == (x - 224) * 4096 + (b[2] - 128) * 64 + (b[3] - 128)
                  r == Dec8(SubSeq(b, 4, Len(b)))
              IN IF cp < 2048 \/ (cp >= 55296 /\ cp < 57344) THEN <<FALSE, <<>>>>      \* overlong / surrogate
                 ELSE <<r[1], <<cp>> \o r[2]>>
    ELSE IF x >= 240 /\ x < 245 /\ Len(b) >= 4 /\ Cont(b[2]) /\ Cont(b[3]) /\ Cont(b[4])
         THEN LET cp == (x - 240) * 262144 + (b[2] - 128) * 4096 + (b[3] - 128) * 64 + (b[4] - 128)
                  r == Dec8(SubSeq(b, 5, Len(b)))
              IN IF cp < 65536 \/ cp > 1114111 THEN <<FALSE, <<>>>> ELSE <<r[1], <<cp>> \o r[2]>>
    ELSE <<FALSE, <<>>>>
RECURSIVE Dec16Body(_)
Dec16Body(b) ==
  IF b = <<>> THEN <<TRUE, <<>>>>
  ELSE IF Len(b) < 2 THEN <<FALSE, <<>>>>
  ELSE LET u == b[1] + 256 * b[2] IN
    IF u >= 55296 /\ u < 56320
    THEN IF Len(b) < 4 THEN <<FALSE, <<>>>>
         ELSE LET w == b[3] + 256 * b[4] IN
              IF w < 56320 \/ w >= 57344 THEN <<FALSE, <<>>>>
              ELSE LET r == Dec16Body(SubSeq(b, 5, Len(b))) IN
                   <<r[1], <<65536 + (u - 55296) * 1024 + (w - 56320)>> \o r[2]>>
    ELSE IF u >= 56320 /\ u < 57344 THEN <<FALSE, <<>>>>
    ELSE LET r == Dec16Body(SubSeq(b, 3, Len(b))) IN <<r[1], <<u>> \o r[2]>>
Dec16(b) == IF Len(b) >= 2 /\ b[1] = 255 /\ b[2] = 254 THEN Dec16Body(SubSeq(b, 3, Len(b)))
            ELSE IF Len(b) >= 2 /\ b[1] = 254 /\ b[2] = 255 THEN <<FALSE, <<>>>>   \* big endian: not produced here
            ELSE Dec16Body(b)                                                     \* no BOM: native (little endian)
DecodeStrict(e, b) ==
  CASE e = "utf-8" -> Dec8(b)
    [] e = "utf-16" -> Dec16(b)
    [] e = "latin-1" -> <<TRUE, b>>
    [] e = "ascii" -> <<\A i \in 1..Len(b) : b[i] < 128, b>>

(* ---- the helpers ---- *)
\* safe_decode(x, incoming, 'strict'): str unchanged; bytes decoded with incoming, falling back to UTF-8
SafeDecode(kind, payload, incoming) ==
  IF kind = "other" THEN Err("TypeError")
  ELSE IF kind = "str" THEN Same
  ELSE LET d == DecodeStrict(incoming, payload) IN
       IF d[1] THEN TextV(d[2])
       ELSE LET f == Dec8(payload) IN IF f[1] THEN TextV(f[2]) ELSE Err("UnicodeDecodeError")
\* safe_encode(x, incoming, encoding, errors)
SafeEncode(kind, text, payload, incoming, encoding, pol) ==
  IF kind = "other" THEN Err("TypeError")
  ELSE IF kind = "str" THEN Encode(encoding, text, pol)
  ELSE IF payload # <<>> /\ encoding # incoming
       THEN LET d == SafeDecode("bytes", payload, incoming) IN
            IF d.k = "err" THEN d ELSE Encode(encoding, d.v, pol)
       ELSE Same
ToUtf8(kind, text) == IF kind = "other" THEN Err("TypeError")
                      ELSE IF kind = "bytes" THEN Same ELSE Encode("utf-8", text, "strict")

RECURSIVE SeqsOf(_, _)
SeqsOf(S, n) == IF n = 0 THEN {<<>>} ELSE {Append(q, x) : q \in SeqsOf(S, n - 1), x \in S}
Texts(n) == UNION {SeqsOf(CPs, i) : i \in 0..n}

RoundCases == {[k |-> "round", t |-> t, enc |-> e] : t \in Texts(3), e \in Encs}
EncodeCases == {[k |-> "encode", t |-> t, enc |-> e, pol |-> p] : t \in Texts(2), e \in Encs, p \in Policies}
\* bytes produced by one encoding, handed over claiming another
TransCases == {[k |-> "trans", t |-> t, made |-> m, incoming |-> i, enc |-> e] :
                 t \in Texts(2), m \in {"utf-8", "latin-1", "utf-16"}, i \in Encs, e \in Encs}
\* decoding under a lenient policy: for ASCII the policies are simple enough to specify --
\* ignore drops every byte >= 128, replace turns each into U+FFFD -- and the first attempt
\* then never fails, so the UTF-8 fallback must NOT be taken
RECURSIVE AsciiLenient(_, _)
AsciiLenient(b, pol) == IF b = <<>> THEN <<>>
                        ELSE IF b[1] < 128 THEN <<b[1]>> \o AsciiLenient(Tail(b), pol)
                        ELSE IF pol = "ignore" THEN AsciiLenient(Tail(b), pol)
                        ELSE <<65533>> \o AsciiLenient(Tail(b), pol)
\* transcoding under a lenient policy: the policy governs the re-encoding half too (what the target cannot
\* represent is dropped / replaced, not an error)
TransPolCases == {[k |-> "transpol", t |-> t, enc |-> e, pol |-> p] :
                    t \in Texts(2), e \in {"ascii", "latin-1"}, p \in {"ignore", "replace"}}
DecPolCases == {[k |-> "decpol", t |-> t, made |-> m, pol |-> p] :
                  t \in Texts(2), m \in {"utf-8", "latin-1", "utf-16"}, p \in {"ignore", "replace"}}
TypeCases == {[k |-> "type", fn |-> f, kind |-> kd] : f \in {"safe_decode", "safe_encode", "to_utf8"},
                                                       kd \in {"str", "bytes", "other"}}
Cases == RoundCases \cup EncodeCases \cup TransCases \cup TransPolCases \cup DecPolCases \cup TypeCases

Init == c \in Cases
Next == FALSE /\ UNCHANGED c
Spec == Init /\ [][Next]_c

(* C16 on the codecs themselves: Dec(e, Enc(e, t)) = t for every representable t *)
AllRep(e, t) == \A i \in 1..Len(t) : Representable(e, t[i])
RoundTrip == c.k = "round" =>
   (AllRep(c.enc, c.t) => LET b == Encode(c.enc, c.t, "strict") IN
                           b.k = "bytes" /\ DecodeStrict(c.enc, b.v) = <<TRUE, c.t>>)
StrictFailsExactly == c.k = "round" => (Encode(c.enc, c.t, "strict").k = "err" <=> ~AllRep(c.enc, c.t))
IgnoreNeverFails == c.k = "encode" => (c.pol # "strict" => Encode(c.enc, c.t, c.pol).k = "bytes")

-----------------------------------------------------------------------------
(* to_slug as a transducer over character classes *)
SlugClasses == {"lower", "upper", "digit", "underscore", "hyphen", "space", "tab", "nbsp", "punct",
                "accented", "compat_letter", "compat_digit", "nonascii_other",
                \* a character whose compatibility decomposition is a digit wrapped in ASCII punctuation (U+2474 "(1)",
                \* U+2488 "1."): the punctuation goes like any other, the digit stays
                "compat_punct_digit"}
Word == {"lower", "upper", "digit", "underscore", "accented", "compat_letter", "compat_digit", "compat_punct_digit"}
Blank == {"space", "tab", "nbsp"}
\* step 1+2: NFKD to ASCII and removal of everything but word characters, blanks and hyphens
Keep(q) == SelectSeq([i \in 1..Len(q) |-> [cls |-> q[i], src |-> i]],
                     LAMBDA x : x.cls \in Word \cup Blank \cup {"hyphen"})
RECURSIVE LStrip(_)
LStrip(q) == IF q # <<>> /\ q[1].cls \in Blank THEN LStrip(Tail(q)) ELSE q
RECURSIVE RStrip(_)
RStrip(q) == IF q # <<>> /\ q[Len(q)].cls \in Blank THEN RStrip(SubSeq(q, 1, Len(q) - 1)) ELSE q
\* step 4: runs of hyphens / blanks collapse into one hyphen; word characters map to their (lower-cased) image
RECURSIVE Collapse(_, _)
Collapse(q, inRun) ==
  IF q = <<>> THEN <<>>
  ELSE IF q[1].cls \in Word THEN <<[o |-> "w", src |-> q[1].src]>> \o Collapse(Tail(q), FALSE)
  ELSE IF inRun THEN Collapse(Tail(q), TRUE)
  ELSE <<[o |-> "-", src |-> 0]>> \o Collapse(Tail(q), TRUE)
Slug(q) == Collapse(RStrip(LStrip(Keep(q))), FALSE)
SlugInputs(n) == UNION {SeqsOf(SlugClasses, i) : i \in 0..n}
\* the output as a class sequence again (for idempotence on the model)
AsClasses(out) == [i \in 1..Len(out) |-> IF out[i].o = "-" THEN "hyphen" ELSE "lower"]
NoDoubleHyphen(out) == \A i \in 1..(Len(out) - 1) : ~(out[i].o = "-" /\ out[i + 1].o = "-")
=============================================================================
