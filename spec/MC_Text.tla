------------------------------- MODULE MC_Text -------------------------------
EXTENDS Text, Json
Payload(x) == Encode(x.made, x.t, "strict")
Out == CASE c.k = "round" -> [enc |-> Encode(c.enc, c.t, "strict")]
         [] c.k = "encode" -> [enc |-> Encode(c.enc, c.t, c.pol)]
         [] c.k = "trans" -> IF Payload(c).k = "err" THEN [skip |-> TRUE]
                             ELSE [payload |-> Payload(c).v,
                                   decode |-> SafeDecode("bytes", Payload(c).v, c.incoming),
                                   encode |-> SafeEncode("bytes", <<>>, Payload(c).v, c.incoming, c.enc, "strict")]
         [] c.k = "transpol" -> [payload |-> Encode("utf-8", c.t, "strict").v,
                                 encode |-> SafeEncode("bytes", <<>>, Encode("utf-8", c.t, "strict").v, "utf-8", c.enc, c.pol)]
         [] c.k = "decpol" -> IF Payload(c).k = "err" THEN [skip |-> TRUE]
                              ELSE [payload |-> Payload(c).v, decode |-> TextV(AsciiLenient(Payload(c).v, c.pol))]
         [] c.k = "type" -> [decode |-> SafeDecode(c.kind, <<65>>, "utf-8"),
                             encode |-> SafeEncode(c.kind, <<65>>, <<65>>, "utf-8", "utf-8", "strict"),
                             utf8 |-> ToUtf8(c.kind, <<65>>)]
Emit == PrintT(ToJson([c |-> c, ref |-> Out]))
CONSTANTS SlugLen
\* class sequences are enumerated by extension (one state per sequence)
InitSlug == c = <<>>
NextSlug == Len(c) < SlugLen /\ \E cls \in SlugClasses : c' = Append(c, cls)
EmitSlug == PrintT(ToJson([q |-> c, out |-> Slug(c)]))
SlugAlphabet == \A i \in 1..Len(Slug(c)) : Slug(c)[i].o \in {"w", "-"}
SlugSingleHyphens == NoDoubleHyphen(Slug(c))
SlugIdempotent == AsClasses(Slug(AsClasses(Slug(c)))) = AsClasses(Slug(c))
=============================================================================
