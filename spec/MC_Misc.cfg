SPECIFICATION Spec
INVARIANT PairsAreLeaves
CONSTRAINT Emit
CHECK_DEADLOCK FALSE
