INIT InitTrees
NEXT Next
INVARIANT TreeSameKeys
INVARIANT TreeMasksUnderKey
INVARIANT TreeResultIsDict
CONSTRAINT EmitTree
CHECK_DEADLOCK FALSE
