------------------------------- MODULE MC_Files -------------------------------
EXTENDS Files, Json
RSpec == RInit /\ [][RNext]_vars
FSpec == FInit /\ [][FNext]_vars
EmitRead == done => PrintT(ToJson([n |-> n, k |-> k, pieces |-> pieces]))
EmitFs == PrintT(ToJson([f |-> fs, op |-> op', arg |-> arg', res |-> res', t |-> fs']))
FView == <<fs, depth>>
LastCases == {<<size, num>> : size \in {0, 1, 2, 9, 10}, num \in {0, 1, 2, 8, 9, 10, 11, 100000}}
ASSUME PrintT(ToJson([last |-> {[size |-> x[1], num |-> x[2], ref |-> LastBytes(x[1], x[2])] : x \in LastCases},
                      errno |-> {[c |-> x, swallowed |-> Swallowed(x.fn, x.e, x.isdir)] : x \in ErrnoCases},
                      links |-> {[c |-> x, ref |-> LinkRef(x)] : x \in LinkCases}]))
ASSUME OnlyTwoSwallowed
=============================================================================
