SPECIFICATION Spec
CONSTANTS MaxLines = 3
INVARIANT LastWins
INVARIANT RowsOnlyAfterHeader
PROPERTY Progress
CONSTRAINT Emit
CHECK_DEADLOCK FALSE
