------------------------------- MODULE MC_Net -------------------------------
EXTENDS Net, Json
Emit == PrintT(ToJson([c |-> c, valid |-> Valid(c), v6cidr |-> (IF c.k = "cidr" THEN Cidr6Valid(c) ELSE FALSE)]))
EmitChars == PrintT(ToJson([s |-> str, quad |-> QuadValid(str)]))
=============================================================================
