SPECIFICATION Spec
CONSTANTS Checks = {"a", "b", "c"}
INVARIANT FailClosed
INVARIANT ErrorIsFailure
INVARIANT RefusedWhenUnfit
INVARIANT Total
CONSTRAINT Emit
CHECK_DEADLOCK FALSE
