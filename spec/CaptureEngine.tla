--------------------------- MODULE CaptureEngine ---------------------------
(***************************************************************************)
(* The streaming capture engine of oslo_utils.imageutils.format_inspector:  *)
(* CaptureRegion.capture (73-93), EndCaptureRegion (96-123),                *)
(* FileInspector._capture/eat_chunk/finish (240-288), with a *format        *)
(* program* plugged in (regions defined from pointers read in earlier       *)
(* regions, region_complete callbacks), at the grain of the implementation: *)
(*                                                                         *)
(*   EatChunk(k) = Advance ; CaptureAll ; Settle(PostProcess ; RePresent)*  *)
(*                 ; Callbacks                                              *)
(*                                                                         *)
(* The stream is chosen in Init (every stream of length N over Alpha); every *)
(* chunking -- including empty chunks -- is a behaviour.  Region content is *)
(* not stored: a region holds "n bytes copied from stream position src",    *)
(* with bad = TRUE as soon as a copy is not contiguous with what is already *)
(* held, and Byte(r, i) = stream[r.src + i] feeds the parsers -- a          *)
(* misaligned capture therefore feeds the WRONG bytes to the table walk     *)
(* exactly as the code does.                                                *)
(*                                                                         *)
(* Dev names the deviations of the pinned code from the intended design:    *)
(*   "D1_NoSettleLoop"      post_process runs once per chunk (pinned)        *)
(*   "D7_MisalignedAppend"  CaptureRegion.capture second disjunct (pinned)   *)
(*   "F2_BackwardPointers"  chain program follows pointers that point into   *)
(*                          already streamed structures (pinned)             *)
(* With Dev = {} the module is the intended (repaired) design and satisfies  *)
(* Faithful and ChunkIndependent; with a deviation switched on TLC finds the *)
(* counterexample (evidence that the finding is real at design level).       *)
(*                                                                         *)
(* Format programs (scaled layouts; the harness carries the same programs   *)
(* as subclasses of the real FileInspector, lib/vf/scaled.py):               *)
(*   "chain" VHDX-like: ident(0,1) header(1,2)=[sig,ptr] -> meta(ptr,4)=     *)
(*           [sig,cnt,e1,e2] -> vds(meta.off+e,1); if/elif post_process      *)
(*   "fixed" qcow/luks/vmdk-footer-like: header(0,2) parsed in its           *)
(*           region_complete callback, opt(2,2,min_length=1), tail=End(2)    *)
(*   "reloc" VMDK-like: header(0,3,min_length=2)=[kind,num,_] and a           *)
(*           provisional desc(0,3,min_length=1) at the start; once the header *)
(*           is complete post_process deletes desc and re-creates it at       *)
(*           offset 3 with length min(num,2) (same name, new object), creates *)
(*           the footer End(2) late when kind = 2, and region_complete(desc)  *)
(*           parses the descriptor (text-descriptor mode is finding F1 and is *)
(*           kept out of the alphabet)                                        *)
(***************************************************************************)
EXTENDS Integers, Sequences, FiniteSets, TLC

CONSTANTS N,      \* stream length
          Alpha,  \* byte alphabet (small naturals)
          Fmt,    \* "chain" | "fixed"
          Dev     \* set of deviations switched on

VARIABLES stream, pos, regs, ps, finished, err

vars == <<stream, pos, regs, ps, finished, err>>

Min(a, b) == IF a < b THEN a ELSE b
Max(a, b) == IF a > b THEN a ELSE b

Names == IF Fmt = "chain" THEN {"ident", "header", "meta", "vds"}
         ELSE IF Fmt = "reloc" THEN {"header", "desc", "footer"}
         ELSE {"header", "opt", "tail"}

NoMin == -1
\* gen distinguishes region OBJECTS: a region deleted and re-created under the same name is a
\* different object (eat_chunk tracks new / newly complete regions by object identity)
NoReg == [ex |-> FALSE, kind |-> "fix", off |-> 0, len |-> 0, minlen |-> NoMin,
          src |-> 0, n |-> 0, bad |-> FALSE, fin |-> FALSE, gen |-> 0]
Reg(o, l)        == [NoReg EXCEPT !.ex = TRUE, !.off = o, !.len = l, !.src = o]
RegMin(o, l, m)  == [Reg(o, l) EXCEPT !.minlen = m]
EndReg(l)        == [NoReg EXCEPT !.ex = TRUE, !.kind = "end", !.off = l, !.len = l]

\* CaptureRegion.complete / EndCaptureRegion.complete
Complete(r) == IF r.kind = "end" THEN r.n = r.len /\ r.fin
               ELSE IF r.minlen # NoMin THEN r.minlen <= r.n
               ELSE r.n = r.len

\* i-th byte (1-based) of what region r holds
Byte(r, i) == stream[r.src + i]

-----------------------------------------------------------------------------
(* CaptureRegion.capture(chunk, current_position): rs = read start, p = position after *)
CapFix(r, rs, p) ==
  IF "D7_MisalignedAppend" \in Dev
  THEN \* pinned code: two disjuncts, the second appends to a region whose
       \* first bytes were never seen
       IF (rs <= r.off /\ r.off <= p) \/ (r.off <= rs /\ rs <= r.off + r.len)
       THEN LET lead  == IF rs < r.off THEN r.off - rs ELSE 0
                avail == Max(0, (p - rs) - lead)
                from  == rs + lead
                n2    == Min(r.len, r.n + avail)
                isbad == r.bad \/ (avail > 0 /\ r.n > 0 /\ from # r.src + r.n)
                               \/ (avail > 0 /\ r.n = 0 /\ from # r.off)
            IN [r EXCEPT !.n = n2,
                         !.src = IF r.n = 0 /\ avail > 0 THEN from ELSE r.src,
                         !.bad = isbad /\ n2 > 0]
       ELSE r
  ELSE \* intended: only ever append the bytes that directly follow what is held
       LET wanted == r.off + r.n IN
       IF rs <= wanted /\ wanted <= p
       THEN [r EXCEPT !.n = Min(r.len, r.n + (p - wanted))]
       ELSE r

(* EndCaptureRegion.capture: data += chunk; data = data[-length:]; offset = pos - len(data) *)
CapEnd(r, rs, p) ==
  LET n2 == Min(r.len, r.n + (p - rs)) IN
  [r EXCEPT !.n = n2, !.src = p - n2, !.off = p - n2]

(* FileInspector._capture for one region: complete fixed regions are skipped *)
Cap1(r, rs, p) ==
  IF ~r.ex THEN r
  ELSE IF r.kind = "end" THEN CapEnd(r, rs, p)
  ELSE IF Complete(r) THEN r
  ELSE CapFix(r, rs, p)

-----------------------------------------------------------------------------
(* Format programs.  Post(rg, s) = one call of post_process: <<regs, ps, raised>> *)

HdrEnd == 3          \* chain: header occupies offsets 1..2
MetaLen == 4         \* chain: [sig, cnt, e1, e2]

ChainPost(rg, s) ==
  IF Complete(rg["header"]) /\ ~rg["meta"].ex
  THEN \* _find_meta_region
       IF Byte(rg["header"], 1) # 1 THEN <<rg, s, TRUE>>
       ELSE LET p == Byte(rg["header"], 2) IN
            IF p < HdrEnd /\ "F2_BackwardPointers" \notin Dev THEN <<rg, s, TRUE>>
            ELSE <<[rg EXCEPT !["meta"] = Reg(p, MetaLen)], s, FALSE>>
  ELSE IF rg["meta"].ex /\ ~rg["vds"].ex
  THEN \* _find_meta_entry
       LET m == rg["meta"] IN
       IF m.n < 2 THEN <<rg, s, FALSE>>
       ELSE IF Byte(m, 1) # 1 THEN <<rg, s, TRUE>>
       ELSE LET cnt == Byte(m, 2)
                es  == 2 + cnt
            IN IF m.n < es THEN <<rg, s, FALSE>>
               ELSE LET found == {i \in 1..cnt : Byte(m, 2 + i) # 0} IN
                    IF found = {} THEN <<rg, s, FALSE>>
                    ELSE LET i == CHOOSE j \in found : \A q \in found : j <= q
                             e == Byte(m, 2 + i)
                         IN IF e < es /\ "F2_BackwardPointers" \notin Dev
                            THEN <<rg, s, TRUE>>
                            ELSE <<[rg EXCEPT !["meta"].len = m.n,
                                              !["vds"] = Reg(m.off + e, 1)], s, FALSE>>
  ELSE <<rg, s, FALSE>>

DescOff == 3
DescMax == 2
RelocPost(rg, s) ==
  IF ~rg["header"].ex \/ ~Complete(rg["header"]) THEN <<rg, s, FALSE>>
  ELSE LET v == Byte(rg["header"], 1)
           num == Byte(rg["header"], 2)
       IN IF v \notin {1, 2} THEN <<rg, s, TRUE>>                    \* signature not found
          ELSE LET r1 == IF v = 2 /\ ~rg["footer"].ex
                         THEN [rg EXCEPT !["footer"] = [EndReg(2) EXCEPT !.gen = 1]] ELSE rg
                   r2 == IF r1["desc"].off = 0
                         THEN [r1 EXCEPT !["desc"] = [Reg(DescOff, Min(num, DescMax)) EXCEPT !.gen = r1["desc"].gen + 1]]
                         ELSE r1
               IN <<r2, s, FALSE>>

Post(rg, s) == IF Fmt = "chain" THEN ChainPost(rg, s)
               ELSE IF Fmt = "reloc" THEN RelocPost(rg, s) ELSE <<rg, s, FALSE>>

(* region_complete(name): one-time parse of a region (qcow-style) *)
OnComplete(nm, rg, s) ==
  IF Fmt = "fixed" /\ nm = "header"
  THEN [s EXCEPT !.magic = Byte(rg["header"], 1), !.size = Byte(rg["header"], 2)]
  ELSE IF Fmt = "reloc" /\ nm = "desc"
  THEN \* _parse_descriptor: the provisional region holds header bytes (garbage = 9), an empty
       \* descriptor gives 0, otherwise the type byte
       [s EXCEPT !.magic = IF rg["desc"].off = 0 THEN 9
                           ELSE IF rg["desc"].n = 0 THEN 0 ELSE Byte(rg["desc"], 1)]
  ELSE s

-----------------------------------------------------------------------------
(* Settle: post_process, re-present the current chunk to regions created by  *)
(* it, and (intended design) repeat until no new region appears.             *)
RECURSIVE Settle(_, _, _, _, _)
Settle(rg, s, rs, p, fuel) ==
  LET pr  == Post(rg, s)
      rg2 == pr[1]
      new == {nm \in Names : rg2[nm].ex /\ (~rg[nm].ex \/ rg2[nm].gen # rg[nm].gen)}
      rg3 == [nm \in Names |-> IF nm \in new THEN Cap1(rg2[nm], rs, p) ELSE rg2[nm]]
  IN IF pr[3] THEN <<rg2, pr[2], TRUE>>
     ELSE IF new = {} \/ fuel = 0 THEN <<rg3, pr[2], FALSE>>
     ELSE IF "D1_NoSettleLoop" \in Dev THEN <<rg3, pr[2], FALSE>>
     ELSE Settle(rg3, pr[2], rs, p, fuel - 1)

RECURSIVE Fire(_, _, _)
Fire(S, rg, s) == IF S = {} THEN s
                  ELSE LET nm == CHOOSE x \in S : TRUE
                       IN Fire(S \ {nm}, rg, OnComplete(nm, rg, s))

InitRegs ==
  IF Fmt = "chain"
  THEN [nm \in Names |-> IF nm = "ident" THEN Reg(0, 1)
                         ELSE IF nm = "header" THEN Reg(1, 2) ELSE NoReg]
  ELSE IF Fmt = "reloc"
  THEN [nm \in Names |-> IF nm = "header" THEN RegMin(0, 3, 2)
                         ELSE IF nm = "desc" THEN RegMin(0, 3, 1) ELSE NoReg]
  ELSE [nm \in Names |-> IF nm = "header" THEN Reg(0, 2)
                         ELSE IF nm = "opt" THEN RegMin(2, 2, 1) ELSE EndReg(2)]

InitPs == [magic |-> 0, size |-> 0]

Init == /\ stream \in [1..N -> Alpha]
        /\ pos = 0 /\ regs = InitRegs /\ ps = InitPs
        /\ finished = FALSE /\ err = FALSE

(* eat_chunk(chunk) with len(chunk) = k.  After an exception (err) the caller *)
(* stops feeding this inspector.                                             *)
EatChunk(k) ==
  /\ ~finished /\ ~err /\ pos + k <= N
  /\ LET p   == pos + k
         pre == {<<nm, regs[nm].gen>> : nm \in {x \in Names : regs[x].ex /\ Complete(regs[x])}}
         c1  == [nm \in Names |-> Cap1(regs[nm], pos, p)]
         s   == Settle(c1, ps, pos, p, 4)
         rg  == s[1]
         post == {<<nm, rg[nm].gen>> : nm \in {x \in Names : rg[x].ex /\ Complete(rg[x])}}
     IN /\ pos' = p
        /\ regs' = rg
        /\ err' = s[3]
        /\ ps' = IF s[3] THEN s[2] ELSE Fire({x[1] : x \in post \ pre}, rg, s[2])
  /\ UNCHANGED <<stream, finished>>

(* finish(): EndCaptureRegions may now report complete *)
Finish ==
  /\ ~finished /\ (pos = N \/ err)
  /\ finished' = TRUE
  /\ regs' = [nm \in Names |-> IF regs[nm].ex /\ regs[nm].kind = "end"
                               THEN [regs[nm] EXCEPT !.fin = TRUE] ELSE regs[nm]]
  /\ UNCHANGED <<stream, pos, ps, err>>

(* any accessor: format_match, complete, virtual_size, context_info,         *)
(* safety_check() -- must not change anything                                *)
Query == UNCHANGED vars

Next == (\E k \in 0..N : EatChunk(k)) \/ Finish \/ Query
Spec == Init /\ [][Next]_vars

-----------------------------------------------------------------------------
(* Observables *)
AllComplete == \A nm \in Names : regs[nm].ex => Complete(regs[nm])

Match == IF Fmt = "chain"
         THEN regs["ident"].n >= 1 /\ Byte(regs["ident"], 1) = 1
         ELSE IF Fmt = "reloc"
         THEN regs["header"].ex /\ regs["header"].n >= 1 /\ Byte(regs["header"], 1) \in {1, 2}
         ELSE Complete(regs["header"]) /\ ps.magic = 1

Size == IF Fmt = "chain"
        THEN IF regs["vds"].ex /\ Complete(regs["vds"]) THEN Byte(regs["vds"], 1) ELSE 0
        ELSE IF Fmt = "reloc"
        THEN IF ps.magic = 1 /\ regs["header"].ex /\ regs["header"].n >= 2 THEN Byte(regs["header"], 2) ELSE 0
        ELSE IF Match THEN ps.size ELSE 0

\* safety_check(): refused unless complete and matching; "fixed" has two
\* checks reading the opt region's first byte and the tail's last byte
Failures == IF Fmt = "chain" THEN {}
            ELSE IF Fmt = "reloc"
            THEN (IF ps.magic # 1 THEN {"descriptor"} ELSE {})
                 \cup (IF regs["footer"].ex /\ regs["footer"].n >= 1
                          /\ Byte(regs["footer"], 1) # Byte(regs["header"], 1) THEN {"footer"} ELSE {})
            ELSE (IF regs["opt"].n >= 1 /\ Byte(regs["opt"], 1) = 3 THEN {"opt"} ELSE {})
                 \cup (IF regs["tail"].n >= 1 /\ Byte(regs["tail"], regs["tail"].n) = 3
                       THEN {"tail"} ELSE {})
Safety == IF ~AllComplete \/ ~Match THEN "refused"
          ELSE IF Failures = {} THEN "ok" ELSE "fail"

\* "eat_chunk raised" and "refused" are one class for the verdict
Verdict == IF err THEN <<"rejected", FALSE, FALSE, 0, {}>>
           ELSE <<IF Safety = "refused" THEN "rejected" ELSE Safety,
                  Match, AllComplete, Size,
                  IF Safety = "fail" THEN Failures ELSE {}>>

-----------------------------------------------------------------------------
(* Reference: the verdict as a function of the bytes alone (one pass, no     *)
(* chunks, no engine)                                                        *)
At(o) == stream[o + 1]                    \* byte at 0-based offset o
Has(o, l) == o + l <= N                    \* bytes o..o+l-1 exist
Rejected == <<"rejected", FALSE, FALSE, 0, {}>>
V(m, c, sz) == <<IF m /\ c THEN "ok" ELSE "rejected", m, c, sz, {}>>

ChainRef ==
  LET m == At(0) = 1 IN
  IF ~Has(1, 2) THEN V(m, FALSE, 0)
  ELSE IF At(1) # 1 THEN Rejected
  ELSE LET p == At(2) IN
       IF p < HdrEnd THEN Rejected
       ELSE LET avail == Max(0, Min(MetaLen, N - p)) IN
            IF avail < 2 THEN V(m, FALSE, 0)
            ELSE IF At(p) # 1 THEN Rejected
            ELSE LET cnt == At(p + 1)
                     es  == 2 + cnt
                 IN IF avail < es THEN V(m, avail = MetaLen, 0)
                    ELSE LET found == {i \in 1..cnt : At(p + 1 + i) # 0} IN
                         IF found = {} THEN V(m, avail = MetaLen, 0)
                         ELSE LET i == CHOOSE j \in found : \A q \in found : j <= q
                                  e == At(p + 1 + i)
                              IN IF e < es THEN Rejected
                                 ELSE IF Has(p + e, 1) THEN V(m, TRUE, At(p + e))
                                 ELSE V(m, FALSE, 0)

FixedRef ==
  LET hc == Has(0, 2)
      m  == hc /\ At(0) = 1
      oc == Has(2, 1)
      tc == N >= 2
      c  == hc /\ oc /\ tc
      f  == (IF oc /\ At(2) = 3 THEN {"opt"} ELSE {})
            \cup (IF N >= 1 /\ At(N - 1) = 3 THEN {"tail"} ELSE {})
  IN IF ~(m /\ c) THEN <<"rejected", m, c, IF m THEN At(1) ELSE 0, {}>>
     ELSE <<IF f = {} THEN "ok" ELSE "fail", m, c, At(1), f>>

RelocRef ==
  LET v == At(0)
      num == At(1)
      dlen == Min(num, DescMax)
      dtype == IF dlen = 0 THEN 0 ELSE At(DescOff)
      f == (IF dtype # 1 THEN {"descriptor"} ELSE {})
           \cup (IF v = 2 /\ At(N - 2) # 2 THEN {"footer"} ELSE {})
  IN IF v \notin {1, 2} THEN Rejected
     ELSE <<IF f = {} THEN "ok" ELSE "fail", TRUE, TRUE, IF dtype = 1 THEN num ELSE 0, f>>

Ref == IF Fmt = "chain" THEN ChainRef ELSE IF Fmt = "reloc" THEN RelocRef ELSE FixedRef

-----------------------------------------------------------------------------
(* The property (C01), engine part *)

\* whatever is retained for a region is exactly the stream's bytes at that
\* region's offsets
Faithful == \A nm \in Names :
              regs[nm].ex => /\ ~regs[nm].bad
                             /\ (regs[nm].n > 0 => regs[nm].src = regs[nm].off)
                             /\ regs[nm].n <= regs[nm].len
                             /\ (regs[nm].n > 0 => regs[nm].src + regs[nm].n <= pos)

\* an EndCaptureRegion present from the start holds exactly the tail at every point; one
\* created later (gen > 0) holds exactly the tail once the stream is finished -- provided the
\* stream is long enough for the region to have seen its whole window (true at these N;
\* shorter streams are finding F3)
EndFaithful == \A nm \in Names :
                 (regs[nm].ex /\ regs[nm].kind = "end" /\ (regs[nm].gen = 0 \/ (finished /\ ~err /\ pos = N))) =>
                     /\ regs[nm].n = Min(regs[nm].len, pos)
                     /\ regs[nm].src = pos - regs[nm].n

\* the verdict after the whole stream is a function of the bytes alone
ChunkIndependent == finished => Verdict = Ref
\* an inspector that raised never un-raises, and a finished run that did not
\* raise is never one the reference rejects as malformed
ErrIsRejected == (finished /\ err) => Ref[1] = "rejected"

NoDataAfterFinish == [][finished => pos' = pos /\ regs' = regs]_vars
QueriesArePure == [][Query => UNCHANGED vars]_vars
PosMonotone == [][pos' >= pos]_vars

(* C05 (engine part): what is retained never exceeds the sum of the caps,     *)
(* whatever the stream announces                                             *)
Retained == LET S == {nm \in Names : regs[nm].ex} IN
            IF Fmt = "chain"
            THEN regs["ident"].n + regs["header"].n + regs["meta"].n + regs["vds"].n
            ELSE IF Fmt = "reloc" THEN regs["header"].n + regs["desc"].n + regs["footer"].n
            ELSE regs["header"].n + regs["opt"].n + regs["tail"].n
MemoryBound == Retained <= IF Fmt = "chain" THEN 1 + 2 + MetaLen + 1 ELSE IF Fmt = "reloc" THEN 3 + 3 + 2 ELSE 2 + 2 + 2

(* C07 (engine part): size is 0 for as long as the carrier is not captured    *)
ZeroWhileUnknown ==
  IF Fmt = "chain" THEN (~(regs["vds"].ex /\ Complete(regs["vds"])) => Size = 0)
  ELSE IF Fmt = "reloc" THEN (ps.magic # 1 => Size = 0)
  ELSE (~Complete(regs["header"]) => Size = 0)
=============================================================================
