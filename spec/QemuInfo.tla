------------------------------ MODULE QemuInfo ------------------------------
(***************************************************************************)
(* imageutils.qemu.QemuImgInfo, human-readable format: the line-oriented    *)
(* parser (_parse / _extract_details, qemu.py:137-200) as a transition      *)
(* system over a queue of line CLASSES (gamma renders each class to text):  *)
(*   Top(key)      "key: value" -- the value replaces any earlier one        *)
(*   SnapHeader    "Snapshot list:" -- must be followed by the "ID TAG ..."  *)
(*                 header, then consumes rows while they have six fields and *)
(*                 an hh:mm:ss clock                                         *)
(*   anything else is skipped                                                *)
(* Spec growth beyond the listed properties (C10 only speaks of the size     *)
(* fields); replayed by checks/c10.py.                                       *)
(***************************************************************************)
EXTENDS Integers, Sequences, FiniteSets, TLC

CONSTANTS MaxLines
VARIABLES input, queue, fields, snaps, err, mode
vars == <<input, queue, fields, snaps, err, mode>>

Keys == {"image", "file_format", "virtual_size", "disk_size", "cluster_size", "backing_file", "encrypted"}
TopClasses == {"image", "file_format_upper", "virtual_size", "virtual_size_b", "disk_size", "disk_size_none",
               "cluster_size", "backing_file", "backing_file_actual", "encrypted"}
Classes == TopClasses \cup {"snap_header", "id_header", "row", "row5", "row_badclock", "junk", "blank"}
KeyOf(c) == CASE c \in {"virtual_size", "virtual_size_b"} -> "virtual_size"
              [] c \in {"disk_size", "disk_size_none"} -> "disk_size"
              [] c \in {"backing_file", "backing_file_actual"} -> "backing_file"
              [] c = "file_format_upper" -> "file_format"
              [] OTHER -> c

RECURSIVE SeqsOf(_, _)
SeqsOf(S, n) == IF n = 0 THEN {<<>>} ELSE {Append(q, x) : q \in SeqsOf(S, n - 1), x \in S}
Inputs == UNION {SeqsOf(Classes, n) : n \in 0..MaxLines}

Init == /\ input \in Inputs /\ queue = SelectSeq(input, LAMBDA c : c # "blank")     \* blank lines are dropped first
        /\ fields = [k \in Keys |-> "absent"] /\ snaps = -1 /\ err = FALSE /\ mode = "top"

\* one line of the main loop
Step ==
  /\ mode = "top" /\ ~err /\ queue # <<>>
  /\ LET c == Head(queue) rest == Tail(queue) IN
     IF c \in TopClasses
     THEN /\ fields' = [fields EXCEPT ![KeyOf(c)] = c] /\ queue' = rest /\ UNCHANGED <<snaps, err, mode>>
     ELSE IF c = "snap_header"
     THEN IF rest = <<>> \/ Head(rest) # "id_header"
          THEN err' = TRUE /\ queue' = rest /\ UNCHANGED <<fields, snaps, mode>>
          ELSE /\ snaps' = 0 /\ queue' = Tail(rest) /\ mode' = "rows" /\ UNCHANGED <<fields, err>>
     ELSE /\ queue' = rest /\ UNCHANGED <<fields, snaps, err, mode>>          \* junk, stray rows, stray header
  /\ UNCHANGED input
\* inside a snapshot table: rows are consumed while they look like rows
Row ==
  /\ mode = "rows" /\ ~err
  /\ IF queue # <<>> /\ Head(queue) = "row"
     THEN snaps' = snaps + 1 /\ queue' = Tail(queue) /\ UNCHANGED mode
     ELSE mode' = "top" /\ UNCHANGED <<snaps, queue>>
  /\ UNCHANGED <<input, fields, err>>
Next == Step \/ Row
Spec == Init /\ [][Next]_vars

Finished == err \/ (queue = <<>> /\ mode = "top")
\* every line is consumed exactly once, the parser always terminates
Progress == [][Len(queue') < Len(queue) \/ mode' # mode]_vars
\* a later occurrence of a key wins
LastWins == Finished /\ ~err =>
   \A k \in Keys : LET S == {i \in 1..Len(input) : input[i] \in TopClasses /\ KeyOf(input[i]) = k} IN
                   (S = {} => fields[k] = "absent")
\* a snapshot table never swallows a top-level line
RowsOnlyAfterHeader == snaps > 0 => \E i \in 1..(Len(input) - 1) : input[i] = "snap_header"
=============================================================================
