INIT Init
NEXT Next
INVARIANT FilterExact
INVARIANT RemoveThenReraise
CONSTRAINT Emit
CHECK_DEADLOCK FALSE
