SPECIFICATION Spec
CONSTANT N = 4
CONSTRAINT Export
INVARIANT TypeOK
INVARIANT IndentGrows
INVARIANT NoRepeat
INVARIANT Bounded
INVARIANT ForeignEndsIt
INVARIANT FollowsCauses
INVARIANT Complete
PROPERTY Terminates
CHECK_DEADLOCK FALSE
