INIT InitChars
NEXT NextChars
CONSTANTS
  L = 8
  Wide = TRUE
CONSTRAINT EmitChars
CHECK_DEADLOCK FALSE
