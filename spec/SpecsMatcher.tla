---------------------------- MODULE SpecsMatcher ----------------------------
(***************************************************************************)
(* oslo_utils.specs_matcher.match(value, spec) as a reference function       *)
(* (C18), written from the docstring of make_grammar() / match():            *)
(*                                                                         *)
(*   =  (legacy: means >=)  ==  !=  <  <=  >  >=   numeric comparison        *)
(*   s==  s!=  s<  s<=  s>  s>=                    string comparison         *)
(*   <in> w                 w is a substring of the value                    *)
(*   <all-in> w1 .. wn      every wi is an item of the value (a list)        *)
(*   <or> w1 <or> w2 ..     the value equals one of the alternatives         *)
(*   <range-in> [ lo hi ]   lo <= value <= hi; "(" / ")" make an end strict  *)
(*   w                      no operator: plain string equality (s==)         *)
(*                                                                         *)
(* Abstraction.  TLC strings are atomic, so every piece of text (a value, an  *)
(* operand, an alternative, a list item, a numeral) is a *word*: a sequence  *)
(* of one-character strings.  A spec is its operator (an atomic string, ""   *)
(* for none) plus its operand words; how the tokens are laid out with        *)
(* blanks is not part of a case: every case is replayed under every layout   *)
(* of Layouts (names rendered by the harness) and the reference does not     *)
(* look at it, which *is* the statement "extra whitespace does not matter".  *)
(* String comparison is lexicographic over the character ranks of Order      *)
(* (code-point order of the characters used; the harness re-checks that      *)
(* table and every reference verdict against Python str / Decimal).          *)
(* Numerals are parsed here (sign, integer digits, optional point and <= 2   *)
(* fraction digits) into hundredths, so numeric comparison is exact integer  *)
(* arithmetic (all magnitudes far below 2^31).                               *)
(*                                                                         *)
(* Left open by the property, therefore NOT generated:                       *)
(*  - operands / bare specs that start with an operator ("=5", "<x", "s<a"), *)
(*    an operator without operand, several bare words without operator       *)
(*    ("a b": the code compares only the first word), words containing       *)
(*    blanks, brackets not separated by blanks ("[10 20]");                  *)
(*  - numeric operators on text that is not a decimal numeral (ValueError    *)
(*    from float()), exponent / hex / underscore / "+" / leading-zero /      *)
(*    inf / nan spellings (float() and ast.literal_eval() leniencies that    *)
(*    differ between the plain operators and <range-in>);                    *)
(*  - values that are not str (an int value works with >= but makes          *)
(*    <range-in> raise ValueError from ast.literal_eval; a real list makes   *)
(*    <all-in> raise), <all-in> against something that is not a list         *)
(*    literal of strings, more or fewer than four tokens after <range-in>.   *)
(* Layout "glued" (no blank between an operator and its first operand,       *)
(* ">=5") IS generated: the grammar is token-based and the meaning is        *)
(* unambiguous because operands never start with an operator.                *)
(* One error outcome is kept because the library documents it in its own     *)
(* message and examples: <range-in> with lo > hi is a TypeError.             *)
(***************************************************************************)
EXTENDS Integers, Sequences, FiniteSets, TLC

CONSTANTS Wide        \* FALSE: quick bounds, TRUE: thorough bounds
VARIABLE c
vars == <<c>>

(* ---- documentation table ------------------------------------------------ *)
NumOps == {"=", "==", "!=", "<", "<=", ">", ">="}
StrOps == {"s==", "s!=", "s<", "s<=", "s>", "s>="}
OtherOps == {"<in>", "<all-in>", "<or>", "<range-in>"}
AllOps == NumOps \cup StrOps \cup OtherOps
\* operator spellings as words, to decide "starts with an operator"
OpSpell == { <<"=">>, <<"=", "=">>, <<"!", "=">>, <<"<">>, <<"<", "=">>, <<">">>, <<">", "=">>,
             <<"s", "=", "=">>, <<"s", "!", "=">>, <<"s", "<">>, <<"s", "<", "=">>, <<"s", ">">>, <<"s", ">", "=">>,
             <<"<", "i", "n", ">">>, <<"<", "a", "l", "l", "-", "i", "n", ">">>, <<"<", "o", "r", ">">>,
             <<"<", "r", "a", "n", "g", "e", "-", "i", "n", ">">> }
IsPrefix(p, w) == Len(p) <= Len(w) /\ SubSeq(w, 1, Len(p)) = p
StartsWithOp(w) == \E p \in OpSpell : IsPrefix(p, w)

(* ---- text: character order, lexicographic order, substring --------------- *)
Order == <<"!", ",", "-", ".", "0", "1", "2", "5", "9", "<", "=", ">", "B", "_", "a", "b", "o", "r", "s">>
Rank(ch) == CHOOSE i \in 1..Len(Order) : Order[i] = ch
RECURSIVE LexLt(_, _)
LexLt(v, w) == IF w = <<>> THEN FALSE
               ELSE IF v = <<>> THEN TRUE
               ELSE IF v[1] = w[1] THEN LexLt(Tail(v), Tail(w))
               ELSE Rank(v[1]) < Rank(w[1])
Contains(v, w) == \E i \in 0..(Len(v) - Len(w)) : SubSeq(v, i + 1, i + Len(w)) = w
Words(A, n) == UNION {[1..k -> A] : k \in 0..n}

(* ---- decimal numerals -> hundredths -------------------------------------- *)
DigitChars == <<"0", "1", "2", "3", "4", "5", "6", "7", "8", "9">>
IsDigit(ch) == \E i \in 1..10 : DigitChars[i] = ch
DigitVal(ch) == (CHOOSE i \in 1..10 : DigitChars[i] = ch) - 1
RECURSIVE NatOf(_)
NatOf(w) == IF w = <<>> THEN 0 ELSE NatOf(SubSeq(w, 1, Len(w) - 1)) * 10 + DigitVal(w[Len(w)])
DotPos(w) == IF \E i \in 1..Len(w) : w[i] = "." THEN CHOOSE i \in 1..Len(w) : w[i] = "." ELSE Len(w) + 1
Body(w) == IF w[1] = "-" THEN Tail(w) ELSE w
IsNumeral(w) ==
  /\ Len(w) >= 1 /\ Len(Body(w)) >= 1
  /\ LET b == Body(w)  p == DotPos(b)
     IN /\ p >= 2 /\ p # Len(b)                              \* digits on both sides of a point
        /\ Len(b) - p <= 2                                   \* at most two fraction digits
        /\ \A i \in 1..Len(b) : i # p => IsDigit(b[i])
        /\ (p > 2 => b[1] # "0")                             \* no leading zeros
Hundredths(w) ==
  LET b == Body(w)
      p == DotPos(b)
      ip == SubSeq(b, 1, p - 1)
      fp == SubSeq(b, p + 1, Len(b))
      f == IF Len(fp) = 0 THEN 0 ELSE IF Len(fp) = 1 THEN 10 * DigitVal(fp[1]) ELSE NatOf(fp)
      m == NatOf(ip) * 100 + f
  IN IF w[1] = "-" THEN 0 - m ELSE m
\* the same value as a pair <<integer part, hundredths>> (both carrying the sign), ordered lexicographically:
\* lets the enumeration hold numerals near 2^31 whose hundredths would not fit TLC's integers
Key(w) ==
  LET b == Body(w)
      p == DotPos(b)
      ip == SubSeq(b, 1, p - 1)
      fp == SubSeq(b, p + 1, Len(b))
      f == IF Len(fp) = 0 THEN 0 ELSE IF Len(fp) = 1 THEN 10 * DigitVal(fp[1]) ELSE NatOf(fp)
  IN IF w[1] = "-" THEN [hi |-> 0 - NatOf(ip), lo |-> 0 - f] ELSE [hi |-> NatOf(ip), lo |-> f]
NLt(x, y) == x.hi < y.hi \/ (x.hi = y.hi /\ x.lo < y.lo)
NLe(x, y) == NLt(x, y) \/ x = y

(* ---- the numerals of the enumeration (their values are tabulated once) ---- *)
\* numerals: integers, decimals, negative, equal values spelt differently, adjacent values
NumQuick == { <<"0">>, <<"-", "0">>, <<"1">>, <<"2">>, <<"9">>, <<"1", "0">>, <<"1", "1">>,
              <<"-", "1">>, <<"-", "2">>, <<"-", "1", "0">>,
              <<"1", ".", "5">>, <<"1", ".", "5", "0">>, <<"2", ".", "0">>, <<"0", ".", "5">>, <<"-", "0", ".", "5">>,
              <<"9", ".", "9", "9">>, <<"1", "0", ".", "0", "1">>, <<"1", "0", ".", "0">> }
NumMore == { <<"1", "0", "0">>, <<"9", "9", ".", "9", "9">>, <<"-", "1", ".", "5">>, <<"-", "9", ".", "9", "9">>,
             <<"0", ".", "0", "1">>, <<"-", "0", ".", "0", "1">>, <<"0", ".", "0">>, <<"1", "2", "3", "4", "5", "6">> }
\* neighbours whose relative distance is below 1e-9 (and still exact as binary64): equality must not be approximate
NumBig == { <<"2", "1", "4", "7", "4", "8", "3", "6", "4", "6">>, <<"2", "1", "4", "7", "4", "8", "3", "6", "4", "7">>,
            <<"-", "2", "1", "4", "7", "4", "8", "3", "6", "4", "7">>, <<"2", "1", "4", "7", "4", "8", "3", "6", "4", "6", ".", "5">> }
Nums == IF Wide THEN NumQuick \cup NumMore \cup NumBig ELSE NumQuick \cup NumBig
\* ranges: ends and probes on, just inside, just outside, far from both ends; equal ends
RangeQuick == { <<"0">>, <<"-", "0">>, <<"-", "1">>, <<"9", ".", "9", "9">>, <<"1", "0">>, <<"1", "0", ".", "0">>, <<"1", "0", ".", "0", "1">>,
                <<"1", "5">>, <<"1", "9", ".", "9", "9">>, <<"2", "0">>, <<"2", "0", ".", "0", "1">> }
RangeNums == IF Wide THEN RangeQuick \cup { <<"0">>, <<"-", "0", ".", "5">>, <<"2", "0", ".", "0">>, <<"1", "0", "0">>,
                                            <<"-", "1", "0">>, <<"1", "4", ".", "9", "9">> }
             ELSE RangeQuick
ValueOf == [w \in Nums \cup RangeNums |-> Key(w)]
Val(w) == ValueOf[w]

(* ---- the reference function ---------------------------------------------- *)
\* a case: k family, op operator, v value word, vl value list (only <all-in>),
\*         a operand words, lb / rb brackets (only <range-in>)
NumRel(op, x, y) ==
  CASE op = "="  -> NLe(y, x)          \* legacy: "equal to or greater than"
    [] op = "==" -> x = y
    [] op = "!=" -> x # y
    [] op = "<"  -> NLt(x, y)
    [] op = "<=" -> NLe(x, y)
    [] op = ">"  -> NLt(y, x)
    [] op = ">=" -> NLe(y, x)
StrRel(op, v, w) ==
  CASE op = "s==" -> v = w
    [] op = "s!=" -> v # w
    [] op = "s<"  -> LexLt(v, w)
    [] op = "s<=" -> LexLt(v, w) \/ v = w
    [] op = "s>"  -> LexLt(w, v)
    [] op = "s>=" -> LexLt(w, v) \/ v = w
InRange(x, lo, hi, lb, rb) ==
  /\ (IF lb = "[" THEN NLe(lo, x) ELSE NLt(lo, x))
  /\ (IF rb = "]" THEN NLe(x, hi) ELSE NLt(x, hi))
Meaning(x) ==
  CASE x.op \in NumOps      -> NumRel(x.op, Val(x.v), Val(x.a[1]))
    [] x.op \in StrOps      -> StrRel(x.op, x.v, x.a[1])
    [] x.op = ""            -> x.v = x.a[1]
    [] x.op = "<in>"        -> Contains(x.v, x.a[1])
    [] x.op = "<or>"        -> \E i \in 1..Len(x.a) : x.a[i] = x.v
    [] x.op = "<all-in>"    -> \A i \in 1..Len(x.a) : \E j \in 1..Len(x.vl) : x.vl[j] = x.a[i]
    [] x.op = "<range-in>"  -> InRange(Val(x.v), Val(x.a[1]), Val(x.a[2]), x.lb, x.rb)
Ref(x) ==
  IF x.op = "<range-in>" /\ NLt(Val(x.a[2]), Val(x.a[1])) THEN "TypeError"
  ELSE IF Meaning(x) THEN "true" ELSE "false"

(* ---- bounded families of cases ------------------------------------------- *)
Case(k, op, v, vl, a, lb, rb) == [k |-> k, op |-> op, v |-> v, vl |-> vl, a |-> a, lb |-> lb, rb |-> rb]

\* strings over letters, digits and punctuation; values may be anything (also
\* empty, also operator-like), operands must not start with an operator
StrAlpha == IF Wide THEN {"-", "1", "<", "=", "a", "s"} ELSE {"1", "<", "=", "a", "s"}
StrValues == Words(StrAlpha, IF Wide THEN 3 ELSE 2)
StrOperands == {w \in Words(StrAlpha, 2) : Len(w) >= 1 /\ ~StartsWithOp(w)}
                 \cup { <<"a", "<", "o", "r", ">", "b">>, <<"!", "a">>, <<"s", "=">>, <<"B", "_", ".">>,
                        <<"a", ",">>, <<"a", "b", ",">>, <<",", "a">> }       \* punctuation at an end of an operand is part of it
StrCases == {Case("str", op, v, <<>>, <<w>>, "", "") :
               op \in StrOps \cup {"", "<in>"}, v \in StrValues \cup StrOperands, w \in StrOperands}
\* substring: longer values
InAlpha == {"a", "b", "1"}
InCases == {Case("in", "<in>", v, <<>>, <<w>>, "", "") :
               v \in Words(InAlpha, IF Wide THEN 4 ELSE 3), w \in Words(InAlpha, 2) \ {<<>>}}

\* values that look like list / tuple / set literals are strings all the same: <in> looks for a substring of the text
LiteralLooking == { <<"[", "'", "a", "b", "'", ",", " ", "'", "1", "'", "]">>, <<"[", "1", "1", ",", " ", "1", "]">>,
                    <<"(", "'", "a", "b", "'", ",", ")">>, <<"{", "'", "a", "b", "'", "}">>, <<"[", "]">>, <<"'", "a", "b", "'">> }
InLiteralCases == {Case("in", "<in>", v, <<>>, <<w>>, "", "") :
                     v \in LiteralLooking, w \in { <<"a">>, <<"1">>, <<"a", "b">>, <<"b", "'">>, <<"1", "1">>, <<"b", "a">> }}
NumCases == {Case("num", op, v, <<>>, <<w>>, "", "") : op \in NumOps, v \in Nums, w \in Nums}

Brackets == {<<"[", "]">>, <<"[", ")">>, <<"(", "]">>, <<"(", ")">>}
RangeCases == {Case("range", "<range-in>", v, <<>>, <<lo, hi>>, b[1], b[2]) :
                 v \in RangeNums, lo \in RangeNums, hi \in RangeNums, b \in Brackets}

\* alternatives and list items: 1..5 of them, with a word that is a prefix of
\* another one and a word that merely contains an operator
OrPool == IF Wide THEN { <<"a">>, <<"a", "b">>, <<"a", "<", "o", "r", ">", "b">>, <<"1">> }
          ELSE { <<"a">>, <<"a", "b">>, <<"a", "<", "o", "r", ">", "b">> }
OrValues == OrPool \cup { <<>>, <<"b">>, <<"<", "o", "r", ">">> }
OrCases == {Case("or", "<or>", v, <<>>, a, "", "") : v \in OrValues, a \in UNION {[1..n -> OrPool] : n \in 1..5}}
ItemPool == IF Wide THEN { <<"a">>, <<"a", "b">>, <<"1">>, <<"a", "=", "b">> } ELSE { <<"a">>, <<"a", "b">>, <<"1">> }
ValueLists == UNION {[1..n -> ItemPool] : n \in 0..1}
                \cup { << <<"a">>, <<"a", "b">> >>, << <<"a", "b">>, <<"1">> >>, << <<"1">>, <<"a">> >>,
                       << <<"a">>, <<"a", "b">>, <<"1">> >>, << <<"b">>, <<"a", "a">> >> }
AllInCases == {Case("allin", "<all-in>", <<>>, vl, a, "", "") :
                 vl \in ValueLists, a \in UNION {[1..n -> ItemPool] : n \in 1..5}}


\* layouts of the token sequence (rendered by the harness):
\*   single  one blank between tokens            double  two blanks
\*   tab     a tab between tokens                 padded  blanks before, two between, blank + tab after
\*   lead    blanks before the first token        trail   blanks after the last token
\*   newline a newline between tokens             glued   no blank after an operator
Layouts == IF Wide THEN {"single", "double", "tab", "lead", "trail", "padded", "newline", "glued"}
           ELSE {"single", "padded", "glued"}

\* (a disjunction, not one big union: TLC would evaluate and sort the union eagerly)
Init == \/ c \in StrCases \/ c \in InCases \/ c \in InLiteralCases \/ c \in NumCases
        \/ c \in RangeCases \/ c \in OrCases \/ c \in AllInCases
Next == FALSE /\ UNCHANGED vars
Spec == Init /\ [][Next]_vars

(* ---- C18 on the model ------------------------------------------------------ *)
M(x, op) == Meaning([x EXCEPT !.op = op])
One(P, Q, R) == (P /\ ~Q /\ ~R) \/ (~P /\ Q /\ ~R) \/ (~P /\ ~Q /\ R)
\* "=" is ">="; each strict operator is the negation of the opposite weak one;
\* weak and strict differ exactly on equal values; exactly one of <, ==, >
NumLaws == c.k = "num" =>
  /\ M(c, "=") = M(c, ">=")
  /\ M(c, "<") = ~M(c, ">=")
  /\ M(c, ">") = ~M(c, "<=")
  /\ M(c, "!=") = ~M(c, "==")
  /\ (M(c, "<=") # M(c, "<")) = M(c, "==")
  /\ (M(c, ">=") # M(c, ">")) = M(c, "==")
  /\ One(M(c, "<"), M(c, "=="), M(c, ">"))
StrLaws == c.k = "str" =>
  /\ (M(c, "s<=") # M(c, "s<")) = (c.v = c.a[1])
  /\ (M(c, "s>=") # M(c, "s>")) = (c.v = c.a[1])
  /\ M(c, "s<") = ~M(c, "s>=")
  /\ M(c, "s>") = ~M(c, "s<=")
  /\ M(c, "s!=") = ~M(c, "s==")
  /\ M(c, "") = M(c, "s==")                    \* no operator is s==
  /\ (M(c, "s==") => M(c, "<in>"))
  /\ One(M(c, "s<"), M(c, "s=="), M(c, "s>"))
\* <or> is the disjunction of s== over the alternatives, <all-in> the
\* conjunction of single-item tests
OrLaws == c.k = "or" =>
  Meaning(c) = (\E i \in 1..Len(c.a) : Meaning([c EXCEPT !.op = "s==", !.a = <<c.a[i]>>]))
AllInLaws == c.k = "allin" =>
  /\ Meaning(c) = (\A i \in 1..Len(c.a) : Meaning([c EXCEPT !.a = <<c.a[i]>>]))
  /\ (c.vl = <<>> => ~Meaning(c))
\* a closed range is ">= lo and <= hi"; making an end strict removes exactly that end
RangeLaws == (c.k = "range" /\ Ref(c) # "TypeError") =>
  LET R(l, r) == Meaning([c EXCEPT !.lb = l, !.rb = r])
      N(op, w) == Meaning([c EXCEPT !.op = op, !.a = <<w>>])
  IN /\ R("[", "]") = (N(">=", c.a[1]) /\ N("<=", c.a[2]))
     /\ R("(", ")") = (N(">", c.a[1]) /\ N("<", c.a[2]))
     /\ (R("[", "]") # R("(", "]")) = N("==", c.a[1])
     /\ (R("[", "]") # R("[", ")")) = N("==", c.a[2])
     /\ (R("(", ")") => R("[", ")") /\ R("(", "]"))
     /\ (N("==", c.a[1]) /\ N("==", c.a[2]) => ~R("(", "]") /\ ~R("[", ")") /\ R("[", "]"))
RangeOrderError == c.k = "range" => ((Ref(c) = "TypeError") = M([c EXCEPT !.v = c.a[1], !.a = <<c.a[2]>>], ">"))
\* the generators stay inside the documented grammar
InGrammar ==
  /\ c.op \in AllOps \cup {""}
  /\ \A i \in 1..Len(c.a) : Len(c.a[i]) >= 1 /\ ~StartsWithOp(c.a[i])
  /\ (c.op \in NumOps \cup {"<range-in>"} => IsNumeral(c.v) /\ \A i \in 1..Len(c.a) : IsNumeral(c.a[i]))
  /\ (c.op = "<range-in>" => Len(c.a) = 2 /\ c.lb \in {"[", "("} /\ c.rb \in {"]", ")"})
  /\ (c.op \in {"<or>", "<all-in>"} => Len(c.a) \in 1..5)
  /\ (c.op \notin OtherOps \ {"<in>"} => Len(c.a) = 1)

ASSUME Tables ==
  /\ Cardinality(AllOps) = 17 /\ Cardinality(OpSpell) = 17
  /\ \A i \in 1..Len(Order), j \in 1..Len(Order) : i # j => Order[i] # Order[j]
ASSUME Decimals ==
  /\ Hundredths(<<"1", ".", "5">>) = 150 /\ Hundredths(<<"1", ".", "5", "0">>) = 150
  /\ Hundredths(<<"-", "0">>) = 0 /\ Hundredths(<<"-", "0", ".", "5">>) = 0 - 50
  /\ Hundredths(<<"1", "0", ".", "0", "1">>) = 1001 /\ Hundredths(<<"9", ".", "9", "9">>) = 999
  /\ Hundredths(<<"1", "2", "3", "4", "5", "6">>) = 12345600
  /\ \A w \in NumQuick \cup NumMore \cup RangeNums : Key(w).hi * 100 + Key(w).lo = Hundredths(w)
  /\ \A v \in NumQuick \cup NumMore, w \in NumQuick \cup NumMore : NLt(Key(v), Key(w)) <=> Hundredths(v) < Hundredths(w)
  /\ ~IsNumeral(<<"0", "7">>) /\ ~IsNumeral(<<"1", ".">>) /\ ~IsNumeral(<<".", "5">>) /\ ~IsNumeral(<<"-">>)
  /\ ~IsNumeral(<<"1", ".", "2", "3", "4">>) /\ ~IsNumeral(<<"a">>)
\* the string order is a strict total order in which a proper prefix comes first
ASSUME LexOrder ==
  LET S == Words({"1", "=", "a", "s"}, 2)
  IN /\ \A x \in S : ~LexLt(x, x)
     /\ \A x \in S, y \in S : x # y => (LexLt(x, y) # LexLt(y, x))
     /\ \A x \in S, y \in S, z \in S : LexLt(x, y) /\ LexLt(y, z) => LexLt(x, z)
     /\ \A x \in S, y \in S : Len(y) >= 1 => LexLt(x, x \o y)
ASSUME OperatorPrefixes ==
  /\ StartsWithOp(<<"=", "5">>) /\ StartsWithOp(<<"s", "<", "a">>) /\ StartsWithOp(<<"<", "x">>)
  /\ StartsWithOp(<<"<", "o", "r", ">">>) /\ StartsWithOp(<<"!", "=">>)
  /\ ~StartsWithOp(<<"s", "=">>) /\ ~StartsWithOp(<<"!", "a">>) /\ ~StartsWithOp(<<"a", "<", "o", "r", ">", "b">>)
  /\ ~StartsWithOp(<<"s">>) /\ ~StartsWithOp(<<"-", "1">>)
=============================================================================
