INIT InitChars
NEXT NextChars
CONSTANTS
  L = 7
  Wide = FALSE
CONSTRAINT EmitChars
CHECK_DEADLOCK FALSE
