INIT InitChars
NEXT NextChars
CONSTANTS
  L = 7
  Wide = TRUE
CONSTRAINT EmitChars
CHECK_DEADLOCK FALSE
