----------------------------- MODULE MC_NetEnv -----------------------------
EXTENDS NetEnv, Json
Export == PrintT(ToJson([c |-> c, ref |-> IF c.t = "addr" THEN [r |-> AddrRef(c)] ELSE [r |-> KaRef(c)]]))
=============================================================================
