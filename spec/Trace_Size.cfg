SPECIFICATION TSpec
CONSTRAINT Done
CONSTRAINT Diag
INVARIANT ZeroWhileUnknown
INVARIANT SizeRight
PROPERTY Stable
CHECK_DEADLOCK FALSE
