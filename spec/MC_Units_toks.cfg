INIT InitToks
NEXT NoNext
CONSTANTS L = 0
CONSTRAINT EmitToks
CHECK_DEADLOCK FALSE
