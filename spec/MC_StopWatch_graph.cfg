SPECIFICATION Spec
CONSTANTS
  Durations <- MCDurations
  Steps <- MCSteps
  Maxima <- MCMaxima
  NoDur <- MCNoDur
  ClockLo = 0
  ClockHi = 4
  MaxSplits = 2
VIEW View
CONSTRAINT Bound
ACTION_CONSTRAINT Emit
CHECK_DEADLOCK FALSE
