SPECIFICATION TSpec
CONSTRAINT Done
CONSTRAINT Diag
PROPERTY NoRevision
CHECK_DEADLOCK FALSE
