-------------------------------- MODULE Misc --------------------------------
(***************************************************************************)
(* Spec growth beyond the listed properties: two small reference functions. *)
(*  - timeutils.time_it: the decorated function runs inside a StopWatch;     *)
(*    the elapsed time is logged iff the decorator is enabled, the function  *)
(*    returned normally and (min_duration is None or elapsed >= min_duration)*)
(*    -- times in milliseconds, NoMin stands for None.                       *)
(*  - dictutils.flatten_dict_to_keypairs: nested dictionaries flattened to   *)
(*    (path, value) pairs, keys in sorted order, names joined by a separator.*)
(***************************************************************************)
EXTENDS Integers, Sequences, FiniteSets, TLC

VARIABLE c

NoMin == -1
TimeItCases == {[k |-> "time_it", enabled |-> e, raises |-> r, min |-> m, elapsed |-> t] :
                  e \in BOOLEAN, r \in BOOLEAN, m \in {NoMin, 0, 10, 5000}, t \in {0, 5, 10, 11, 5000, 7000}}
TimeItLogged(x) == x.enabled /\ ~x.raises /\ (x.min = NoMin \/ x.elapsed >= x.min)

\* trees: a dict is a sequence of <<key, node>> with distinct keys (given in arbitrary order);
\* a node is [leaf |-> v] or [dict |-> entries]
Leaf(v) == [t |-> "leaf", v |-> v, ents |-> <<>>]
Dict(e) == [t |-> "dict", v |-> 0, ents |-> e]
KeyRank(k) == CASE k = "a" -> 1 [] k = "b" -> 2 [] k = "c" -> 3
\* entries sorted by key
SortEnts(e) == SortSeq(e, LAMBDA x, y : KeyRank(x[1]) < KeyRank(y[1]))
RECURSIVE Flatten(_), FlatEnts(_)
FlatEnts(e) == IF e = <<>> THEN <<>>
               ELSE LET k == e[1][1] nd == e[1][2] IN
                    (IF nd.t = "dict"
                     THEN [i \in 1..Len(Flatten(nd)) |-> <<<<k>> \o Flatten(nd)[i][1], Flatten(nd)[i][2]>>]
                     ELSE <<<<<<k>>, nd.v>>>>) \o FlatEnts(Tail(e))
Flatten(nd) == FlatEnts(SortEnts(nd.ents))
L0 == {Leaf(1), Leaf(2)}
D1 == {Dict(<<<<k1, v1>>>>) : k1 \in {"a", "b"}, v1 \in L0}
      \cup {Dict(<<<<"b", v1>>, <<"a", v2>>>>) : v1 \in L0, v2 \in L0} \cup {Dict(<<>>)}
D2 == {Dict(<<<<k1, v1>>, <<k2, v2>>>>) : k1 \in {"b", "c"}, k2 \in {"a"}, v1 \in D1 \cup L0, v2 \in D1 \cup L0}
      \cup {Dict(<<<<"c", v1>>>>) : v1 \in D1}
D3 == {Dict(<<<<"b", v1>>, <<"a", v2>>>>) : v1 \in {d \in D2 : Len(d.ents) = 1}, v2 \in L0 \cup {Dict(<<>>)}}
FlatCases == {[k |-> "flatten", tree |-> d] : d \in D1 \cup D2 \cup D3}

Cases == TimeItCases \cup FlatCases
Init == c \in Cases
Next == FALSE /\ UNCHANGED c
Spec == Init /\ [][Next]_c

\* an empty nested dictionary contributes nothing; the number of pairs is the number of leaves
RECURSIVE Leaves(_), LeavesEnts(_)
LeavesEnts(e) == IF e = <<>> THEN 0 ELSE Leaves(e[1][2]) + LeavesEnts(Tail(e))
Leaves(nd) == IF nd.t = "leaf" THEN 1 ELSE LeavesEnts(nd.ents)
PairsAreLeaves == c.k = "flatten" => Len(Flatten(c.tree)) = Leaves(c.tree)
=============================================================================
