INIT InitHostile
NEXT Next
CONSTRAINT EmitHostile
CHECK_DEADLOCK FALSE
